"""C41  Web API never exceeds the authority of the capability used."""
import hashlib
import json
import os
from urllib.parse import quote

from core import term as T

ID = "C41"
GEN = ["webops"]
RULE = ("cases: one HTTP request against the real web resources (TahoeLAFSSite of a grid client, in-memory transport) of a real "
        "in-process grid holding a mixed-authority tree (SDMF/MDMF directories linked by write cap and by read cap, an immutable "
        "directory, CHK / LIT / mutable files linked by write and by read cap, an unknown-format child); every (handler class, method, "
        "t=) entry of the regenerated dispatch table x every way of addressing the target (read cap, verify cap, path from the "
        "read-only root, path from the writeable root through a read-only link, through the immutable directory, write cap); "
        "non-trivial = the request reaches a handler (not 404); distinct = distinct (operation, address kind, target kind)")
META = {
    "title": "Web API never exceeds the authority of the capability used",
    "level_text": ("Theorems in Coq over a model of the web API's path traversal and of every render_PUT/POST/DELETE branch of the /uri and "
                   "/file handlers (dispatch table, web-level read-only guards, DirectoryNode NotWriteableError guards and MutableFileVersion "
                   "assertions all regenerated from the source on every run): through a cap that is not writeable, or below a directory node that "
                   "is not writeable, no mutating node-layer call is carried out and the abstract grid is unchanged, for ALL requests, paths and "
                   "grids; a listing produced through such a cap has no rw_uri field and no cap of write authority.  The model's verdict is "
                   "compared with the real resources on a real grid for every table entry and address kind, and a direct oracle checks refusal, "
                   "byte-identical share files and absence of every write cap string in every response."),
    "level_note": ("core (partial): the abstract grid has objects and edges only (no metadata, leases, share placement); creation of unlinked "
                   "objects by a request that is then refused is not represented (needs no authority); the correctness of the node layer below "
                   "the guards (publish with a read cap fails) is exercised by the driver, not proved; the control structure of each dispatch "
                   "branch is hand-written and tied to the source through the regenerated call sets (table_covered)."),
    "technique": "Coq proof over a model driven by a dispatch table regenerated from source + differential run vs real web resources on a real grid + before/after share diff and write-cap leak scan",
    "design_ref": "8/C41",
    "trusted_base": ["translator harness/translate/webops.py", "op_script of Model/WebAuth.v as a reading of the dispatch branches"],
    "assumptions": ["no directory stores a write cap in a read-cap slot (C18 known finding excluded)"],
}
IMPORTS = ["Model.WebAuth"]

PREAMBLE = """
Local Open Scope N_scope.
Definition nn_eqb (a b : N * N) : bool := N.eqb (fst a) (fst b) && N.eqb (snd a) (snd b).
Definition same_names (a b : list N) : bool :=
  Nat.eqb (List.length a) (List.length b) && forallb (fun x => existsb (N.eqb x) b) a && forallb (fun x => existsb (N.eqb x) a) b.
Definition kid_le (a b : N * (N * N)) : bool := N.leb (fst a) (fst b).
Fixpoint ins (x : N * (N * N)) (l : list (N * (N * N))) : list (N * (N * N)) :=
  match l with [] => [x] | y :: r => if kid_le x y then x :: l else y :: ins x r end.
Definition sortk (l : list (N * (N * N))) := fold_right ins [] l.
Definition listing_is (g : grid) (c : cap) (p : list N) (s : N * N) (ks : list (N * (N * N))) : bool :=
  match observe_listing g c p with
  | Some (s', ks') => nn_eqb s s' && list_eqb (fun x y => N.eqb (fst x) (fst y) && nn_eqb (snd x) (snd y)) (sortk ks) (sortk ks')
  | None => false
  end.
Definition obs_is (g : grid) (rq : request) (w : N) (codes : list N) (same : bool) (names : list N) : bool :=
  let '(c, s, n) := observe g rq w in existsb (N.eqb c) codes && Bool.eqb s same && same_names n names.
Definition obs_is_abstract (g : grid) (rq : request) (w : N) (codes : list N) (names : list N) : bool :=
  let '(c, s, n) := observe g rq w in existsb (N.eqb c) codes && same_names n names.
Definition obs_refused (g : grid) (rq : request) (codes : list N) : bool :=
  let '(c, s, n) := observe g rq 0 in existsb (N.eqb c) codes && s.
"""

WRITE_PREFIXES = ("URI:DIR2:", "URI:SSK:", "URI:MDMF:", "URI:DIR2-MDMF:")
RO_PREFIXES = ("URI:DIR2-RO:", "URI:SSK-RO:", "URI:MDMF-RO:", "URI:DIR2-MDMF-RO:", "URI:CHK:", "URI:LIT:", "URI:DIR2-CHK:", "URI:DIR2-LIT:")
UNK_RW = "lafs://from_the_future_rw"
UNK_RO = "lafs://readonly_from_the_future"
AUTH = {"AW": 0, "AR": 1, "AV": 2, "AU": 3}


def classify(cap):
    """Authority class of a cap string, by its prefix (independent of allmydata.uri)."""
    if cap.startswith(WRITE_PREFIXES):
        return "AW"
    if "-Verifier:" in cap:
        return "AV"
    if cap.startswith(RO_PREFIXES):
        return "AR"
    return "AU"


def q(s):
    return quote(s, safe="")


# ------------------------------------------------------------------------------------------------
class Resp(object):
    def __init__(self, raw):
        self.raw = raw
        head, _, body = raw.partition(b"\r\n\r\n")
        self.wellformed = raw.startswith(b"HTTP/")
        self.status = 0
        self.body = body if self.wellformed else raw
        if self.wellformed:
            try:
                self.status = int(head.split(b"\r\n")[0].split()[1])
            except Exception:
                self.wellformed = False
        self.headers = {}
        for l in head.split(b"\r\n")[1:]:
            k, _, v = l.partition(b":")
            self.headers[k.strip().lower()] = v.strip()


class Web(object):
    """The real TahoeLAFSSite of a grid client, driven through an in-memory transport."""

    def __init__(self, g):
        from twisted.internet.testing import StringTransport
        from twisted.internet.address import IPv4Address
        from twisted.internet import defer
        self.g = g
        self.site = g.client(0).getServiceNamed("webish").site
        self.requests = 0

        class Tr(StringTransport):
            def __init__(tr):
                StringTransport.__init__(tr, hostAddress=IPv4Address("TCP", "127.0.0.1", 80),
                                         peerAddress=IPv4Address("TCP", "127.0.0.1", 1234))
                tr.done = defer.Deferred()

            def loseConnection(tr):
                StringTransport.loseConnection(tr)
                if not tr.done.called:
                    tr.done.callback(None)
        self.Tr = Tr
        self.addr = IPv4Address("TCP", "127.0.0.1", 1234)

    def http(self, method, path, body=b"", headers=()):
        self.requests += 1

        def go():
            proto = self.site.buildProtocol(self.addr)
            tr = self.Tr()
            proto.makeConnection(tr)
            req = method.encode() + b" " + path.encode("ascii") + b" HTTP/1.0\r\nHost: localhost\r\nContent-Length: %d\r\n" % len(body)
            for k, v in headers:
                req += k.encode() + b": " + v.encode() + b"\r\n"
            proto.dataReceived(req + b"\r\n" + body)

            def fin(_):
                try:
                    proto.connectionLost(None)
                except Exception:
                    pass
                return Resp(tr.value())
            tr.done.addCallback(fin)
            return tr.done
        return self.g.run(go)


def multipart(fields):
    b = "----verifboundary7d1"
    out = []
    for name, val, fname in fields:
        out.append(b"--" + b.encode())
        cd = 'Content-Disposition: form-data; name="%s"' % name
        if fname is not None:
            cd += '; filename="%s"' % fname
        out.append(cd.encode())
        if fname is not None:
            out.append(b"Content-Type: application/octet-stream")
        out.append(b"")
        out.append(val)
    out.append(b"--" + b.encode() + b"--")
    out.append(b"")
    return b"\r\n".join(out), ("Content-Type", "multipart/form-data; boundary=" + b)


# ------------------------------------------------------------------------------------------------
class Obj(object):
    def __init__(self, oid, key):
        self.id = oid
        self.key = key
        self.kind = None         # 'dir' | 'file' | 'unknown'
        self.mutable = False
        self.rw = None           # write cap string, if the driver knows one
        self.ro = None
        self.verify = None
        self.kids = {}           # name -> (rw string or None, ro string)
        self.live = True


class Scenario(object):
    """A tree on a real grid, its caps, and its abstract mirror."""

    def __init__(self, g, web, rng, ctx):
        self.g, self.web, self.rng, self.ctx = g, web, rng, ctx
        self.objs = {}           # key -> Obj
        self.bycap = {}          # cap string -> (Obj, auth)
        self.names = {}          # name string -> N id
        self.next_oid = 1
        self.next_name = 10
        self.fresh = 0
        self.root_caps = []      # write caps of the directories the driver created itself

    # ---- naming
    def nid(self, name):
        if name not in self.names:
            self.names[name] = self.next_name
            self.next_name += 1
        return self.names[name]

    def newname(self, stem="new"):
        self.fresh += 1
        return "%s%d" % (stem, self.fresh)

    def key_of(self, cap):
        from allmydata import uri as U
        if classify(cap) == "AU":
            s = cap
            for p in ("ro.", "imm."):
                if s.startswith(p):
                    s = s[len(p):]
            return ("unk", "future")      # rw and ro forms of the one unknown child name the same object
        u = U.from_string(cap.encode())
        si = u.get_storage_index()
        if si is None:
            body = cap
            for p in ("URI:DIR2-LIT:", "URI:LIT:"):
                if body.startswith(p):
                    body = body[len(p):]
            return ("lit", body, "dir" if "DIR2" in cap else "file")
        return ("si", si.hex(), "dir" if "DIR2" in cap else "file")

    def reg(self, cap):
        if cap in self.bycap:
            return self.bycap[cap]
        k = self.key_of(cap)
        o = self.objs.get(k)
        if o is None:
            o = self.objs[k] = Obj(self.next_oid, k)
            self.next_oid += 1
        a = classify(cap)
        self.bycap[cap] = (o, a)
        if a == "AW":
            o.rw = cap
        elif a == "AR":
            o.ro = cap
        elif a == "AV":
            o.verify = cap
        elif a == "AU":
            o.kind = "unknown"
            if cap.startswith(UNK_RW):
                o.rw = cap
            else:
                o.ro = cap
        return o, a

    # ---- construction through the web API, with write authority
    def ok(self, r, what):
        if not r.wellformed or r.status >= 400:
            raise RuntimeError("scenario construction failed at %s: %s %r" % (what, r.status, r.body[:200]))
        return r.body.decode("utf-8").strip()

    def build(self):
        w, r = self.web, self.rng
        fmt = lambda: r.choice(["sdmf", "mdmf"])
        big = lambda tag: (tag.encode() + b" ") * r.randrange(8, 30)
        root = self.ok(w.http("POST", "/uri?t=mkdir&format=" + fmt()), "mkdir root")
        self.root = root
        self.root_caps.append(root)
        R = "/uri/" + q(root)
        self.ok(w.http("PUT", R + "/imm.txt", big("immutable")), "imm")
        self.ok(w.http("PUT", R + "/lit.txt", b"tiny"), "lit")
        self.ok(w.http("PUT", R + "/mut.txt?format=" + fmt(), big("mutable")), "mut")
        sub = self.ok(w.http("POST", R + "/sub?t=mkdir&format=" + fmt()), "sub")
        self.ok(w.http("PUT", R + "/sub/s_imm.txt", big("subfile")), "s_imm")
        self.ok(w.http("PUT", R + "/sub/s_mut.txt?format=" + fmt(), big("submut")), "s_mut")
        if r.random() < 0.7:
            self.ok(w.http("POST", R + "/sub/deep?t=mkdir"), "deep")
            self.ok(w.http("PUT", R + "/sub/deep/d.txt", big("deep")), "d.txt")
        # a directory built apart and linked by its READ cap only
        x = self.ok(w.http("POST", "/uri?t=mkdir&format=" + fmt()), "mkdir X")
        self.root_caps.append(x)
        X = "/uri/" + q(x)
        self.ok(w.http("PUT", X + "/r_imm.txt", big("rofile")), "r_imm")
        self.ok(w.http("PUT", X + "/r_mut.txt?format=" + fmt(), big("romut")), "r_mut")
        self.ok(w.http("POST", X + "/r_dir?t=mkdir"), "r_dir")
        self.ok(w.http("PUT", X + "/r_dir/f.txt", big("nested")), "r_dir/f")
        x_ro = self.ok(w.http("GET", X + "?t=readonly-uri"), "X ro")
        self.ok(w.http("PUT", R + "/rosub?t=uri", x_ro.encode()), "link rosub")
        # a mutable file linked by its read cap only
        m = self.ok(w.http("PUT", "/uri?format=" + fmt(), big("unlinked mutable")), "unlinked mutable")
        self.loose_mut = m
        m_ro = self.ok(w.http("GET", "/uri/" + q(m) + "?t=readonly-uri"), "M ro")
        self.ok(w.http("PUT", R + "/romut.txt?t=uri", m_ro.encode()), "link romut")
        # immutable directory
        imm = json.loads(self.ok(w.http("GET", R + "/imm.txt?t=json"), "imm json"))[1]["ro_uri"]
        lit = json.loads(self.ok(w.http("GET", R + "/lit.txt?t=json"), "lit json"))[1]["ro_uri"]
        kids = {"i_imm.txt": ["filenode", {"ro_uri": imm}], "i_lit.txt": ["filenode", {"ro_uri": lit}]}
        self.ok(w.http("POST", R + "/immdir?t=mkdir-immutable", json.dumps(kids).encode()), "immdir")
        self.imm_cap, self.lit_cap = imm, lit
        # an unknown-format child with both slots
        unk = {"unk": ["unknown", {"rw_uri": UNK_RW, "ro_uri": UNK_RO}]}
        self.ok(w.http("POST", R + "?t=set_children", json.dumps(unk).encode()), "unknown child")

    # ---- another user of the same gateway holds the tree open through its write caps: node objects built
    # from write caps (and the children a writeable directory hands out, built from both slots) stay referenced
    # while read-only requests are served.  The node cache is weak: without a holder they die at once.
    def hold_write_nodes(self):
        c = self.g.client(0)
        held = []
        for o in sorted(self.objs.values(), key=lambda o: o.id):
            if not (o.live and o.rw and o.kind in ("dir", "file")):
                continue
            n = c.create_node_from_uri(o.rw.encode())
            held.append(n)
            if o.kind == "dir":
                out = self.g.run(n.list(), outcome=True)
                if out.status == "ok":
                    held.append(out.value)          # name -> (child node, metadata)
        return held

    # ---- abstract mirror: walk every directory with the strongest cap the driver holds
    def snapshot(self):
        for o in self.objs.values():
            o.kids = {}
            o.live = False           # reachable from the directories the driver holds write caps for
        todo = []
        for c in self.root_caps:
            o, _ = self.reg(c)
            todo.append(o)
        lm, _ = self.reg(self.loose_mut)
        lm.kind, lm.mutable, lm.live = "file", True, True
        seen = set()
        while todo:
            o = todo.pop(0)
            if o.id in seen:
                continue
            seen.add(o.id)
            best = o.rw or o.ro
            r = self.web.http("GET", "/uri/" + q(best) + "?t=json")
            if not r.wellformed or r.status != 200:
                raise RuntimeError("snapshot: GET t=json of %s gave %s %r" % (best[:20], r.status, r.body[:200]))
            kind, d = json.loads(r.body)
            if kind != "dirnode":
                continue
            o.kind, o.mutable, o.live = "dir", bool(d["mutable"]), True
            for f in ("rw_uri", "ro_uri", "verify_uri"):
                if f in d:
                    self.reg(d[f])
            for name, (ckind, cd) in d["children"].items():
                rw, ro = cd.get("rw_uri"), cd.get("ro_uri")
                co = None
                for c in (rw, ro, cd.get("verify_uri")):
                    if c:
                        co, _ = self.reg(c)
                if ckind == "filenode":
                    co.kind, co.mutable = "file", bool(cd.get("mutable"))
                elif ckind == "dirnode":
                    co.kind, co.mutable = "dir", bool(cd.get("mutable"))
                    todo.append(co)
                else:
                    co.kind = "unknown"
                co.live = True
                self.nid(name)
                # the slots as the directory stores them (the listing was made with the strongest cap)
                o.kids[name] = (rw if o.rw and o.mutable else None, ro)
        self.snap_no = getattr(self, "snap_no", 0) + 1
        return self.snap_no

    def abs_cap(self, cap):
        o, a = self.reg(cap)
        return (o.id, a)

    def cap_term(self, ac):
        return "(mk_cap %s %s)" % (T.N(ac[0]), ac[1])

    def grid_term(self):
        rows = []
        for o in sorted(self.objs.values(), key=lambda o: o.id):
            if not o.live:
                continue
            if o.kind == "dir":
                ks = []
                for name in sorted(o.kids, key=self.nid):
                    rw, ro = o.kids[name]
                    ks.append("(%s, mk_edge %s %s)" % (T.N(self.nid(name)),
                                                       ("(Some %s)" % self.cap_term(self.abs_cap(rw))) if rw else "None",
                                                       self.cap_term(self.abs_cap(ro))))
                rows.append("(%s, ODir %s [%s])" % (T.N(o.id), "true" if o.mutable else "false", "; ".join(ks)))
            elif o.kind == "file":
                rows.append("(%s, OFile %s [])" % (T.N(o.id), "true" if o.mutable else "false"))
        return "[" + ";\n   ".join(rows) + "]"

    # ---- independent authority oracle: what a path from a cap reaches, and with which authority
    def walk(self, cap, path):
        """-> (Obj, auth) or None; through a node that is not writeable only the read slot is available."""
        o, a = self.reg(cap)
        self.last_cap = cap
        for name in path:
            if o.kind != "dir" or a in ("AV", "AU") or name not in o.kids:
                return None
            rw, ro = o.kids[name]
            c = rw if (rw and o.mutable and a == "AW") else ro
            o, a = self.reg(c)
            self.last_cap = c
        if o.kind == "unknown" and self.last_cap.startswith(UNK_RW):
            a = "AUW"                       # the unknown child's write slot was handed out
        return o, a

    def writeable(self, o, a):
        return (o.kind in ("dir", "file") and o.mutable and a == "AW") or a == "AUW"

    def reach_rw(self, caps):
        """Objects whose write cap follows from the presented caps."""
        out = set()
        todo = [self.reg(c) for c in caps]
        while todo:
            o, a = todo.pop()
            if not self.writeable(o, a) and not (o.kind == "unknown" and a == "AU" and False):
                continue
            if o.id in out:
                continue
            out.add(o.id)
            if o.kind == "dir":
                for name, (rw, ro) in o.kids.items():
                    if rw:
                        co, ca = self.reg(rw)
                        if co.kind == "unknown":
                            out.add(co.id)
                        else:
                            todo.append((co, ca))
        return out

    def forbidden(self, presented):
        """Strings that must not appear in a response to a request presenting `presented`."""
        ok = self.reach_rw(presented)
        out = []
        for o in self.objs.values():
            if o.rw and o.id not in ok:
                out.append(o.rw)
                parts = o.rw.split(":")
                if o.rw.startswith(WRITE_PREFIXES) and len(parts) >= 4:
                    out.append(parts[-2])          # the writekey field
        return out

    # ---- physical state
    def physical(self):
        snap = {}
        for i in sorted(self.g.g.servers_by_number):
            base = self.g.server(i).sharedir
            for dp, dn, fn in os.walk(base):
                if "incoming" in dp.split(os.sep):
                    continue
                for f in fn:
                    p = os.path.join(dp, f)
                    with open(p, "rb") as fh:
                        snap[(i, os.path.relpath(p, base))] = hashlib.sha256(fh.read()).hexdigest()
        return snap


def phys_diff(before, after):
    """(changed or removed pre-existing share files, new share files under a pre-existing storage index, brand-new storage indexes)"""
    changed = [k for k in before if after.get(k) != before[k]]
    old_si = {os.path.dirname(k[1]) for k in before}
    new_in_old = [k for k in after if k not in before and os.path.dirname(k[1]) in old_si]
    orphans = {os.path.dirname(k[1]) for k in after if k not in before and os.path.dirname(k[1]) not in old_si}
    return changed, new_in_old, orphans


# ------------------------------------------------------------------------------------------------
class Addr(object):
    """A way of naming a target: /uri/<cap>/<path>."""

    def __init__(self, scn, cap, path, kind):
        self.cap, self.path, self.kind = cap, list(path), kind
        self.url = "/uri/" + q(cap) + "".join("/" + q(p) for p in path)

    def __repr__(self):
        return "%s:%s/%s" % (self.kind, self.cap.split(":")[1] if ":" in self.cap else self.cap[:8], "/".join(self.path))


def addresses(scn):
    """Every (cap, path) naming an object, labelled by how the authority is obtained."""
    out = []
    root = scn.root
    root_ro = scn.reg(root)[0].ro
    # paths from the writeable and the read-only root
    def dfs(cap, path, label, depth):
        got = scn.walk(cap, path)
        if got is None:
            return
        out.append(Addr(scn, cap, path, label))
        o, a = got
        if o.kind == "dir" and a in ("AW", "AR") and depth < 3:
            for name in sorted(o.kids):
                dfs(cap, path + [name], label, depth + 1)
    dfs(root, [], "path-from-rw-root", 0)
    dfs(root_ro, [], "path-from-ro-root", 0)
    # direct caps
    for o in sorted(scn.objs.values(), key=lambda o: o.id):
        if o.kind in ("dir", "file") and o.live:
            if o.rw:
                out.append(Addr(scn, o.rw, [], "write-cap"))
            if o.ro:
                out.append(Addr(scn, o.ro, [], "read-cap"))
            if o.verify:
                out.append(Addr(scn, o.verify, [], "verify-cap"))
    return out


# ------------------------------------------------------------------------------------------------
# requests per table entry.  Each builder returns a dict:
#   http: (method, url, body, headers); model: request fields; watch: Obj whose children are compared after success;
#   modifying: by the property text (web API documentation), independent of the model
def _req_term(scn, addr, meth, t, extra_path=(), name=None, to_name=None, to_dir=None, replace=True, offset=False,
              mutable_format=False, link=None, kids=(), repair=False):
    rc = scn.abs_cap(addr.cap)
    path = [scn.nid(p) for p in list(addr.path) + list(extra_path)]
    opt = lambda v: ("(Some %s)" % v) if v is not None else "None"
    kid_terms = ["(%s, %s)" % (T.N(scn.nid(n)), scn.cap_term(scn.abs_cap(c))) for n, c in kids]
    return ("(mk_req %s %s %s %s %s %s %s %s %s %s %s [%s] [1] %s %s)" % (
        meth, T.string(t), scn.cap_term(rc), T.lst([T.N(p) for p in path]),
        opt(T.N(scn.nid(name)) if name is not None else None),
        opt(T.N(scn.nid(to_name)) if to_name is not None else None),
        opt(scn.cap_term(scn.abs_cap(to_dir)) if to_dir is not None else None),
        T.boolean(replace), T.boolean(offset), T.boolean(mutable_format),
        scn.cap_term(scn.abs_cap(link if link is not None else scn.imm_cap)),
        "; ".join(kid_terms), T.boolean(repair), T.N(9000 + scn.fresh)))


def dir_ops(scn, addr, tgt, rng, want_success):
    """Operations addressed to a directory (DirectoryNodeHandler), incl. what its getChild creates."""
    U = addr.url
    ops = []
    data = (b"payload %d " % rng.randrange(10 ** 6)) * 8
    some_child = sorted(n for n, (rw, ro) in tgt.kids.items()) or ["nosuch"]
    files = [n for n in sorted(tgt.kids) if scn.reg(tgt.kids[n][1])[0].kind == "file"] or some_child
    mutfiles = [n for n in files if n in tgt.kids and scn.reg(tgt.kids[n][1])[0].mutable]
    immfiles = [n for n in files if n in tgt.kids and not scn.reg(tgt.kids[n][1])[0].mutable]

    def add(key, meth, url, body=b"", headers=(), modifying=True, watch=tgt, **m):
        ops.append({"key": key, "http": (meth, url, body, headers), "model": m, "modifying": modifying, "watch": watch,
                    "meth": meth})

    fmtq = rng.choice(["", "format=chk", "format=sdmf", "format=mdmf"])
    mf = fmtq in ("format=sdmf", "format=mdmf")
    n1 = scn.newname("f")
    # PlaceHolderNodeHandler
    add(("PlaceHolderNodeHandler", "PUT", ""), "PUT", U + "/" + q(n1) + ("?" + fmtq if fmtq else ""), data,
        t="", extra_path=[n1], mutable_format=mf)
    n2 = scn.newname("l")
    add(("PlaceHolderNodeHandler", "PUT", "uri"), "PUT", U + "/" + q(n2) + "?t=uri", scn.imm_cap.encode(),
        t="uri", extra_path=[n2], link=scn.imm_cap)
    n3 = scn.newname("u")
    body, ct = multipart([("file", data, "up.bin")])
    add(("PlaceHolderNodeHandler", "POST", "upload"), "POST", U + "?t=upload&name=" + q(n3) + ("&" + fmtq if fmtq else ""), body, (ct,),
        t="upload", name=n3, mutable_format=mf)
    # traversal: terminal and intermediate directory creation
    n4 = scn.newname("d")
    add(("DirectoryNodeHandler", "PUT", "mkdir"), "PUT", U + "/" + q(n4) + "?t=mkdir", t="mkdir", extra_path=[n4])
    n5 = scn.newname("d")
    add(("DirectoryNodeHandler", "POST", "mkdir"), "POST", U + "/" + q(n5) + "?t=mkdir", t="mkdir", extra_path=[n5])
    n6, n7, n8 = scn.newname("a"), scn.newname("b"), scn.newname("c")
    add(("PlaceHolderNodeHandler", "PUT", ""), "PUT", U + "/%s/%s/%s" % (q(n6), q(n7), q(n8)), data, t="", extra_path=[n6, n7, n8])
    # existing directory, t=mkdir: nothing left to do
    add(("DirectoryNodeHandler", "PUT", "mkdir"), "PUT", U + "?t=mkdir", t="mkdir", modifying=False)
    add(("DirectoryNodeHandler", "POST", "mkdir"), "POST", U + "?t=mkdir", t="mkdir", modifying=False)
    # named creation
    n9 = scn.newname("m")
    dfmt = rng.choice(["", "&format=sdmf", "&format=mdmf"])       # the new directory's mutable type
    add(("DirectoryNodeHandler", "POST", "mkdir"), "POST", U + "?t=mkdir&name=" + q(n9) + dfmt, t="mkdir", name=n9)
    n10 = scn.newname("mc")
    kids = {"k_imm": ["filenode", {"ro_uri": scn.imm_cap}]}
    add(("DirectoryNodeHandler", "POST", "mkdir-with-children"), "POST", U + "?t=mkdir-with-children&name=" + q(n10) + rng.choice(["", "&format=sdmf", "&format=mdmf"]),
        json.dumps(kids).encode(), t="mkdir-with-children", name=n10, kids=[("k_imm", scn.imm_cap)])
    n10b = scn.newname("me")
    add(("DirectoryNodeHandler", "POST", "mkdir-with-children"), "POST", U + "?t=mkdir-with-children&name=" + q(n10b),
        b"{}", t="mkdir-with-children", name=n10b)
    n11 = scn.newname("mi")
    add(("DirectoryNodeHandler", "POST", "mkdir-immutable"), "POST", U + "?t=mkdir-immutable&name=" + q(n11),
        json.dumps(kids).encode(), t="mkdir-immutable", name=n11, kids=[("k_imm", scn.imm_cap)])
    n12 = scn.newname("lk")
    add(("DirectoryNodeHandler", "POST", "uri"), "POST", U + "?t=uri&name=%s&uri=%s" % (q(n12), q(scn.lit_cap)),
        t="uri", name=n12, link=scn.lit_cap)
    victim = rng.choice(files)
    tname = rng.choice(["delete", "unlink"])
    add(("DirectoryNodeHandler", "POST", tname), "POST", U + "?t=%s&name=%s" % (tname, q(victim)), t=tname, name=victim)
    mv = rng.choice(files)
    n13 = scn.newname("rn")
    add(("DirectoryNodeHandler", "POST", "rename"), "POST", U + "?t=rename&from_name=%s&to_name=%s" % (q(mv), q(n13)),
        t="rename", name=mv, to_name=n13)
    # relink into another directory: a writeable destination and a read-only one
    other = scn.reg(scn.root_caps[1])[0]
    if other.id == tgt.id:
        other = scn.reg(scn.root)[0]
    for dest in (other.rw, other.ro):
        mv2 = rng.choice(files)
        add(("DirectoryNodeHandler", "POST", "relink"), "POST", U + "?t=relink&from_name=%s&to_dir=%s" % (q(mv2), q(dest)),
            t="relink", name=mv2, to_dir=dest)
    for tname in ("set_children", "set-children"):
        n14 = scn.newname("sc")
        body = {n14: ["filenode", {"ro_uri": scn.imm_cap}]}
        add(("DirectoryNodeHandler", "POST", tname), "POST", U + "?t=" + tname, json.dumps(body).encode(),
            t=tname, kids=[(n14, scn.imm_cap)])
    # upload onto an existing child through the directory (renders the child's handler)
    if immfiles:
        body, ct = multipart([("file", data, "up2.bin")])
        add(("DirectoryNodeHandler", "POST", "upload"), "POST", U + "?t=upload&name=" + q(immfiles[0]), body, (ct,),
            t="upload", name=immfiles[0])
    if mutfiles:
        body, ct = multipart([("file", data, "up3.bin")])
        add(("DirectoryNodeHandler", "POST", "upload"), "POST", U + "?t=upload&name=" + q(mutfiles[0]), body, (ct,),
            t="upload", name=mutfiles[0], watch=None)
    # maintenance and read operations: allowed with any cap, must not change anything
    rep = rng.choice([True, False])
    rq = "&repair=true" if rep else ""
    add(("DirectoryNodeHandler", "POST", "check"), "POST", U + "?t=check" + rq, t="check", repair=rep, modifying=False)
    add(("DirectoryNodeHandler", "POST", "start-deep-check"), "POST", U + "?t=start-deep-check&ophandle=%d%s" % (rng.randrange(10 ** 9), rq),
        t="start-deep-check", repair=rep, modifying=False)
    add(("DirectoryNodeHandler", "POST", "stream-deep-check"), "POST", U + "?t=stream-deep-check" + rq, t="stream-deep-check",
        repair=rep, modifying=False)
    for tname in ("start-manifest", "start-deep-size", "start-deep-stats"):
        add(("DirectoryNodeHandler", "POST", tname), "POST", U + "?t=%s&ophandle=%d" % (tname, rng.randrange(10 ** 9)), t=tname,
            modifying=False)
    add(("DirectoryNodeHandler", "POST", "stream-manifest"), "POST", U + "?t=stream-manifest", t="stream-manifest", modifying=False)
    add(("DirectoryNodeHandler", "POST", "bogus"), "POST", U + "?t=bogus", t="bogus", modifying=False)
    return ops


def child_ops(scn, addr, tgt, parent, rng):
    """Operations addressed to an existing child (file / directory / unknown) of `parent` (None: addressed by cap)."""
    U = addr.url
    ops = []
    data = (b"replacement %d " % rng.randrange(10 ** 6)) * 8

    def add(key, meth, url, body=b"", headers=(), modifying=True, watch=parent, **m):
        ops.append({"key": key, "http": (meth, url, body, headers), "model": m, "modifying": modifying, "watch": watch, "meth": meth})

    if tgt.kind == "file":
        cls = "FileNodeHandler"
        add((cls, "PUT", ""), "PUT", U, data, t="")
        if tgt.mutable:
            add((cls, "PUT", ""), "PUT", U + "?offset=3", data, t="", offset=True)
        add((cls, "PUT", ""), "PUT", U + "?replace=false", data, t="", replace=False)
        add((cls, "PUT", "uri"), "PUT", U + "?t=uri", scn.lit_cap.encode(), t="uri", link=scn.lit_cap)
        body, ct = multipart([("file", data, "x.bin")])
        add((cls, "POST", "upload"), "POST", U + "?t=upload", body, (ct,), t="upload")
        rep = rng.choice([True, False])
        add((cls, "POST", "check"), "POST", U + "?t=check" + ("&repair=true" if rep else ""), t="check", repair=rep, modifying=False)
        add((cls, "POST", "bogus"), "POST", U + "?t=bogus", t="bogus", modifying=False)
        add((cls, "DELETE", "*"), "DELETE", U, t="")
    elif tgt.kind == "dir":
        cls = "DirectoryNodeHandler"
        add((cls, "PUT", "uri"), "PUT", U + "?t=uri", scn.lit_cap.encode(), t="uri", link=scn.lit_cap)
        add((cls, "DELETE", "*"), "DELETE", U, t="")
        add((cls, "PUT", "bogus"), "PUT", U + "?t=bogus", t="bogus", modifying=False)
    else:
        cls = "UnknownNodeHandler"
        add((cls, "PUT", ""), "PUT", U, data, t="")
        add((cls, "POST", "upload"), "POST", U + "?t=upload", b"", t="upload")
        add((cls, "DELETE", "*"), "DELETE", U, t="")
    return ops


def ro_file_in_rw_dir_ops(scn, addr, tgt, parent, rng):
    """Content-changing requests to a mutable file that its (writeable) parent links by read cap only."""
    U = addr.url
    name = addr.path[-1]
    PU = "/uri/" + q(addr.cap) + "".join("/" + q(p) for p in addr.path[:-1])
    data = (b"overwrite %d " % rng.randrange(10 ** 6)) * rng.choice([1, 8])      # LIT-sized and CHK-sized bodies
    ops = []

    def add(key, meth, url, body=b"", headers=(), **m):
        ops.append({"key": key, "http": (meth, url, body, headers), "model": m, "modifying": True, "watch": parent, "meth": meth})
    cls = "FileNodeHandler"
    add((cls, "PUT", ""), "PUT", U, data, t="")
    add((cls, "PUT", ""), "PUT", U + "?offset=%d" % rng.choice([0, 3]), data, t="", offset=True)
    for fmtq in ("", "&format=" + rng.choice(["chk", "sdmf", "mdmf"])):
        mf = fmtq.endswith(("sdmf", "mdmf"))
        body, ct = multipart([("file", data, "form.bin")])
        add((cls, "POST", "upload"), "POST", U + "?t=upload" + fmtq, body, (ct,), t="upload", mutable_format=mf)
        body, ct = multipart([("file", data, "form2.bin")])
        # the same through the directory: POST $DIR?t=upload&name=<child> renders the child's handler
        ops.append({"key": ("DirectoryNodeHandler", "POST", "upload"), "meth": "POST", "modifying": True, "watch": parent,
                    "http": ("POST", PU + "?t=upload&name=" + q(name) + fmtq, body, (ct,)),
                    "model": {"t": "upload", "name": name, "mutable_format": mf}, "addr": Addr(scn, addr.cap, addr.path[:-1], addr.kind)})
    return ops


STATUS_CODES = {400: [11, 16, 18], 404: [14], 409: [15], 405: [17], 501: [17], 500: [10, 12, 13, 16]}


def model_codes(resp):
    if not resp.wellformed:
        return [10, 12, 13]
    if resp.status < 400:
        return [0, 1]
    return STATUS_CODES.get(resp.status, [])


# ------------------------------------------------------------------------------------------------
class Run(object):
    def __init__(self, ctx):
        self.ctx = ctx
        self.terms = []
        self.info = []
        self.grids = []        # (name, term)
        self.covered = set()
        self.orphans = 0

    def grid_name(self, scn, si):
        name = "g_%d_%d" % (si, scn.snap_no)
        if not any(n == name for n, _ in self.grids):
            self.grids.append((name, scn.grid_term()))
        return name

    def preamble(self):
        return PREAMBLE + "\n".join("Definition %s : grid :=\n  %s." % (n, t) for n, t in self.grids) + "\n"


def do_request(run, scn, si, addr, op, presented, expect_writeable, tgt_desc):
    """Issue one request; oracle; model comparison.  Returns True when the grid changed."""
    ctx = run.ctx
    meth, url, body, headers = op["http"]
    gname = run.grid_name(scn, si)
    m = dict(op["model"])
    t = m.pop("t")
    rq_term = _req_term(scn, addr, meth, t, **m)
    before = scn.physical()
    resp = scn.web.http(meth, url, body, headers)
    after = scn.physical()
    changed, new_in_old, orphans = phys_diff(before, after)
    run.orphans += len(orphans)
    case = {"scenario": si, "op": list(op["key"]), "address": addr.kind, "target": tgt_desc, "method": meth,
            "url": url.replace(addr.cap, "<cap>") if False else url, "body": body[:300].decode("latin-1"),
            "status": resp.status, "response": resp.body[:300].decode("latin-1")}
    reached = resp.status != 404
    run.covered.add(op["key"])
    ctx.case((op["key"], addr.kind, tgt_desc, expect_writeable) if reached else None,
             kind=("rw:" if expect_writeable else "ro:") + meth + " " + (op["key"][0][:4]) + " t=" + t)
    maintenance = not op["modifying"]
    if maintenance and not expect_writeable and new_in_old:
        # check&repair / deep-check&repair of an IMMUTABLE object needs no write authority (the verify cap suffices):
        # shares it adds under the storage index of an immutable object are not the property's business
        imm_si = {o.key[1] for o in scn.objs.values() if o.key[0] == "si" and o.kind in ("dir", "file") and not o.mutable}
        import base64 as _b64
        def _si_hex(rel):
            name = os.path.basename(os.path.dirname(rel))
            try:
                return _b64.b32decode(name.upper() + "=" * (-len(name) % 8)).hex()
            except Exception:
                return None
        legit = [k for k in new_in_old if _si_hex(k[1]) in imm_si]
        ctx.count("shares-added-by-repair-of-immutable-object-through-read-cap", len(legit))
        new_in_old = [k for k in new_in_old if k not in legit]
    touched = bool(changed or new_in_old)
    if not expect_writeable and orphans:
        # "... is refused and changes NOTHING on the grid": a refused request must not leave new objects behind either
        # (shares of a storage index that did not exist before).  Known finding: an upload with format=sdmf|mdmf creates
        # the new mutable file BEFORE asking the parent directory to link it (ReplaceMeMixin: create_mutable_file, then
        # set_node), so that class leaves an orphan mutable file; everything else checks the parent first.
        if m.get("mutable_format") and op["key"][2] in ("", "upload") and op["key"][0] in ("PlaceHolderNodeHandler", "FileNodeHandler", "DirectoryNodeHandler"):
            okind = "refused-upload-leaves-orphan-mutable-file"
        else:
            okind = "refused-request-leaves-new-object-on-grid:%s-%s-t=%s" % (op["key"][0], meth, t)
        ctx.oracle_fail(okind,
                        "%s %s through %s was answered %s and left %d new storage index(es) with share files on the servers" % (meth, op["key"], addr.kind, resp.status, len(orphans)),
                        case=case, expected="no new share files anywhere", observed=sorted(orphans)[:4])
    if not expect_writeable:
        # ---- the property, evaluated directly
        if touched:
            ctx.oracle_fail("grid-changed-without-write-authority:%s-%s-t=%s" % (op["key"][0], meth, t),
                            "%s %s through %s changed %d share file(s) of existing objects (status %s)" % (meth, op["key"], addr.kind, len(changed) + len(new_in_old), resp.status),
                            case=case, expected="share files of every existing storage index byte-identical",
                            observed={"changed": [list(k) for k in changed[:6]], "added": [list(k) for k in new_in_old[:6]]})
        if op["modifying"]:
            if not resp.wellformed:
                ctx.oracle_fail("refusal-without-http-status:%s-%s-t=%s" % (op["key"][0], meth, t),
                                "%s %s through %s: the server answered without a status line (not an HTTP refusal)" % (meth, op["key"], addr.kind),
                                case=case, expected="4xx/5xx response", observed=resp.raw[:200].decode("latin-1"))
            elif resp.status < 400:
                ctx.oracle_fail("modifying-request-accepted-without-write-authority:%s-%s-t=%s" % (op["key"][0], meth, t),
                                "%s %s through %s was answered %d" % (meth, op["key"], addr.kind, resp.status),
                                case=case, expected="refusal (4xx/5xx)", observed=resp.status)
        leak = [s for s in scn.forbidden(presented) if s.encode() in resp.raw]
        if leak:
            ctx.oracle_fail("write-cap-in-response-to-readonly-request:%s-%s-t=%s" % (op["key"][0], meth, t),
                            "response to %s %s through %s contains a write cap the requester does not hold" % (meth, op["key"], addr.kind),
                            case=case, expected="no write cap", observed=leak[:3])
        run.terms.append("obs_refused %s %s %s" % (gname, rq_term, T.lst([T.N(c) for c in model_codes(resp)])))
        run.info.append(("request-verdict-vs-model", case))
        return touched
    # ---- writeable authority: the same request must go through (the refusals above are not vacuous)
    if op["modifying"] and (not resp.wellformed or resp.status >= 400):
        ctx.oracle_fail("modifying-request-refused-with-write-authority:%s-%s-t=%s" % (op["key"][0], meth, t),
                        "%s %s through %s was refused with %s although every cap on the way is writeable" % (meth, op["key"], addr.kind, resp.status),
                        case=case, expected="success", observed=resp.body[:300].decode("latin-1"))
    if op["modifying"] and resp.wellformed and resp.status < 400 and not touched:
        ctx.oracle_fail("modifying-request-had-no-effect:%s-%s-t=%s" % (op["key"][0], meth, t),
                        "%s %s through %s answered %d but no share file changed" % (meth, op["key"], addr.kind, resp.status), case=case)
    watch = op["watch"]
    old_names = None
    scn.snapshot()
    names = sorted(scn.nid(n) for n in watch.kids) if watch is not None else []
    if op["modifying"]:
        run.terms.append("obs_is %s %s %s %s %s %s" % (gname, rq_term, T.N(watch.id if watch is not None else 0),
                                                       T.lst([T.N(c) for c in model_codes(resp)]), T.boolean(not touched),
                                                       T.lst([T.N(n) for n in names])))
    else:
        if touched:
            ctx.count("share-files-changed-by-maintenance-operation-through-write-cap")
        run.terms.append("obs_is_abstract %s %s %s %s %s" % (gname, rq_term, T.N(watch.id if watch is not None else 0),
                                                             T.lst([T.N(c) for c in model_codes(resp)]),
                                                             T.lst([T.N(n) for n in names])))
    case["names_after"] = sorted(watch.kids) if watch is not None else []
    run.info.append(("request-verdict-vs-model", case))
    return touched


def leak_gets(run, scn, si, addr, o, a, presented):
    """GET renderings through an authority that is not writeable: no write cap the requester lacks; listing = model."""
    ctx = run.ctx
    U = addr.url
    forb = scn.forbidden(presented)
    gets = [("", "GET", U), ("json", "GET", U + "?t=json"), ("info", "GET", U + "?t=info"), ("uri", "GET", U + "?t=uri"),
            ("readonly-uri", "GET", U + "?t=readonly-uri")]
    if o.kind == "dir":
        gets += [("rename-form", "GET", U + "?t=rename-form&name=x"), ("stream-manifest", "POST", U + "?t=stream-manifest"),
                 ("stream-deep-check", "POST", U + "?t=stream-deep-check")]
    for t, meth, url in gets:
        r = scn.web.http(meth, url)
        ctx.case(("leak", t, addr.kind, o.kind, o.mutable) if r.status == 200 else None, kind="leak-scan t=" + t)
        leak = [s for s in forb if s.encode() in r.raw]
        if leak:
            ctx.oracle_fail("write-cap-in-readonly-rendering:t=%s" % (t or "html"),
                            "%s %s (%s, %s) shows a write cap the requester does not hold" % (meth, "t=" + t, addr.kind, o.kind),
                            case={"scenario": si, "url": url, "address": addr.kind, "status": r.status}, expected="no write cap",
                            observed=leak[:3])
        if t == "json" and r.status == 200:
            kind, d = json.loads(r.body)
            if "rw_uri" in d or any("rw_uri" in cd for _, cd in d.get("children", {}).values()):
                ctx.oracle_fail("rw_uri-field-in-readonly-listing", "t=json through %s has an rw_uri field" % addr.kind,
                                case={"scenario": si, "url": url}, expected="no rw_uri", observed=r.body[:300].decode("latin-1"))
            if kind == "dirnode":
                code = lambda c: scn.abs_cap(c)[0] * 4 + AUTH[scn.abs_cap(c)[1]]
                pr = lambda dd: "(%s, %s)" % (T.N(code(dd["rw_uri"]) + 1 if "rw_uri" in dd else 0), T.N(code(dd["ro_uri"])))
                ks = ["(%s, %s)" % (T.N(scn.nid(n)), pr(cd)) for n, (_, cd) in d["children"].items() if "ro_uri" in cd]
                if len(ks) == len(d["children"]):
                    run.terms.append("listing_is %s %s %s %s %s" % (run.grid_name(scn, si), scn.cap_term(scn.abs_cap(addr.cap)),
                                                                    T.lst([T.N(scn.nid(p)) for p in addr.path]), pr(d), T.lst(ks)))
                    run.info.append(("listing-vs-model", {"scenario": si, "url": url, "listing": r.body[:400].decode("latin-1")}))


def scenario(run, si):
    from core import grid as G
    ctx = run.ctx
    rng = ctx.rng("scenario", si)
    with G.Grid(num_clients=1, num_servers=3, k=1, n=2, happy=1, seed=rng.randrange(2 ** 30)) as g:
        web = Web(g)
        scn = Scenario(g, web, rng, ctx)
        scn.build()
        scn.snapshot()
        quick = not (ctx.tier == "thorough" or ctx.search)
        # ---- phase A: every operation through every authority that is not writeable
        held = scn.hold_write_nodes()
        ctx.count("write-cap-nodes-held-during-readonly-phase", len(held))
        addrs = addresses(scn)
        for addr in addrs:
            got = scn.walk(addr.cap, addr.path)
            if got is None:
                continue
            o, a = got
            if scn.writeable(o, a) and all(scn.writeable(*scn.walk(addr.cap, addr.path[:i])) for i in range(len(addr.path))):
                pass
            parent = scn.walk(addr.cap, addr.path[:-1])[0] if addr.path else None
            pw = parent is None or scn.writeable(*scn.walk(addr.cap, addr.path[:-1]))
            presented = [addr.cap]
            r2 = ctx.rng("ops", si, addr.kind, addr.cap, tuple(addr.path))
            tdesc = "%s/%s" % (o.kind, "mutable" if o.mutable else "immutable")
            ops = []
            if o.kind == "dir" and a in ("AW", "AR") and not scn.writeable(o, a):
                ops += dir_ops(scn, addr, o, r2, False)
            if parent is not None and not pw and not scn.writeable(o, a):
                ops += child_ops(scn, addr, o, parent, r2)
            elif parent is None and not scn.writeable(o, a):
                ops += child_ops(scn, addr, o, None, r2)
            if quick and addr.kind == "path-from-ro-root" and len(addr.path) >= 2:
                ops = [op for op in ops if r2.random() < 0.35]
            if parent is not None and pw and o.kind == "file" and o.mutable and not scn.writeable(o, a):
                # a WRITEABLE directory holding only a READ cap of a mutable file: requests that would change the
                # file's contents are addressed to the file through a read-only cap and must be refused (replacing
                # the link itself -- PUT t=uri, DELETE -- is the parent's business and is exercised in phase B)
                ops += ro_file_in_rw_dir_ops(scn, addr, o, parent, r2)
            for op in ops:
                pres = presented + ([op["model"]["to_dir"]] if op["model"].get("to_dir") else [])
                do_request(run, scn, si, op.get("addr", addr), op, pres, False,
                           tdesc + ("/read-only-link-in-writeable-directory" if op.get("addr") or (pw and parent is not None and o.kind == "file") else ""))
            if not scn.writeable(o, a) and (not quick or r2.random() < 0.6 or len(addr.path) <= 1):
                leak_gets(run, scn, si, addr, o, a, presented)
        # /file/<cap>: GET and HEAD only
        for meth in ("PUT", "POST", "DELETE"):
            r = web.http(meth, "/file/" + q(scn.reg(scn.loose_mut)[0].rw) + "/x", b"data")
            ctx.case(("file-handler", meth), kind="/file " + meth)
            if not r.wellformed or r.status < 400:
                ctx.oracle_fail("file-handler-accepts-modifying-method", "%s /file/<cap>/x answered %s" % (meth, r.status),
                                case={"method": meth}, expected="refusal", observed=r.status)
        # /private without the token
        r = web.http("GET", "/private/logs/v1")
        ctx.case(("private", r.status), kind="/private without token")
        if r.status != 401:
            ctx.oracle_fail("private-tree-without-token", "GET /private/logs/v1 without the API token answered %s" % r.status,
                            expected=401, observed=r.status)
        # ---- phase B: the same operations with write authority go through
        del held
        done = set()
        for rounds in range(3):
            addrs = [ad for ad in addresses(scn) if ad.kind in ("path-from-rw-root", "write-cap")]
            rng.shuffle(addrs)
            progress = False
            for addr in addrs:
                got = scn.walk(addr.cap, addr.path)
                if got is None or not got[0].live:
                    continue            # unlinked or replaced by an earlier operation of this round
                o, a = got
                chain = [scn.walk(addr.cap, addr.path[:i]) for i in range(len(addr.path) + 1)]
                if not all(scn.writeable(*c) for c in chain[:-1]):
                    continue
                parent = chain[-2][0] if addr.path else None
                r2 = ctx.rng("wops", si, rounds, addr.cap, tuple(addr.path))
                ops = []
                if o.kind == "dir" and scn.writeable(o, a):
                    ops += dir_ops(scn, addr, o, r2, True)
                if parent is not None and o.kind != "unknown":
                    ops += [op for op in child_ops(scn, addr, o, parent, r2)
                            if not (o.kind == "file" and o.mutable and not scn.writeable(o, a) and op["key"][2] in ("", "upload"))]
                for op in ops:
                    sig = (op["key"], tuple(sorted((k, str(v)[:8]) for k, v in op["model"].items() if k in ("offset", "replace", "repair"))),
                           o.kind, o.mutable)
                    if sig in done:
                        continue
                    # operations that remove what later cases need are kept for the end of the round
                    if op["key"][1] == "DELETE" and o.kind == "dir":
                        continue
                    if scn.walk(addr.cap, addr.path) is None or not o.live or (parent is not None and not parent.live):
                        break
                    m = op["model"]
                    if m.get("to_dir") and classify(m["to_dir"]) != "AW":
                        continue          # relink into a read-only destination is a refusal case (phase A')
                    if m.get("replace") is False or (op["key"][2] == "bogus"):
                        continue
                    if m.get("name") is not None and op["key"][2] in ("delete", "unlink", "rename", "relink") and m["name"] not in o.kids:
                        continue
                    done.add(sig)
                    progress = True
                    pres = [addr.cap] + ([m["to_dir"]] if m.get("to_dir") else [])
                    do_request(run, scn, si, addr, op, pres, True, "%s/%s" % (o.kind, "mutable" if o.mutable else "immutable"))
                    if scn.walk(addr.cap, addr.path) is None or scn.walk(addr.cap, addr.path)[0].id != o.id or not o.live:
                        break
            if not progress:
                break
        # relink from a writeable directory into a read-only destination: refused
        rt = scn.reg(scn.root)[0]
        other = scn.reg(scn.root_caps[1])[0]
        if rt.kids:
            victim = sorted(rt.kids)[0]
            addr = Addr(scn, scn.root, [], "write-cap")
            op = {"key": ("DirectoryNodeHandler", "POST", "relink"), "meth": "POST", "modifying": True, "watch": rt,
                  "http": ("POST", addr.url + "?t=relink&from_name=%s&to_dir=%s" % (q(victim), q(other.ro)), b"", ()),
                  "model": {"t": "relink", "name": victim, "to_dir": other.ro}}
            do_request(run, scn, si, addr, op, [other.ro], False, "dir/relink-into-readonly")
        # ---- phase C: read-only authority again, now that nodes built from write caps have been used and are
        # still referenced (operation handles): a cached writeable node must not answer for a read cap
        held = scn.hold_write_nodes()
        addrs = [ad for ad in addresses(scn) if ad.kind in ("read-cap", "path-from-ro-root", "verify-cap")]
        rng.shuffle(addrs)
        budget = 40 if quick else 200
        for addr in addrs:
            if budget <= 0:
                break
            got = scn.walk(addr.cap, addr.path)
            if got is None:
                continue
            o, a = got
            if scn.writeable(o, a):
                continue
            r2 = ctx.rng("again", si, addr.cap, tuple(addr.path))
            tdesc = "%s/%s" % (o.kind, "mutable" if o.mutable else "immutable")
            parent = scn.walk(addr.cap, addr.path[:-1])[0] if addr.path else None
            ops = dir_ops(scn, addr, o, r2, False) if (o.kind == "dir" and a == "AR") else child_ops(scn, addr, o, parent, r2)
            for op in r2.sample(ops, min(4, len(ops))):
                pres = [addr.cap] + ([op["model"]["to_dir"]] if op["model"].get("to_dir") else [])
                do_request(run, scn, si, addr, op, pres, False, tdesc)
                budget -= 1
            leak_gets(run, scn, si, addr, o, a, [addr.cap])
        del held
        ctx.count("http-requests", web.requests)
        for e in g.logged_errors:
            ctx.count("logged:" + str(e)[:60])


def replay(ctx, rec):
    """Re-run the scenario the recorded case belongs to (same seed): the tree, the caps and the request are
    re-created; failures of the recorded kind are reported again."""
    case = rec.get("case") or {}
    si = case.get("scenario", 0)
    r = Run(ctx)
    with quiet_twisted():
        scenario(r, si)
    bad = ctx.coq_check(IMPORTS, r.terms, preamble=r.preamble(), tag="c41replay")
    for ix in bad:
        corr, c = r.info[ix]
        ctx.mismatch("model-vs-web:" + "-".join(str(x) for x in c.get("op", ["listing"])), "Coq model and the web resource disagree", case=c,
                     correspondence=corr)
    kind = rec.get("kind")
    same = [f for f in ctx.failures if f["kind"] == kind]
    ctx.failures[:] = same or ctx.failures
    return {"scenario": si, "requests": len(r.terms), "failures_of_recorded_kind": len(same),
            "first": ({k: same[0].get(k) for k in ("what", "case", "expected", "observed")} if same else None)}


class quiet_twisted(object):
    """twisted.python.log's DefaultObserver prints every logged failure to stderr until logging is started;
    the renderers log a traceback for each 500 they answer.  The grid's own observer keeps collecting them."""

    _begun = [False]

    def __enter__(self):
        from twisted.python import log
        if not self._begun[0]:
            # until logging "begins", twisted.logger writes every critical event (each logged Failure) to stderr
            from twisted.logger import globalLogBeginner
            globalLogBeginner.beginLoggingTo([lambda event: None], redirectStandardIO=False, discardBuffer=True)
            self._begun[0] = True
        self.obs = log.defaultObserver
        if self.obs is not None:
            try:
                self.obs.stop()
            except Exception:
                self.obs = None
            log.defaultObserver = None
        return self

    def __exit__(self, *a):
        from twisted.python import log
        if self.obs is not None:
            try:
                self.obs.start()
                log.defaultObserver = self.obs
            except Exception:
                pass
        return False


def run(ctx):
    with quiet_twisted():
        _run(ctx)


def _run(ctx):
    ctx.correspondence("dispatch-table-vs-driver-cases")
    ctx.correspondence("request-verdict-vs-model")
    ctx.correspondence("listing-vs-model")
    from translate import webops
    try:
        table = webops.extract()
    except Exception as e:     # fail-closed translator: the obligation is already broken; the oracle below does not need the table
        table = None
        ctx.mismatch("dispatch-table-not-extractable", "the dispatch table cannot be regenerated: %s" % e,
                     correspondence="dispatch-table-vs-driver-cases")
    r = Run(ctx)
    nscen = ctx.n(2, 8)
    for si in range(nscen):
        scenario(r, si)
        if ctx.tier == "quick" and not ctx.search and ctx.elapsed() > 15:
            break
    # every entry of the regenerated table was exercised (URIHandler creates unlinked objects: no authority involved;
    # FileNodeDownloadHandler is only reachable with GET/HEAD)
    for cls, meth, t, calls in (table["ops"] if table else []):
        if cls in ("URIHandler", "FileNodeDownloadHandler"):
            continue
        if (cls, meth, t) not in r.covered:
            ctx.mismatch("table-entry-without-driver-case", "dispatch entry %s %s t=%s is not exercised by the driver" % (cls, meth, t),
                         case={"class": cls, "method": meth, "t": t}, correspondence="dispatch-table-vs-driver-cases")
    ctx.count("orphan-objects-created-by-refused-requests", r.orphans)
    bad = ctx.coq_check(IMPORTS, r.terms, preamble=r.preamble(), tag="c41")
    for ix in bad:
        corr, case = r.info[ix]
        ctx.mismatch("model-vs-web:" + "-".join(str(x) for x in case.get("op", ["listing"])),
                     "Coq model and the web resource disagree: %s" % json.dumps(case)[:300], case=case,
                     observed=r.terms[ix][:1500], correspondence=corr)
    ctx.trace(len(r.terms) - len(bad))
    for i in range(min(3, len(r.info))):
        ctx.sample(r.info[i * 7 % len(r.info)][1])
