"""Shared pieces of the C15 / C16 / C43 drivers: generators of capability
objects and strings, rendering of implementation results as Coq terms of
Model/Uri.v, classification of implementation outcomes."""
import string

from core import term as T

IMPORTS = ["Lib.Hex", "Lib.Bytes", "Model.UriBase32", "Model.Uri"]
B32 = b"abcdefghijklmnopqrstuvwxyz234567"

FILE_KINDS = ["CHK", "CHKVerifier", "LIT", "SSK", "SSKRO", "SSKVerifier", "MDMF", "MDMFRO", "MDMFVerifier"]


def uri_mod():
    from allmydata import uri
    return uri


def class_maps():
    u = uri_mod()
    file_cls = {
        "CHK": u.CHKFileURI, "CHKVerifier": u.CHKFileVerifierURI, "LIT": u.LiteralFileURI,
        "SSK": u.WriteableSSKFileURI, "SSKRO": u.ReadonlySSKFileURI, "SSKVerifier": u.SSKVerifierURI,
        "MDMF": u.WriteableMDMFFileURI, "MDMFRO": u.ReadonlyMDMFFileURI, "MDMFVerifier": u.MDMFVerifierURI,
    }
    dir_cls = {
        "CHK": u.ImmutableDirectoryURI, "CHKVerifier": u.ImmutableDirectoryURIVerifier, "LIT": u.LiteralDirectoryURI,
        "SSK": u.DirectoryURI, "SSKRO": u.ReadonlyDirectoryURI, "SSKVerifier": u.DirectoryURIVerifier,
        "MDMF": u.MDMFDirectoryURI, "MDMFRO": u.ReadonlyMDMFDirectoryURI, "MDMFVerifier": u.MDMFDirectoryURIVerifier,
    }
    return file_cls, dir_cls


# attribute names behind the constructor arguments (what code edits when it changes a cap in place)
FIELD_ATTRS = {
    "CHK": ("key", "uri_extension_hash", "needed_shares", "total_shares", "size"),
    "CHKVerifier": ("storage_index", "uri_extension_hash", "needed_shares", "total_shares", "size"),
    "LIT": ("data",),
    "SSK": ("writekey", "fingerprint"), "SSKRO": ("readkey", "fingerprint"), "SSKVerifier": ("storage_index", "fingerprint"),
    "MDMF": ("writekey", "fingerprint"), "MDMFRO": ("readkey", "fingerprint"), "MDMFVerifier": ("storage_index", "fingerprint"),
}


def rbytes(r, n):
    return bytes(r.getrandbits(8) for _ in range(n))


def rnum(r):
    """k / N / size values: small, boundary, and huge (up to the 4300-digit limit of int<->str)."""
    c = r.random()
    if c < 0.35:
        return r.choice([0, 1, 2, 3, 9, 10, 11, 99, 100, 101, 255, 256, 257])
    if c < 0.6:
        return r.getrandbits(r.choice([8, 16, 31, 32, 33, 63, 64, 65, 128]))
    if c < 0.8:
        e = r.choice([1, 2, 5, 18, 19, 20, 38, 39, 100])
        return 10 ** e + r.choice([-1, 0, 1])
    if c < 0.93:
        return r.getrandbits(r.choice([256, 1000, 4000]))
    if c < 0.97:
        return 10 ** 4299 + r.getrandbits(64)          # 4300 digits: the largest printable width
    return 10 ** 4300 - 1 - r.getrandbits(16)            # still 4300 digits


def special_key(r, n):
    c = r.random()
    if c < 0.08:
        return b"\x00" * n
    if c < 0.16:
        return b"\xff" * n
    if c < 0.22:
        return bytes([r.choice([0, 255, 1, 128])] * (n - 1)) + bytes([r.getrandbits(8)])
    return rbytes(r, n)


def gen_fields(r, kind):
    """Constructor arguments of a well-formed file cap of `kind`."""
    if kind in ("CHK", "CHKVerifier"):
        return (special_key(r, 16), special_key(r, 32), rnum(r), rnum(r), rnum(r))
    if kind == "LIT":
        n = r.choice([0, 0, 1, 2, 3, 4, 5, 6, 7, 8, 9, 10, 11, 14, 15, 16, 17, 20, 31, 32, 33, 54, 55, 56, 80, 200])
        return (special_key(r, n) if n else b"",)
    return (special_key(r, 16), special_key(r, 32))


def make_file(kind, fields):
    file_cls, _ = class_maps()
    return file_cls[kind](*fields)


def make_cap(kind, fields, is_dir):
    f = make_file(kind, fields)
    if not is_dir:
        return f
    _, dir_cls = class_maps()
    return dir_cls[kind](f)


def gen_cap(r, kind=None, is_dir=None):
    if kind is None:
        kind = r.choice(FILE_KINDS)
    if is_dir is None:
        is_dir = r.random() < 0.45
    fields = gen_fields(r, kind)
    return kind, is_dir, fields, make_cap(kind, fields, is_dir)


# ---------------------------------------------------------------------------
# implementation objects -> model terms
# ---------------------------------------------------------------------------
def file_fields(f):
    """(kind, fields) of an implementation file-cap object."""
    u = uri_mod()
    t = type(f)
    if t is u.CHKFileURI:
        return "CHK", (f.key, f.uri_extension_hash, f.needed_shares, f.total_shares, f.size)
    if t is u.CHKFileVerifierURI:
        return "CHKVerifier", (f.storage_index, f.uri_extension_hash, f.needed_shares, f.total_shares, f.size)
    if t is u.LiteralFileURI:
        return "LIT", (f.data,)
    if t is u.WriteableSSKFileURI:
        return "SSK", (f.writekey, f.fingerprint)
    if t is u.ReadonlySSKFileURI:
        return "SSKRO", (f.readkey, f.fingerprint)
    if t is u.SSKVerifierURI:
        return "SSKVerifier", (f.storage_index, f.fingerprint)
    if t is u.WriteableMDMFFileURI:
        return "MDMF", (f.writekey, f.fingerprint)
    if t is u.ReadonlyMDMFFileURI:
        return "MDMFRO", (f.readkey, f.fingerprint)
    if t is u.MDMFVerifierURI:
        return "MDMFVerifier", (f.storage_index, f.fingerprint)
    raise ValueError("not a file cap: %r" % (t,))


def describe(c):
    """Canonical, JSON-able description of an implementation cap object:
    ("file"|"dir", kind, fields) or ("unknown", string, error class name)."""
    u = uri_mod()
    if c is None:
        return None
    if isinstance(c, u.UnknownURI):
        e = c.get_error()
        return ("unknown", c.to_string(), type(e).__name__ if e is not None else None)
    _, dir_cls = class_maps()
    for kind, cls in dir_cls.items():
        if type(c) is cls:
            inner = c.get_filenode_cap()
            ik, fields = file_fields(inner)
            if ik != kind:
                return ("dir-mismatch", kind, ik, fields)
            return ("dir", kind, fields)
    k, fields = file_fields(c)
    return ("file", k, fields)


ERR = {None: "ENone", "BadURIError": "EBadURI", "MustBeDeepImmutableError": "EMustBeDeepImmutable",
       "MustBeReadonlyError": "EMustBeReadonly", "MustNotBeUnknownRWError": "EMustNotBeUnknownRW"}


def num_term(n):
    """Coq term for a natural number.  Coq parses a 4300-digit decimal literal in ~17 s (hex: 2.6 s); big
    values are therefore passed as big-endian octets and folded with Lib.Bytes.be_value."""
    if n < 2 ** 64:
        return T.N(n)
    return "(be_value 256 %s)" % T.bytes_(n.to_bytes((n.bit_length() + 7) // 8, "big"))


def filecap_term(kind, fields):
    args = " ".join(T.bytes_(x) if isinstance(x, (bytes, bytearray)) else num_term(x) for x in fields)
    return "(%s %s)" % (kind, args)


def cap_term(d):
    """Coq term (Model.Uri.cap) for a description produced by describe()."""
    if d[0] == "unknown":
        return "(CUnknown %s %s)" % (T.bytes_(d[1]), ERR[d[2]])
    if d[0] == "file":
        return "(CFile %s)" % filecap_term(d[1], d[2])
    if d[0] == "dir":
        return "(CDir %s)" % filecap_term(d[1], d[2])
    raise ValueError(d)


def opt_cap_term(d):
    return "None" if d is None else "(Some %s)" % cap_term(d)


def impl_from_string(s, deep_immutable=False):
    """Outcome class of uri.from_string: ("ok", description, object) | ("ValueError",) | ("AssertionError",) | (other exception name,)"""
    u = uri_mod()
    try:
        c = u.from_string(s, deep_immutable=deep_immutable)
    except ValueError:
        return ("ValueError",)
    except AssertionError:
        return ("AssertionError",)
    except Exception as e:      # anything else is reported by the caller
        return (type(e).__name__,)
    return ("ok", describe(c), c)


def outcome_term(o):
    if o[0] == "ok":
        return "(Ok %s)" % cap_term(o[1])
    if o[0] == "ValueError":
        return "RaisesValueError"
    if o[0] == "AssertionError":
        return "RaisesAssertion"
    raise ValueError(o)


def jcase(d):
    """describe() output -> JSON-friendly."""
    def conv(x):
        if isinstance(x, (bytes, bytearray)):
            return {"hex": bytes(x).hex()} if not all(32 <= c < 127 for c in x) else x.decode("ascii")
        if isinstance(x, tuple):
            return [conv(y) for y in x]
        if isinstance(x, int) and not isinstance(x, bool) and x > 10 ** 40:
            s = str(x) if x < 10 ** 4300 else "<%d bits>" % x.bit_length()
            return {"int": s[:20] + "..." + s[-10:], "digits": len(s)}
        return x
    return conv(d)


def show(b):
    """Short printable form of a byte string for messages."""
    t = bytes(b)
    if len(t) > 160:
        return repr(t[:100]) + "...(%d bytes)..." % len(t) + repr(t[-40:])
    return repr(t)


# ---------------------------------------------------------------------------
# string mutations (the malformed stream)
# ---------------------------------------------------------------------------
PRINTABLE = (string.ascii_letters + string.digits + string.punctuation + " ").encode()
MUTATIONS = ["append-char", "append-newline", "insert-char", "delete-char", "replace-char", "wrong-tail-128", "wrong-tail-256",
             "wrong-lit-tail", "field-longer", "field-shorter", "leading-zero", "plus-sign", "space-number", "ro-prefix",
             "imm-prefix", "double-prefix", "upper-case", "extension", "trailing-colon", "swap-prefix", "truncate",
             "newline-inside", "huge-number", "empty-number", "nul-byte", "non-ascii-digit"]


def mutate(r, s, how=None):
    """Return (how, mutated string).  `s` is a valid cap string."""
    if how is None:
        how = r.choice(MUTATIONS)
    parts = s.split(b":")
    if how == "append-char":
        return how, s + bytes([r.choice(PRINTABLE)])
    if how == "append-newline":
        return how, s + r.choice([b"\n", b"\n", b"\r\n", b"\n\n", b" ", b"\t", b"\x00"])
    if how == "insert-char":
        i = r.randrange(len(s) + 1)
        return how, s[:i] + bytes([r.choice(PRINTABLE)]) + s[i:]
    if how == "delete-char":
        i = r.randrange(len(s))
        return how, s[:i] + s[i + 1:]
    if how == "replace-char":
        i = r.randrange(len(s))
        return how, s[:i] + bytes([r.choice(PRINTABLE)]) + s[i + 1:]
    if how in ("wrong-tail-128", "wrong-tail-256", "wrong-lit-tail"):
        idx = {"wrong-tail-128": 2, "wrong-tail-256": 3, "wrong-lit-tail": 2}[how]
        if len(parts) > idx and parts[idx]:
            f = parts[idx]
            parts[idx] = f[:-1] + bytes([r.choice(B32)])
            return how, b":".join(parts)
        return "append-char", s + b"a"
    if how == "field-longer":
        idx = r.randrange(2, len(parts)) if len(parts) > 2 else len(parts) - 1
        parts[idx] = parts[idx] + bytes([r.choice(B32 + b"0189")])
        return how, b":".join(parts)
    if how == "field-shorter":
        idx = r.randrange(2, len(parts)) if len(parts) > 2 else len(parts) - 1
        parts[idx] = parts[idx][:-1]
        return how, b":".join(parts)
    if how in ("leading-zero", "plus-sign", "space-number", "huge-number", "empty-number", "non-ascii-digit"):
        nums = [i for i in range(4, len(parts))] if len(parts) >= 7 else []
        if not nums:
            # kinds without numbers: put the decoration on the last field
            nums = [len(parts) - 1]
        i = r.choice(nums)
        if how == "leading-zero":
            parts[i] = b"0" * r.choice([1, 1, 2, 5]) + parts[i]
        elif how == "plus-sign":
            parts[i] = r.choice([b"+", b"-", b"_"]) + parts[i]
        elif how == "space-number":
            parts[i] = r.choice([b" " + parts[i], parts[i] + b" ", parts[i][:1] + b"_" + parts[i][1:]])
        elif how == "huge-number":
            nd = r.choice([4299, 4300, 4300, 4301, 5000])      # digits (int<->str conversion stops at 4300)
            parts[i] = bytes([r.choice(b"123456789")]) + bytes(r.choice(b"0123456789") for _ in range(nd - 1))
        elif how == "empty-number":
            parts[i] = b""
        else:
            parts[i] = parts[i] + "٣".encode("utf-8")      # ARABIC-INDIC DIGIT THREE
        return how, b":".join(parts)
    if how == "ro-prefix":
        return how, b"ro." + s
    if how == "imm-prefix":
        return how, b"imm." + s
    if how == "double-prefix":
        return how, r.choice([b"ro.ro.", b"ro.imm.", b"imm.ro.", b"imm.imm.", b"RO.", b"ro", b"imm"]) + s
    if how == "upper-case":
        i = r.randrange(len(s))
        return how, s[:i] + s[i:i + 1].swapcase() + s[i + 1:]
    if how == "extension":
        return how, s + b":" + r.choice([b"", b"3:131073", b"x", b"\n", b"1:2:3", b"::"])
    if how == "trailing-colon":
        return how, s + b":"
    if how == "swap-prefix":
        pre = r.choice([b"URI:CHK:", b"URI:CHK-Verifier:", b"URI:LIT:", b"URI:SSK:", b"URI:SSK-RO:", b"URI:SSK-Verifier:",
                        b"URI:MDMF:", b"URI:MDMF-RO:", b"URI:MDMF-Verifier:", b"URI:DIR2:", b"URI:DIR2-RO:",
                        b"URI:DIR2-Verifier:", b"URI:DIR2-CHK:", b"URI:DIR2-CHK-Verifier:", b"URI:DIR2-LIT:",
                        b"URI:DIR2-MDMF:", b"URI:DIR2-MDMF-RO:", b"URI:DIR2-MDMF-Verifier:", b"URI:DIR2-", b"URI:", b"uri:chk:",
                        b"x-tahoe-future-test-writeable:", b"x-tahoe-future-test-mutable:"])
        return how, pre + b":".join(parts[2:])
    if how == "truncate":
        return how, s[:r.randrange(len(s))]
    if how == "newline-inside":
        i = r.randrange(len(s) + 1)
        return how, s[:i] + b"\n" + s[i:]
    if how == "nul-byte":
        i = r.randrange(len(s) + 1)
        return how, s[:i] + bytes([r.choice([0, 0x80, 0xff, 0x7f])]) + s[i:]
    raise ValueError(how)


def random_printable(r):
    n = r.choice([0, 1, 2, 3, 5, 8, 13, 30, 60, 120])
    c = r.random()
    if c < 0.3:
        return bytes(r.choice(PRINTABLE) for _ in range(n))
    if c < 0.6:
        alpha = b"URI:CHKSDMFLT2-ROVerifier.imo" + B32[:6] + b"0123456789:"
        return bytes(r.choice(alpha) for _ in range(n))
    pre = r.choice([b"URI:", b"URI:CHK:", b"URI:LIT:", b"ro.", b"imm.", b"ro.URI:", b"imm.URI:LIT:", b"URI:DIR2:", b"URI:SSK:",
                    b"x-tahoe-future-test-writeable:", b"x-tahoe-future-test-mutable:", b"ro.x-tahoe-future-test-writeable:",
                    b"imm.x-tahoe-future-test-mutable:", b"ro.x-tahoe-future-test-mutable:", b"http://", b""])
    return pre + bytes(r.choice(B32 + b":") for _ in range(n))
