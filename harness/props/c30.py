"""C30  HTTP storage API authorization.

The real `HTTPServer` (storage/http_server.py) on a real `StorageServer` in a scratch
directory, driven in-process through `treq.testing.StubTreq` (no sockets).  Requests
with random header sets are sent to EVERY route of the regenerated route table
(harness/translate/routes.py), interleaved with legitimate uploads by another client;
the server's state is read back before and after each request through the direct
StorageServer API.  Model: coq/Model/HttpAuth.v."""
import base64
import binascii
import os
import re
import shutil

from core import env
from core import term as T

ID = "C30"
GEN = ["routes"]
RULE = ("cases: one HTTP request (route from the regenerated table, method, target, Authorization values, "
        "X-Tahoe-Authorization values) sent to the real HTTPServer in a seeded history that interleaves legitimate "
        "uploads, or one direct call of _extract_secrets; distinct = distinct (route, header recipe, target kind, status); "
        "non-trivial = the request carries the correct swissnum (the secret checks and handlers are reached)")
META = {
    "title": "HTTP storage API authorization",
    "level_text": ("Theorems in Coq over an executable model of _authorization_decorator, _extract_secrets and "
                   "UploadsInProgress, with the route table regenerated from http_server.py on every run: every route is "
                   "registered through the authorising wrapper and reads exactly the secrets it requires; without the "
                   "correct swissnum the answer is 401/400 and, for EVERY handler, the state is unchanged (the handler is a "
                   "universally quantified parameter that is not applied); missing, malformed, unknown, wrong-length or "
                   "extra secrets give 400 before the handler; a write to / abort of an in-progress upload with another "
                   "secret gives 401 and changes nothing; the write enabler reaches the storage server unchanged and its "
                   "refusal becomes 401 with the state unchanged.  The model is compared with the real HTTPServer "
                   "(StubTreq) on the status of random requests to every route, and an independent oracle checks the "
                   "property itself on status, body and before/after state."),
    "level_note": ("core (partial): HTTP parsing, Klein/werkzeug routing, UTF-8 decoding, CBOR and TLS are exercised by "
                   "the correspondence, not modelled; base64 is modelled after CPython 3.12 binascii (lenient mode) and "
                   "compared with it on every run; timing_safe_compare is equality (no timing claim); the write-enabler "
                   "comparison itself is the storage server's (C24), only its delegation is proved here.  Duplicated secret "
                   "headers are NOT rejected by the code: the last value wins (proved: duplicate_last_wins)."),
    "technique": "Coq proof over an executable model + route table regenerated from source + differential run and state-diff oracle against the real HTTPServer",
    "design_ref": "8/C30",
    "trusted_base": ["translator harness/translate/routes.py (fail-closed; its table is compared with Klein's url_map at run time)",
                     "treq.testing.StubTreq / twisted.web in-memory HTTP", "python base64 as the definition of a decodable secret in the oracle"],
    "assumptions": ["AST pins of _authorization_decorator/_authorized_route/_extract_secrets/UploadsInProgress and the three secret-sensitive handlers equal the values Model/HttpAuth.v was written for"],
}

IMPORTS = ["Lib.Hex", "Gen.Routes", "Model.HttpAuth"]
CANARY = b"\xc3\xa5SHAREDATA-canary-\xe2\x82\xac"   # every stored share byte string contains it


# =============================================================================
# in-process HTTP storage server (shared with C31)
# =============================================================================
_patched = {}
SWISSNUMS_IN_PROCESS = []      # swissnum of every HTTPServer created in this process, oldest first


def _install_reactor_patches(clock):
    """The pull producers of twisted.web are driven by the global Cooperator:
    schedule it on our fake clock; run CPU 'threads' inline."""
    from twisted.internet import task
    from allmydata.util import cputhreadpool
    if "coop" not in _patched:
        _patched["coop"] = task._theCooperator
    _patched["clock"] = clock
    task._theCooperator = task.Cooperator(scheduler=lambda c: _patched["clock"].callLater(0, c))
    cputhreadpool._DISABLED = True
    if "log" not in _patched:
        # server-side 500s (e.g. a header that is not UTF-8) are logged as unhandled
        # errors; keep them off stderr
        _patched["log"] = []
        try:
            from twisted.logger import globalLogBeginner
            globalLogBeginner.beginLoggingTo([lambda e: None], redirectStandardIO=False, discardBuffer=True)
        except Exception:       # noqa
            pass


class HttpStore(object):
    """StorageServer + HTTPServer + StubTreq + StorageClient on one fake clock."""

    def __init__(self, basedir, swissnum, clock=None, nodeid=b"\x00" * 20, client_swissnum=None):
        from twisted.internet.task import Clock
        from treq.testing import StubTreq
        from hyperlink import DecodedURL
        from allmydata.storage.server import StorageServer
        from allmydata.storage.http_server import HTTPServer
        from allmydata.storage.http_client import StorageClient
        self.clock = clock or Clock()
        _install_reactor_patches(self.clock)
        self.basedir = basedir
        self.swissnum = swissnum
        self.ss = StorageServer(basedir, nodeid, clock=self.clock)
        self.http_server = HTTPServer(self.clock, self.ss, swissnum)
        if swissnum not in SWISSNUMS_IN_PROCESS:
            SWISSNUMS_IN_PROCESS.append(swissnum)
        self.treq = StubTreq(self.http_server.get_resource())
        self.client = StorageClient(DecodedURL.from_text("http://127.0.0.1"), client_swissnum or swissnum,
                                    treq=self.treq, pool=None, clock=self.clock)

    def run(self, d, limit=20000):
        """Drive a Deferred/coroutine to its result without a reactor."""
        from twisted.internet.defer import ensureDeferred
        _patched["clock"] = self.clock
        if not hasattr(d, "addCallbacks"):
            d = ensureDeferred(d)
        res, err = [], []
        d.addCallbacks(res.append, err.append)
        for _ in range(limit):
            if res or err:
                break
            self.clock.advance(0)
            self.treq.flush()
        if res:
            return res[0]
        if err:
            err[0].raiseException()
        raise RuntimeError("HTTP operation did not complete (hung)")

    def raw(self, method, path, headers, data=None):
        """One raw request; headers = list of (name, bytes value).  -> (code, body, response headers)"""
        from twisted.web.http_headers import Headers
        h = Headers()
        for k, v in headers:
            h.addRawHeader(k, v)
        kw = {}
        if data is not None:
            kw["data"] = data
        r = self.run(self.treq.request(method, "http://127.0.0.1" + path, headers=h, **kw))
        body = self.run(r.content())
        return r.code, body, r.headers


def dir_digest(root):
    """(relative path, content) of every file below root, sorted."""
    out = []
    for dp, dn, fn in os.walk(root):
        dn.sort()
        for f in sorted(fn):
            p = os.path.join(dp, f)
            try:
                with open(p, "rb") as fh:
                    out.append((os.path.relpath(p, root), fh.read()))
            except OSError:
                out.append((os.path.relpath(p, root), None))
        if not fn and not dn:
            out.append((os.path.relpath(dp, root) + "/", b""))
    return out


def lease_tuple(l):
    return (l.owner_num, l.present_renew_secret(), l.present_cancel_secret(), int(l.get_expiration_time()), bytes(l.nodeid or b""))


def api_state(ss, sis, http_server=None):
    """Abstract state read back through the direct StorageServer API."""
    from allmydata.storage.mutable import MutableShareFile
    st = {}
    for si in sis:
        e = {}
        try:
            shares = sorted(ss.get_shares(si))
        except Exception as ex:       # noqa
            shares = []
            e["get_shares_error"] = type(ex).__name__
        kinds = {}
        for shnum, fn in shares:
            with open(fn, "rb") as f:
                magic = f.read(32)
            kinds[shnum] = "mutable" if MutableShareFile.is_valid_header(magic) else "immutable"
        imm = sorted(n for n, k in kinds.items() if k == "immutable")
        mut = sorted(n for n, k in kinds.items() if k == "mutable")
        if imm:
            from allmydata.storage.immutable import BucketReader
            fns = dict(shares)
            e["immutable"] = {n: BucketReader(ss, fns[n], si, n).read(0, 1 << 30) for n in imm}
        if mut:
            data = ss.slot_readv(si, mut, [(0, 1 << 30)])
            e["mutable"] = {n: data[n][0] for n in mut}
            e["mutable_len"] = {n: ss.get_mutable_share_length(si, n) for n in mut}
        if shares:
            from allmydata.storage.shares import get_share_file
            e["leases"] = {n: sorted(lease_tuple(l) for l in get_share_file(fn).get_leases()) for n, fn in shares}
        st[si] = e
    writers = []
    for home, bw in sorted(ss._bucket_writers.items()):
        rel = os.path.relpath(home, ss.incomingdir)
        try:
            with open(home, "rb") as f:
                raw = f.read()
        except OSError:
            raw = None
        writers.append((rel, bw.allocated_size(), bool(bw.closed), [(a, b) for a, b, _ in bw._already_written.ranges()], raw))
    st["__writers__"] = writers
    st["__allocated__"] = ss.allocated_size()
    adv = os.path.join(ss.storedir, "corruption-advisories")
    st["__advisories__"] = len(os.listdir(adv)) if os.path.isdir(adv) else 0
    if http_server is not None:
        ups = getattr(getattr(http_server, "_uploads", None), "_uploads", None)
        if ups is not None:
            st["__uploads__"] = sorted((si, sh, bytes(sec)) for si, u in ups.items() for sh, sec in u.upload_secrets.items())
    return st


def full_state(store, sis):
    return (api_state(store.ss, sis, store.http_server), dir_digest(store.ss.storedir))


def state_diff(a, b):
    """Short description of the first difference between two full_state values (or None)."""
    if a == b:
        return None
    sa, sb = a[0], b[0]
    for k in sorted(set(sa) | set(sb), key=repr):
        if sa.get(k) != sb.get(k):
            return "state[%s]: %s -> %s" % (k.hex() if isinstance(k, bytes) else k, _short(sa.get(k)), _short(sb.get(k)))
    fa, fb = dict(a[1]), dict(b[1])
    for k in sorted(set(fa) | set(fb)):
        if fa.get(k) != fb.get(k):
            return "file %s changed" % k
    return "changed"


def _short(x):
    s = repr(x)
    return s if len(s) < 160 else s[:157] + "..."


# =============================================================================
# route table helpers
# =============================================================================
def route_table():
    from translate import routes as R
    members, routes, pins = R.extract()
    return members, routes


_SEG = re.compile(r"<([^<>]*)>")


def build_path(url, si, shnum):
    """Concrete path for a Klein URL pattern; raises on an unknown converter."""
    from allmydata.storage.common import si_b2a

    def sub(m):
        spec = m.group(1)
        if spec.startswith("storage_index:"):
            return si_b2a(si).decode("ascii")
        if spec.startswith("int(signed=False):") or spec.startswith("int:"):
            return str(shnum)
        raise ValueError("unknown URL converter <%s> in route %s" % (spec, url))
    return _SEG.sub(sub, url)


def runtime_rules():
    """(rule, frozenset(methods without the implicit HEAD/OPTIONS), endpoint) as Klein registered them."""
    from allmydata.storage.http_server import HTTPServer
    out = []
    for r in HTTPServer._app.url_map.iter_rules():
        ms = set(r.methods or ())
        if "GET" in ms:
            ms.discard("HEAD")
        ms.discard("OPTIONS")
        out.append((r.rule, frozenset(ms), r.endpoint))
    return out


# =============================================================================
# terms
# =============================================================================
def cps(b):
    """Header bytes -> list of code points term, or None (not UTF-8)."""
    try:
        s = bytes(b).decode("utf8")
    except UnicodeDecodeError:
        return None
    return s


def t_str(s):
    """python str -> Coq list N of code points"""
    if all(ord(c) < 256 for c in s):
        return T.bytes_(bytes(ord(c) for c in s))
    return T.lst([T.N(ord(c)) for c in s])


def t_hval(b):
    s = cps(b)
    return "None" if s is None else "(Some %s)" % t_str(s)


def t_secret(name):
    return "S_" + name


def t_request(auths, xauths):
    return "(mk_request %s %s)" % (T.lst([t_hval(a) for a in auths]), T.lst([t_hval(x) for x in xauths]))


def t_upkey(si, sh):
    return "(%s, %s)" % (T.bytes_(si), T.N(sh))


def t_uploads(ups):
    return T.lst(["(%s, %s)" % (t_upkey(si, sh), T.bytes_(sec)) for (si, sh), sec in sorted(ups.items())])


# =============================================================================
# generators
# =============================================================================
def rb(r, n):
    return bytes(r.getrandbits(8) for _ in range(n))


def b64(b):
    return base64.b64encode(b)


def auth_values(r, swissnum):
    """-> (recipe name, [Authorization header values])"""
    good = b"Tahoe-LAFS " + b64(swissnum)
    other = b"Tahoe-LAFS " + b64(rb(r, len(swissnum)))
    recipes = [("correct", [good])] * 24 + [
        ("absent", []),
        ("wrong-swissnum", [other]),
        ("wrong-scheme", [b"Basic " + b64(swissnum)]),
        ("lowercase-scheme", [b"tahoe-lafs " + b64(swissnum)]),
        ("no-scheme", [b64(swissnum)]),
        ("truncated", [good[:-1]]),
        ("suffix", [good + r.choice([b"x", b"=", b" x", b"\tx", b", " + good])]),
        ("junk-in-base64", [b"Tahoe-LAFS " + b64(swissnum)[:3] + b"!" + b64(swissnum)[3:]]),
        ("raw-swissnum", [b"Tahoe-LAFS " + bytes(c for c in swissnum if 33 <= c < 127)]),
        ("urlsafe", [b"Tahoe-LAFS " + base64.urlsafe_b64encode(swissnum)]),
        ("dup-wrong-correct", [other, good]),
        ("dup-correct-wrong", [good, other]),
        ("dup-correct-correct", [good, good]),
        ("not-utf8", [b"Tahoe-LAFS \xff\xfe" + b64(swissnum)]),
        ("dup-correct-notutf8", [good, b"\xff"]),
        ("empty", [b""]),
        ("prefix-of-other-length", [b"Tahoe-LAFS " + b64(swissnum + b"\x00")]),
    ]
    return r.choice(recipes)


def secret_header_variants(r, kind, value, required, is_lease):
    """-> (recipe, [header values]) for one secret kind whose correct value is `value`."""
    k = kind.encode("ascii")
    good = k + b" " + b64(value)
    wrong = k + b" " + b64(rb(r, len(value)))
    enc = b64(value)
    opts = []
    if required:
        opts += [("correct", [good])] * 36
        opts += [
            ("missing", []),
            ("wrong-value", [wrong]),
            ("bad-padding", [k + b" " + enc.rstrip(b"=")[:-1]]),
            ("junk-in-base64", [k + b" " + enc[:5] + r.choice([b"!", b" ", b"-", b"_", b"\t"]) + enc[5:]]),
            ("empty-value", [k + b" "]),
            ("only-padding", [k + b" ===="]),
            ("no-space", [k + enc]),
            ("tab-separator", [k + b"\t" + enc]),
            ("two-spaces", [k + b"  " + enc]),
            ("uppercase-kind", [k.upper() + b" " + enc]),
            ("kind-with-colon", [k + b": " + enc]),
            ("dup-same", [good, good]),
            ("dup-wrong-then-correct", [wrong, good]),
            ("dup-correct-then-wrong", [good, wrong]),
            ("dup-correct-then-malformed", [good, k + b" !"]),
            ("not-utf8", [k + b" \xff\xfe"]),
            ("non-ascii-value", [k + b" " + "é".encode("utf8") + enc]),
            ("urlsafe", [k + b" " + base64.urlsafe_b64encode(value)]),
        ]
        if not is_lease:
            # the per-upload / per-slot secrets: a well-formed but different value is the interesting attack
            opts += [("wrong-value", [wrong])] * 6 + [("dup-correct-then-wrong", [good, wrong])] * 2
        if is_lease:
            opts += [("lease-31", [k + b" " + b64(value[:31])]), ("lease-33", [k + b" " + b64(value + b"\x00")]),
                     ("lease-short", [k + b" " + b64(value[:1])])]
    else:
        opts += [("absent", [])] * 45
        opts += [("extra", [good]), ("extra-malformed", [k + b" !"]), ("extra-empty", [k + b" "])]
        if is_lease:
            opts += [("extra-lease-31", [k + b" " + b64(value[:31])])]
    return r.choice(opts)


def oracle_decode(v):
    """The harness' own reading of a header value `<kind> <base64>` using only the
    standard library: (kind, secret bytes) or None when it is not a well-formed
    secret header."""
    try:
        s = v.decode("utf8")
    except UnicodeDecodeError:
        return None
    parts = s.strip().split(" ", 1)
    if len(parts) != 2:
        return None
    try:
        val = base64.b64decode(parts[1])
    except (ValueError, binascii.Error):
        return None
    if not val:
        return None
    return parts[0], val


KINDS = None   # filled from the regenerated Secrets enum: member name -> header kind


# =============================================================================
# one seeded history
# =============================================================================
class History(object):
    def __init__(self, ctx, hidx, members, routes, only_step=None):
        self.ctx = ctx
        self.hidx = hidx
        self.members = members
        self.kinds = dict(members)                       # LEASE_RENEW -> "lease-renew-secret"
        self.routes = routes
        self.r = ctx.rng("hist", hidx)
        self.swissnum = rb(self.r, self.r.choice([1, 8, 16, 20, 32]))
        self.dir = os.path.join(env.subdir("c30"), "h%d-%d" % (hidx, os.getpid()))
        shutil.rmtree(self.dir, ignore_errors=True)
        os.makedirs(self.dir)
        self.store = HttpStore(self.dir, self.swissnum)
        self.uploads = {}          # (si, sh) -> upload secret        (legitimate, in progress)
        self.alloc = {}            # (si, sh) -> allocated size
        self.written = {}          # (si, sh) -> set of written positions
        self.complete = set()      # (si, sh) immutable shares fully uploaded
        self.slots = {}            # si -> write enabler
        self.slot_shares = {}      # si -> set of share numbers
        self.sis = []
        self.terms = []
        self.info = []
        self.only_step = only_step

    # ----- legitimate client ---------------------------------------------------
    def data_for(self, si, sh, size):
        blob = CANARY + si + bytes([sh % 256])
        return (blob * (size // len(blob) + 1))[:size]

    def legit_allocate(self):
        from allmydata.storage.http_client import StorageClientImmutables
        r = self.r
        si = rb(r, 16)
        self.sis.append(si)
        shares = set(r.sample(range(4), r.choice([1, 2, 2, 3])))
        size = r.choice([len(CANARY) + 18, 64, 100, 200])
        secret = rb(r, r.choice([16, 20, 32]))
        res = self.store.run(StorageClientImmutables(self.store.client).create(
            si, shares, size, secret, rb(r, 32), rb(r, 32)))
        for sh in res.allocated:
            self.uploads[(si, sh)] = secret
            self.alloc[(si, sh)] = size
            self.written[(si, sh)] = set()
        return si

    def legit_write(self, finish=False):
        from allmydata.storage.http_client import StorageClientImmutables
        r = self.r
        if not self.uploads:
            return
        key = r.choice(sorted(self.uploads))
        si, sh = key
        size = self.alloc[key]
        data = self.data_for(si, sh, size)
        if finish:
            a, b = 0, size
        else:
            a = r.randrange(size)
            b = min(size, a + r.choice([1, 7, len(CANARY) + 4, size]))
        prog = self.store.run(StorageClientImmutables(self.store.client).write_share_chunk(
            si, sh, self.uploads[key], a, data[a:b]))
        self.written[key] |= set(range(a, b))
        if prog.finished:
            self.complete.add(key)
            del self.uploads[key]

    def legit_abort(self):
        from allmydata.storage.http_client import StorageClientImmutables
        if len(self.uploads) < 3:
            return
        key = self.r.choice(sorted(self.uploads))
        self.store.run(StorageClientImmutables(self.store.client).abort_upload(key[0], key[1], self.uploads[key]))
        del self.uploads[key]

    def legit_mutable(self, new=False):
        from allmydata.storage.http_client import StorageClientMutables, TestWriteVectors, WriteVector
        r = self.r
        if new or not self.slots:
            si = rb(r, 16)
            self.sis.append(si)
            self.slots[si] = rb(r, 32)
            self.slot_shares[si] = set()
        else:
            si = r.choice(sorted(self.slots))
        sh = r.randrange(3)
        off = r.choice([0, 0, 5, 40])
        res = self.store.run(StorageClientMutables(self.store.client).read_test_write_chunks(
            si, self.slots[si], rb(r, 32), rb(r, 32),
            {sh: TestWriteVectors(write_vectors=[WriteVector(offset=off, data=self.data_for(si, sh, 50))])}, []))
        assert res.success
        self.slot_shares[si].add(sh)

    def setup(self):
        steps = [self.legit_allocate, self.legit_write, self.legit_allocate, lambda: self.legit_write(finish=True),
                 lambda: self.legit_mutable(new=True)]
        if self.r.random() < 0.5:
            steps.append(self.legit_allocate)
        for f in steps:
            try:
                f()
            except Exception as e:      # noqa  (the other client's own request failed: not an authorisation matter)
                self.ctx.count("legit-op-failed:" + type(e).__name__)

    def legit_step(self):
        try:
            self._legit_step()
        except Exception as e:      # noqa
            # not an authorisation matter (the other client's own request failed); keep the history going
            self.ctx.count("legit-op-failed:" + type(e).__name__)

    def _legit_step(self):
        c = self.r.random()
        if c < 0.25:
            self.legit_allocate()
        elif c < 0.55:
            self.legit_write()
        elif c < 0.7:
            self.legit_write(finish=True)
        elif c < 0.8:
            self.legit_abort()
        else:
            self.legit_mutable(new=self.r.random() < 0.3)

    # ----- hostile / random requests -------------------------------------------
    def pick_target(self, route):
        """-> (target kind, si, shnum)"""
        r = self.r
        name = route.name
        choices = []
        if self.uploads:
            choices += ["in-progress"] * (6 if name in ("write_share_data", "abort_share_upload", "allocate_buckets") else 2)
        if self.complete:
            choices += ["complete"] * 3
        if self.slots:
            choices += ["slot"] * (6 if "mutable" in name else 1)
        choices += ["nonexistent"]
        # keep immutable and mutable storage indexes apart: a fully authorised random request that
        # puts a share of the other type there only makes later operations fail for unrelated reasons
        if name == "allocate_buckets":
            choices = [c for c in choices if c != "slot"]
        if name == "mutable_read_test_write":
            choices = [c for c in choices if c in ("slot", "nonexistent")]
        kind = r.choice(choices)
        if kind == "in-progress":
            si, sh = r.choice(sorted(self.uploads))
        elif kind == "complete":
            si, sh = r.choice(sorted(self.complete))
        elif kind == "slot":
            si = r.choice(sorted(self.slots))
            sh = r.choice(sorted(self.slot_shares[si]) + [7])
        else:
            si, sh = rb(r, 16), r.randrange(3)
            if si not in self.sis:
                self.sis.append(si)
        return kind, si, sh

    def body_for(self, route, si, sh, garbage, valid=False):
        """-> (extra headers, body bytes or None, content_range_ok)"""
        from allmydata.util.cbor import dumps
        r = self.r
        name = route.name
        cbor_h = [("Content-Type", b"application/cbor")]
        if garbage and name != "write_share_data":
            return cbor_h, rb(r, 5), True
        if name == "allocate_buckets":
            return cbor_h, dumps({"share-numbers": set(r.sample(range(5), 2)), "allocated-size": r.choice([10, 64])}), True
        if name == "write_share_data":
            size = self.alloc.get((si, sh), 64)
            a = r.randrange(size)
            b = min(size, a + r.choice([1, 8, size]))
            data = self.data_for(si, sh, size)[a:b]
            mode = 0.0 if valid else r.random()
            if mode < 0.8:
                return [("Content-Range", b"bytes %d-%d/*" % (a, b - 1))], data, True
            if mode < 0.9:
                return [], data, False
            return [("Content-Range", r.choice([b"chars 0-3/*", b"bytes 5-2/*", b"bytes x-y/*", b"bytes 0-3"]))], data, None
        if name in ("advise_corrupt_share_immutable", "advise_corrupt_share_mutable"):
            return cbor_h, dumps({"reason": "because"}), True
        if name == "mutable_read_test_write":
            msg = {"test-write-vectors": {sh: {"test": [], "write": [{"offset": 0, "data": b"OVERWRITTEN-BY-REQUEST"}],
                                               "new-length": r.choice([None, None, 0, 5])}},
                   "read-vector": [{"offset": 0, "size": 100}]}
            return cbor_h, dumps(msg), True
        if name in ("read_share_chunk", "read_mutable_chunk"):
            if r.random() < 0.7:
                a = r.randrange(80)
                return [("Range", b"bytes=%d-%d" % (a, a + r.randrange(60)))], None, True
            return [], None, True
        return [], None, True

    def attack(self, step, route, force=None):
        """One request.  force = {"target": (si, sh), "secret": bytes, "recipe": str}: everything right
        except that the upload secret presented is `secret` (another upload's, or a random one)."""
        ctx = self.ctx
        r = self.r
        kinds = self.kinds
        if force:
            tkind, (si, sh) = ("slot" if force.get("kind") == "WRITE_ENABLER" else "in-progress"), force["target"]
        else:
            tkind, si, sh = self.pick_target(route)
        method = route.methods[0]
        wrong_method = False
        if not force and r.random() < 0.06:
            method = r.choice([m for m in ["GET", "HEAD", "POST", "PUT", "PATCH", "DELETE"] if m not in route.methods])
            wrong_method = True
        arecipe, auths = auth_values(r, self.swissnum)
        xauths = []
        xrecipes = []
        correct_for = {
            "UPLOAD": self.uploads.get((si, sh)) or rb(r, 20),
            "WRITE_ENABLER": self.slots.get(si) or rb(r, 32),
            "LEASE_RENEW": rb(r, 32),
            "LEASE_CANCEL": rb(r, 32),
        }
        # focused attack: everything right except the per-upload / per-slot secret
        focus = None
        if force:
            focus = force.get("kind", "UPLOAD")
        elif not wrong_method and r.random() < 0.4:
            if route.name in ("write_share_data", "abort_share_upload") and (si, sh) in self.uploads:
                focus = "UPLOAD"
            elif route.name == "mutable_read_test_write" and self.slot_shares.get(si):
                focus = "WRITE_ENABLER"
        if focus:
            arecipe, auths = "correct", [b"Tahoe-LAFS " + b64(self.swissnum)]
        for member, kind in self.members:
            value = correct_for.get(member) or rb(r, 32)
            if focus:
                kb = kind.encode("ascii")
                if member == focus and force:
                    rec, vals = force["recipe"], [kb + b" " + b64(force["secret"])]
                elif member == focus:
                    other = rb(r, len(value))
                    others = sorted(set(sec for k2, sec in self.uploads.items() if k2 != (si, sh) and sec != value))
                    if focus == "UPLOAD" and others and r.random() < 0.5:
                        # the secret of ANOTHER in-progress upload (same share number elsewhere first)
                        same = sorted(set(sec for k2, sec in self.uploads.items() if k2[1] == sh and k2[0] != si and sec != value))
                        rec, vals = "other-uploads-secret", [kb + b" " + b64(r.choice(same or others))]
                    else:
                        rec, vals = r.choice([
                            ("wrong-value", [kb + b" " + b64(other)]),
                            ("wrong-value", [kb + b" " + b64(other)]),
                            ("dup-correct-then-wrong", [kb + b" " + b64(value), kb + b" " + b64(other)]),
                            ("prefix-of-secret", [kb + b" " + b64(value[:-1])]),
                            ("secret-plus-byte", [kb + b" " + b64(value + b"\x00")]),
                        ])
                elif member in route.required:
                    rec, vals = "correct", [kb + b" " + b64(value)]
                else:
                    rec, vals = "absent", []
            else:
                rec, vals = secret_header_variants(r, kind, value, member in route.required, member.startswith("LEASE"))
            if vals or rec != "absent":
                xrecipes.append("%s:%s" % (member, rec))
            xauths.append(vals)
        if r.random() < 0.05 and not focus:
            xauths.append([r.choice([b"foo-secret QUJD", b"QUJD", b"upload-secret", b" ", b"write-enabler\xc2\xa0QUJD"])])
            xrecipes.append("unknown-kind")
        r.shuffle(xauths)
        xauths = [v for vs in xauths for v in vs]
        garbage = r.random() < 0.05 and route.name != "write_share_data" and not focus
        uploads_before = dict(self.uploads)
        slots_before = dict(self.slots)
        extra, body, cr_ok = self.body_for(route, si, sh, garbage, valid=bool(force))
        path = build_path(route.url, si, sh)
        headers = [("Authorization", a) for a in auths] + [("X-Tahoe-Authorization", x) for x in xauths] + extra

        before = full_state(self.store, self.sis)
        try:
            code, rbody, rheaders = self.store.raw(method, path, headers, body)
        except Exception as e:      # noqa
            ctx.mismatch("request-failed", "raw request raised %s: %s" % (type(e).__name__, e),
                         case=self.case(step, route, method, tkind, arecipe, xrecipes), correspondence="http-status-vs-model")
            return
        after = full_state(self.store, self.sis)
        diff = state_diff(before, after)
        st_before = before[0].get(si, {})
        had_mutable = bool(st_before.get("mutable"))
        case = self.case(step, route, method, tkind, arecipe, xrecipes)
        case.update({"path": path, "authorization": [a.hex() for a in auths], "x_tahoe_authorization": [x.hex() for x in xauths],
                     "status": code})
        ok2xx = 200 <= code < 300

        # ---- direct oracle (the property, with python's base64 as the notion of "decodable") ----
        expected_auth = b"Tahoe-LAFS " + base64.b64encode(self.swissnum)
        carries_swissnum = any(a == expected_auth for a in auths)
        decoded = [oracle_decode(x) for x in xauths]
        malformed = [x for x, d in zip(xauths, decoded) if d is None or d[0] not in kinds.values()]
        carried = {}
        for d in decoded:
            if d is not None:
                carried.setdefault(d[0], []).append(d[1])
        # which route serves this request: Klein/werkzeug match on (URL, method), and HEAD is served by
        # the GET rule of the same URL.  With a varied method that is not the route we started from.
        served = route
        if wrong_method:
            served = None
            for cand in self.routes:
                if cand.url == route.url and (method in cand.methods or (method == "HEAD" and "GET" in cand.methods)):
                    served = cand
        case["served_by"] = served.name if served is not None else None
        required_kinds = set(kinds[m] for m in served.required) if served is not None else set()
        missing = [k for k in required_kinds if k not in carried]
        extra_kinds = [k for k in carried if k in kinds.values() and k not in required_kinds]
        short_lease = [k for k in carried if k.startswith("lease-") for v in carried[k] if len(v) != 32]
        nontrivial = None
        if not carries_swissnum:
            if ok2xx or diff:
                ctx.oracle_fail("no-swissnum-request-accepted:" + route.name,
                                "%s %s without the correct swissnum (%s) got %d%s" % (method, route.name, arecipe, code, ", state changed: " + diff if diff else ""),
                                case=case, expected="401 and unchanged state", observed={"status": code, "state_change": diff})
            elif not wrong_method and code not in (401, 400):
                ctx.oracle_fail("no-swissnum-wrong-status:" + route.name, "request without the correct swissnum answered %d, not 401" % code,
                                case=case, expected=401, observed=code)
        else:
            nontrivial = (route.name, arecipe, tuple(sorted(xrecipes)), tkind, code)
            sname = served.name if served is not None else None
            if served is None and (ok2xx or diff):
                ctx.oracle_fail("unrouted-method-accepted:" + route.name,
                                "%s on %s (no route serves that method there) got %d%s" % (method, route.url, code, ", state changed: " + diff if diff else ""),
                                case=case, expected="405 and unchanged state", observed={"status": code, "state_change": diff})
            if method == "HEAD" and diff:
                ctx.oracle_fail("head-request-changed-state:" + route.name, "HEAD %s changed the state: %s" % (path, diff),
                                case=case, expected="unchanged state", observed=diff)
            if (malformed or missing or extra_kinds or short_lease) and (ok2xx or diff):
                what = ("malformed" if malformed else "missing" if missing else "extra" if extra_kinds else "wrong-length")
                ctx.oracle_fail("bad-secrets-accepted:%s:%s" % (what, sname or route.name),
                                "%s %s (served by %s) with %s secret header(s) %s got %d%s" % (method, route.name, sname, what, xrecipes, code, ", state changed: " + diff if diff else ""),
                                case=case, expected="400/401 and unchanged state", observed={"status": code, "state_change": diff})
            if sname in ("write_share_data", "abort_share_upload") and (si, sh) in uploads_before:
                if uploads_before[(si, sh)] not in carried.get(kinds.get("UPLOAD", "upload-secret"), []) and (ok2xx or diff):
                    ctx.oracle_fail("upload-secret-not-required:" + route.name,
                                    "%s on an in-progress upload without its upload secret got %d%s" % (route.name, code, ", state changed: " + diff if diff else ""),
                                    case=case, expected="401 and unchanged upload", observed={"status": code, "state_change": diff})
            if sname == "mutable_read_test_write" and si in self.slots and had_mutable:
                if self.slots[si] not in carried.get(kinds.get("WRITE_ENABLER", "write-enabler"), []) and (ok2xx or diff):
                    ctx.oracle_fail("write-enabler-not-required",
                                    "read-test-write on an existing slot without its write enabler got %d%s" % (code, ", state changed: " + diff if diff else ""),
                                    case=case, expected="401 and unchanged slot", observed={"status": code, "state_change": diff})
        if not ok2xx or not carries_swissnum:
            leak = CANARY in rbody
            for sec in list(self.uploads.values()) + list(self.slots.values()):
                e64 = base64.b64encode(sec)
                if (sec in rbody or e64 in rbody) and not any(sec in x or e64 in x for x in xauths + auths):
                    leak = True
            if leak:
                ctx.oracle_fail("rejected-response-leaks-data:" + route.name, "a %d response body contains stored share data or a stored secret" % code,
                                case=case, expected="no stored data in the body", observed=rbody[:200])
        ctx.case(nontrivial, kind="%s:%s" % (route.name, "swissnum-ok" if carries_swissnum else "no-swissnum"))
        ctx.count("status:%d" % code)
        if isinstance(step, int) and step < 2 and self.hidx == 0:
            ctx.sample(case)

        # ---- bookkeeping when a request with all the right secrets went through ----
        self.absorb(route, si, sh, code, carried, after, had_mutable)

        # ---- model ----
        if wrong_method:
            return
        if route.name == "write_share_data":
            if cr_ok is None:
                return          # odd Content-Range strings are werkzeug's business
            target = "(TWrite %s %s)" % (t_upkey(si, sh), T.boolean(cr_ok))
        elif route.name == "abort_share_upload":
            if had_mutable:
                return          # immutable API on a storage index holding mutable containers: not an authorisation matter
            target = "(TAbort %s %s)" % (t_upkey(si, sh), T.boolean(sh in st_before.get("immutable", {})))
        elif route.name == "mutable_read_test_write":
            if st_before.get("immutable"):
                return
            if had_mutable and si in slots_before:
                target = "(TRtw %s (Some %s))" % (T.boolean(not garbage), T.bytes_(slots_before[si]))
            else:
                target = "(TRtw %s None)" % T.boolean(not garbage)
        else:
            target = "TPlain"
        term = "status_agrees (auth_status %s %s %s %s %s) %s %s" % (
            T.bytes_(self.swissnum), T.lst([t_secret(m) for m in route.required]), t_uploads(uploads_before),
            t_request(auths, xauths), target, T.N(code), T.boolean(not garbage))
        self.terms.append(term)
        self.info.append(case)

    def absorb(self, route, si, sh, code, carried, after, had_mutable):
        """Keep the legitimate client's books right when a random request happened to be
        fully authorised and did something (learned from the state read back)."""
        from allmydata.storage.common import si_b2a
        ups = after[0].get("__uploads__")
        if ups is not None:
            live = {(s, n): sec for s, n, sec in ups}
            for key in list(self.uploads):
                if key not in live:
                    del self.uploads[key]
                    if key[1] in after[0].get(key[0], {}).get("immutable", {}):
                        self.complete.add(key)
            for key, sec in live.items():
                if key not in self.uploads:
                    self.uploads[key] = sec
                    tail = "/%s/%d" % (si_b2a(key[0]).decode("ascii"), key[1])
                    w = [x for x in after[0]["__writers__"] if x[0].endswith(tail)]
                    self.alloc[key] = w[0][1] if w else 64
                    self.written.setdefault(key, set())
                    if key[0] not in self.sis:
                        self.sis.append(key[0])
        for s in self.sis:
            st = after[0].get(s, {})
            if st.get("mutable"):
                if s == si and route.name == "mutable_read_test_write" and not had_mutable:
                    self.slots[s] = carried.get(self.kinds.get("WRITE_ENABLER", "write-enabler"), [b""])[-1]
                self.slot_shares[s] = set(st["mutable"])
            elif s in self.slots:
                self.slot_shares[s] = set()

    def case(self, step, route, method, tkind, arecipe, xrecipes):
        return {"history": self.hidx, "step": step, "route": route.name, "method": method, "target": tkind,
                "authorization_recipe": arecipe, "secret_recipes": sorted(xrecipes)}

    def cross_upload_scenario(self):
        """Two or three clients upload the SAME share numbers at DIFFERENT storage indexes with
        different upload secrets, at the same time.  Each client's secret is then tried against
        the others' uploads (PATCH and abort), before and after one of the uploads completed:
        a write/abort with another upload's secret must be refused and change nothing."""
        from allmydata.storage.http_client import StorageClientImmutables
        r = self.r
        byname = {x.name: x for x in self.routes}
        if "write_share_data" not in byname or "abort_share_upload" not in byname:
            return
        im = StorageClientImmutables(self.store.client)
        clients = []
        size = 64
        for _ in range(r.choice([2, 2, 3])):
            si, secret = rb(r, 16), rb(r, 20)
            self.sis.append(si)
            try:
                res = self.store.run(im.create(si, {0, 1}, size, secret, rb(r, 32), rb(r, 32)))
            except Exception as e:      # noqa
                self.ctx.count("legit-op-failed:" + type(e).__name__)
                continue
            for sh in res.allocated:
                self.uploads[(si, sh)] = secret
                self.alloc[(si, sh)] = size
                self.written[(si, sh)] = set()
            clients.append((si, secret))
        n = [0]

        def cross(phase):
            for (si_a, sec_a) in clients:
                for (si_b, sec_b) in clients:
                    if si_a == si_b:
                        continue
                    for rname, sh in (("write_share_data", 0), ("abort_share_upload", 1)):
                        if (si_a, sh) in self.uploads:
                            self.attack("cross-%s-%d" % (phase, n[0]), byname[rname],
                                        force={"target": (si_a, sh), "secret": sec_b, "recipe": "other-uploads-secret"})
                            n[0] += 1
        cross("concurrent")
        # one of the uploads completes (its own client, its own secret)
        if clients:
            si0, sec0 = clients[0]
            try:
                prog = self.store.run(im.write_share_chunk(si0, 0, sec0, 0, self.data_for(si0, 0, size)))
                if prog.finished and (si0, 0) in self.uploads:
                    self.complete.add((si0, 0))
                    del self.uploads[(si0, 0)]
            except Exception as e:      # noqa
                self.ctx.count("legit-op-failed:" + type(e).__name__)
        cross("after-completion")
        # ... and a secret nobody has
        for (si_a, _sec) in clients[1:]:
            for rname, sh in (("write_share_data", 0), ("abort_share_upload", 0)):
                if (si_a, sh) in self.uploads:
                    self.attack("cross-random-%d" % n[0], byname[rname],
                                force={"target": (si_a, sh), "secret": rb(r, 20), "recipe": "wrong-value"})
                    n[0] += 1

    def full_disk_scenario(self):
        """The server is nearly full: client B names several shares in one allocation and is given only
        the first, the others are REFUSED (neither allocated nor already there).  Space comes back and
        client A allocates a refused share with its own upload secret while B's share is still in
        progress.  B's secret must not work on A's upload (PATCH, abort); nor may a random one."""
        from allmydata.storage.http_client import StorageClientImmutables
        r = self.r
        byname = {x.name: x for x in self.routes}
        if "write_share_data" not in byname or "abort_share_upload" not in byname:
            return
        im = StorageClientImmutables(self.store.client)
        ss = self.store.ss
        size = 64
        si = rb(r, 16)
        self.sis.append(si)
        asked = set(r.choice([(4, 6), (0, 1, 2), (1, 3), (2, 5, 7)]))
        sec_b, sec_a = rb(r, 20), rb(r, 20)
        ss.get_available_space = lambda: ss.allocated_size() + size + 50      # room for exactly one more share
        try:
            res_b = self.store.run(im.create(si, asked, size, sec_b, rb(r, 32), rb(r, 32)))
        except Exception as e:      # noqa
            self.ctx.count("legit-op-failed:" + type(e).__name__)
            return
        finally:
            del ss.get_available_space                                          # space becomes available again
        for sh in res_b.allocated:
            self.uploads[(si, sh)] = sec_b
            self.alloc[(si, sh)] = size
            self.written[(si, sh)] = set()
        refused = sorted(asked - set(res_b.allocated) - set(res_b.already_have))
        self.ctx.count("full-disk:refused-shares", len(refused))
        if not refused or not res_b.allocated:
            return
        try:
            res_a = self.store.run(im.create(si, set(refused), size, sec_a, rb(r, 32), rb(r, 32)))
        except Exception as e:      # noqa
            self.ctx.count("legit-op-failed:" + type(e).__name__)
            return
        mine = sorted(res_a.allocated)
        for sh in mine:
            self.uploads[(si, sh)] = sec_a
            self.alloc[(si, sh)] = size
            self.written[(si, sh)] = set()
        n = 0
        for sh in mine:
            # the owner's own secret keeps working (not part of the property: counted, not judged)
            try:
                self.store.run(im.write_share_chunk(si, sh, sec_a, 0, self.data_for(si, sh, size)[:8]))
                self.written[(si, sh)] |= set(range(8))
            except Exception as e:      # noqa
                self.ctx.count("legit-op-failed:" + type(e).__name__)
            for rname, secret, recipe in (("write_share_data", sec_b, "refused-allocators-secret"),
                                          ("write_share_data", rb(r, 20), "wrong-value"),
                                          ("abort_share_upload", sec_b, "refused-allocators-secret")):
                if (si, sh) in self.uploads:
                    self.attack("full-disk-%d" % n, byname[rname], force={"target": (si, sh), "secret": secret, "recipe": recipe})
                    n += 1
        # and the other way round: A's secret on the share B is still uploading
        for sh in sorted(res_b.allocated):
            if (si, sh) in self.uploads:
                self.attack("full-disk-%d" % n, byname["write_share_data"],
                            force={"target": (si, sh), "secret": sec_a, "recipe": "other-uploads-secret"})
                n += 1

    def slot_recreate_scenario(self):
        """A slot is created and written by its owner, its shares go away (read-test-write with
        new_length 0, or the bucket directory removed out of band), and somebody else re-creates a slot
        at the SAME storage index with ANOTHER write enabler.  A read-test-write carrying the previous
        owner's enabler (or a random one) must be refused and change nothing."""
        from allmydata.storage.http_client import StorageClientMutables, TestWriteVectors, WriteVector
        from allmydata.storage.common import storage_index_to_dir
        r = self.r
        byname = {x.name: x for x in self.routes}
        if "mutable_read_test_write" not in byname:
            return
        mu = StorageClientMutables(self.store.client)
        si = rb(r, 16)
        self.sis.append(si)
        w_old, w_new = rb(r, 32), rb(r, 32)
        shares = r.choice([[0], [0, 1], [0, 2]])
        variant = r.choice(["new-length-0", "new-length-0", "directory-removed"])

        def rtw(we, tw):
            res = self.store.run(mu.read_test_write_chunks(si, we, rb(r, 32), rb(r, 32), tw, []))
            assert res.success
        try:
            rtw(w_old, {sh: TestWriteVectors(write_vectors=[WriteVector(offset=0, data=self.data_for(si, sh, 40))]) for sh in shares})
            # the owner writes again: its enabler has now been verified against the shares' headers
            for _ in range(r.choice([1, 2])):
                rtw(w_old, {sh: TestWriteVectors(write_vectors=[WriteVector(offset=r.choice([0, 40]), data=b"again")]) for sh in shares})
            if variant == "new-length-0":
                rtw(w_old, {sh: TestWriteVectors(new_length=0) for sh in shares})
            else:
                shutil.rmtree(os.path.join(self.store.ss.sharedir, storage_index_to_dir(si)))
            # another owner, another write enabler, same storage index and share numbers
            rtw(w_new, {sh: TestWriteVectors(write_vectors=[WriteVector(offset=0, data=self.data_for(si, sh, 50))]) for sh in shares})
        except Exception as e:      # noqa
            self.ctx.count("legit-op-failed:" + type(e).__name__)
            return
        self.ctx.count("slot-recreated:" + variant)
        self.slots[si] = w_new
        self.slot_shares[si] = set(shares)
        n = 0
        for sh in shares:
            for secret, recipe in ((w_old, "previous-owners-enabler"), (rb(r, 32), "wrong-value")):
                self.attack("slot-recreate-%d" % n, byname["mutable_read_test_write"],
                            force={"target": (si, sh), "secret": secret, "recipe": recipe, "kind": "WRITE_ENABLER"})
                n += 1
        # the new owner's enabler keeps working (counted, not judged), then the old one again
        try:
            rtw(w_new, {shares[0]: TestWriteVectors(write_vectors=[WriteVector(offset=3, data=b"mine")])})
        except Exception as e:      # noqa
            self.ctx.count("legit-op-failed:" + type(e).__name__)
        self.attack("slot-recreate-%d" % n, byname["mutable_read_test_write"],
                    force={"target": (si, shares[0]), "secret": w_old, "recipe": "previous-owners-enabler", "kind": "WRITE_ENABLER"})

    def two_servers_scenario(self):
        """One process, two HTTP storage servers with different swissnums (they share the class-level
        Klein app).  Every endpoint is first used on one server with its own swissnum, then the other
        server is asked with the FIRST server's swissnum -- and the other way round.  A request without
        THIS server's swissnum gets 401 and changes nothing."""
        ctx = self.ctx
        r = self.r
        other_dir = self.dir + "-second"
        shutil.rmtree(other_dir, ignore_errors=True)
        os.makedirs(other_dir)
        sw2 = rb(r, len(self.swissnum))
        while sw2 == self.swissnum:
            sw2 = rb(r, len(self.swissnum) or 1)
        second = HttpStore(other_dir, sw2, clock=self.store.clock)
        servers = [("first", self.store), ("second", second)]
        si, sh = rb(r, 16), 0
        n = 0
        try:
            for route in self.routes:
                method = route.methods[0]
                path = build_path(route.url, si, sh)
                for (own_name, own), (other_name, other) in (servers, servers[::-1]):
                    def request(store, swissnum):
                        extra, body, _ = self.body_for(route, si, sh, False, valid=True)
                        headers = [("Authorization", b"Tahoe-LAFS " + b64(swissnum))]
                        for member, kind in self.members:
                            if member in route.required:
                                headers.append(("X-Tahoe-Authorization", kind.encode("ascii") + b" " + b64(rb(r, 32))))
                        return store.raw(method, path, headers + extra, body)
                    # the endpoint is used on `own` with its own swissnum ...
                    try:
                        request(own, own.swissnum)
                    except Exception as e:      # noqa
                        ctx.count("legit-op-failed:" + type(e).__name__)
                    # ... then `other` is asked with own's swissnum, and with the swissnums of the oldest
                    # servers of this process (whoever used the endpoint first)
                    foreign = [(own.swissnum, "the %s server's" % own_name)]
                    for i, sw in enumerate(SWISSNUMS_IN_PROCESS[:1]):
                        if sw != other.swissnum and sw != own.swissnum:
                            foreign.append((sw, "that of server #%d of this process" % i))
                    for presented, whose in foreign:
                        before = full_state(other, [si])
                        code, rbody, _ = request(other, presented)
                        after = full_state(other, [si])
                        diff = state_diff(before, after)
                        case = {"history": self.hidx, "step": "two-servers-%d" % n, "route": route.name, "method": method, "path": path,
                                "asked": other_name + " server", "swissnum_presented": whose, "status": code}
                        n += 1
                        ctx.case(None, kind="%s:other-servers-swissnum" % route.name)
                        ctx.count("status:%d" % code)
                        if 200 <= code < 300 or diff:
                            ctx.oracle_fail("no-swissnum-request-accepted:" + route.name,
                                            "%s %s on the %s server with %s swissnum (same process, endpoint already used by that server) got %d%s"
                                            % (method, route.name, other_name, whose, code, ", state changed: " + diff if diff else ""),
                                            case=case, expected="401 and unchanged state", observed={"status": code, "state_change": diff})
                        elif code != 401:
                            ctx.oracle_fail("no-swissnum-wrong-status:" + route.name,
                                            "request with another server's swissnum answered %d, not 401" % code, case=case, expected=401, observed=code)
        finally:
            shutil.rmtree(other_dir, ignore_errors=True)

    def run(self, nsteps):
        self.setup()
        self.two_servers_scenario()
        self.cross_upload_scenario()
        self.full_disk_scenario()
        self.slot_recreate_scenario()
        order = list(self.routes)
        self.r.shuffle(order)
        for step in range(nsteps):
            if self.r.random() < 0.22:
                self.legit_step()
            route = order[step % len(order)]
            self.attack(step, route)
        shutil.rmtree(self.dir, ignore_errors=True)


# =============================================================================
# _extract_secrets called directly
# =============================================================================
def extract_cases(ctx, members, n):
    from allmydata.storage.http_server import _extract_secrets, ClientSecretsException
    from allmydata.storage.http_common import Secrets
    ctx.correspondence("extract-secrets-vs-model")
    names = [m for m, _ in members]
    kinds = dict(members)
    terms, info = [], []
    spaces = [" ", "\t", "\n", "\x0b", "\x0c", "\r", "\x1c", "\x1f", "\x85", "\xa0", "\u1680", "\u2000", "\u200a", "\u2028",
              "\u2029", "\u202f", "\u205f", "\u3000", "\u200b", "\ufeff", "\x1b", "\x00"]
    for i in range(n):
        r = ctx.rng("extract", i)
        required = [m for m in names if r.random() < 0.4]
        hs = []
        for m in names:
            if m in required and r.random() < 0.85 or m not in required and r.random() < 0.12:
                length = 32 if m.startswith("LEASE") else r.choice([1, 16, 20, 32, 33])
                if r.random() < 0.1:
                    length = r.choice([0, 1, 31, 33])
                enc = base64.b64encode(rb(r, length)).decode("ascii")
                mode = r.random()
                if mode < 0.1 and enc:
                    pos = r.randrange(len(enc) + 1)
                    enc = enc[:pos] + r.choice(["!", " ", "=", "\n", "-", "_", "A", "é", "=="]) + enc[pos:]
                elif mode < 0.16:
                    enc = enc.rstrip("=")
                elif mode < 0.2:
                    enc = enc[:-1]
                elif mode < 0.23:
                    enc = "".join(r.choice("AB=+/ !a0") for _ in range(r.randrange(9)))
                sep = " " if r.random() < 0.9 else r.choice(["", "\t", "  ", "\xa0", ":"])
                kind = kinds[m] if r.random() < 0.93 else r.choice([kinds[m].upper(), kinds[m] + "s", "", m])
                h = kind + sep + enc
                if r.random() < 0.15:
                    h = r.choice(spaces) + h
                if r.random() < 0.15:
                    h = h + r.choice(spaces)
                hs.append(h)
                if r.random() < 0.1:
                    hs.append(r.choice([h, kinds[m] + " " + base64.b64encode(rb(r, 32)).decode("ascii")]))
        r.shuffle(hs)
        req_set = set(getattr(Secrets, m) for m in required)
        try:
            res = _extract_secrets(list(hs), req_set)
            cls = 0
            got = [(k.name, bytes(v)) for k, v in res.items()]
        except ClientSecretsException as e:
            msg = str(e)
            cls = (1 if msg.startswith("Bad header value") else 2 if msg.startswith("Failed to decode") else
                   3 if msg.startswith("Lease secrets must") else 4 if msg.startswith("Expected") else 8)
            got = None
        except Exception as e:      # noqa
            cls = 9
            got = type(e).__name__
        case = {"headers": hs, "required": required, "class": cls}
        ctx.case((tuple(hs), tuple(required)) if cls == 0 else None, kind="extract:class%d" % cls)
        # oracle: a result is only ever returned when every header is a well-formed, required secret
        if cls == 0:
            dec = [oracle_decode(h.encode("utf8", "surrogatepass")) for h in hs]
            bad = [h for h, d in zip(hs, dec) if d is None or d[0] not in kinds.values()]
            ks = set(d[0] for d in dec if d)
            if bad or ks != set(kinds[m] for m in required):
                ctx.oracle_fail("extract-secrets-accepts-bad-headers", "_extract_secrets returned secrets for headers %r, required %r" % (hs, required),
                                case=case, expected="ClientSecretsException", observed=repr(got))
        if cls == 9:
            ctx.oracle_fail("extract-secrets-unexpected-exception", "_extract_secrets raised %s" % got, case=case,
                            expected="dict or ClientSecretsException", observed=got)
        hterm = T.lst([t_str(h) for h in hs])
        rterm = T.lst([t_secret(m) for m in required])
        if cls == 0:
            exp = T.lst(["(%s, %s)" % (t_secret(k), T.bytes_(v)) for k, v in got])
            terms.append("extract_ok_eqb %s %s %s" % (hterm, rterm, exp))
        else:
            terms.append("(extract_class %s %s =? %s)" % (hterm, rterm, T.N(cls)))
        info.append(case)
    # base64 model vs library
    for i in range(n):
        r = ctx.rng("b64", i)
        if r.random() < 0.5:
            raw = rb(r, r.randrange(0, 40))
            terms.append("list_N_eqb (b64encode %s) %s" % (T.bytes_(raw), T.bytes_(base64.b64encode(raw))))
            info.append({"b64encode": raw.hex()})
            ctx.case(("enc", raw), kind="base64-encode")
        else:
            s = bytes(r.choice(b"ABab01+/9z==== !\n-_\x7f\xc3") for _ in range(r.randrange(0, 14)))
            try:
                got = base64.b64decode(s.decode("latin1"))
            except (ValueError, binascii.Error):
                got = None
            terms.append("option_list_eqb (b64decode %s) %s" % (T.bytes_(s), T.opt(T.bytes_(got)) if got is not None else "None"))
            info.append({"b64decode": s.hex()})
            ctx.case(("dec", s) if got else None, kind="base64-decode")
    bad = ctx.coq_check(IMPORTS, terms, tag="c30ext")
    for ix in bad:
        ctx.mismatch("extract-secrets-model-vs-impl", "Model.HttpAuth and the implementation differ on %r" % (info[ix],),
                     case=info[ix], correspondence="extract-secrets-vs-model")
    ctx.trace(len(terms) - len(bad))


# =============================================================================
# route table against the running application
# =============================================================================
def check_routes(ctx, members, routes):
    ctx.correspondence("route-table-vs-klein-url-map")
    live = set(runtime_rules())
    table = set((r.url, frozenset(r.methods), r.name) for r in routes) if routes is not None else live
    if table != live:
        ctx.mismatch("route-table-vs-runtime", "translated route table and Klein's url_map differ: only in table %r, only at run time %r"
                     % (sorted(map(str, table - live)), sorted(map(str, live - table))),
                     case={"table_only": sorted(map(str, table - live)), "runtime_only": sorted(map(str, live - table))},
                     correspondence="route-table-vs-klein-url-map")
    else:
        ctx.trace(len(table))
    # direct oracle for `every_route_authorised`: every registered rule refuses a request without credentials
    d = os.path.join(env.subdir("c30"), "routes-%d" % os.getpid())
    os.makedirs(d, exist_ok=True)
    store = HttpStore(d, b"route-check-swissnum")
    si = b"\x01" * 16
    for rule, methods, endpoint in sorted(live, key=str):
        for m in sorted(methods) + (["HEAD"] if "GET" in methods else []):
            try:
                path = build_path(rule, si, 0)
            except ValueError as e:
                ctx.mismatch("route-not-exercised", str(e), case={"rule": rule}, correspondence="route-table-vs-klein-url-map")
                continue
            body = None
            before = full_state(store, [si])
            code, rbody, _ = store.raw(m, path, [], body)
            after = full_state(store, [si])
            ctx.case(None, kind="no-credentials:" + endpoint)
            if code != 401 or before != after:
                ctx.oracle_fail("route-without-authorisation:" + endpoint,
                                "%s %s without any credentials answered %d%s" % (m, rule, code, " and changed the state" if before != after else ""),
                                case={"rule": rule, "method": m, "endpoint": endpoint}, expected=401, observed=code)
    for r in routes or []:
        if not r.authorised:
            ctx.note("route %s is registered without _authorized_route" % r.name)
    shutil.rmtree(d, ignore_errors=True)


def run(ctx):
    ctx.correspondence("http-status-vs-model")
    try:
        members, routes = route_table()
    except Exception as e:      # noqa  (TranslatorAbort: a route-registering construct the translator does not know)
        ctx.mismatch("route-table-not-translatable", "the route table cannot be extracted from http_server.py: %s" % e,
                     correspondence="route-table-vs-klein-url-map")
        # still sweep whatever Klein registered at run time for routes that answer without credentials
        check_routes(ctx, [], None)
        return
    check_routes(ctx, members, routes)
    extract_cases(ctx, members, ctx.n(300, 4000))
    nh = ctx.n(9, 80)
    steps = ctx.n(60, 120)
    terms, info = [], []
    for h in range(nh):
        H = History(ctx, h, members, routes)
        H.run(steps)
        terms += H.terms
        info += H.info
    bad = ctx.coq_check(IMPORTS, terms, tag="c30http")
    for ix in bad:
        ctx.mismatch("auth-status-model-vs-impl:" + info[ix]["route"],
                     "Model.HttpAuth.auth_status and the HTTP server disagree on %s (%s; %s): server answered %d"
                     % (info[ix]["route"], info[ix]["authorization_recipe"], info[ix]["secret_recipes"], info[ix]["status"]),
                     case=info[ix], observed=info[ix]["status"], correspondence="http-status-vs-model")
    ctx.trace(len(terms) - len(bad))


def replay(ctx, rec):
    """Re-run the recorded history; failures of any step are reported again."""
    case = rec.get("case") or {}
    members, routes = route_table()
    if "history" in case:
        H = History(ctx, case["history"], members, routes)
        step = case.get("step", 0)
        step = step if isinstance(step, int) else 0       # "cross-...": the scenario at the start of every history
        H.run(max(step + 1, 1))
        return {"history": case["history"], "steps_run": step + 1,
                "failures": [f["kind"] for f in ctx.failures]}
    if "headers" in case:
        from allmydata.storage.http_server import _extract_secrets
        from allmydata.storage.http_common import Secrets
        try:
            return repr(_extract_secrets(case["headers"], set(getattr(Secrets, m) for m in case["required"])))
        except Exception as e:      # noqa
            return "%s: %s" % (type(e).__name__, e)
    check_routes(ctx, members, routes)
    return {"failures": [f["kind"] for f in ctx.failures]}
