"""C09  Mutable files read back what one writer wrote."""
import contextlib

from core import term as T

ID = "C09"
GEN = []
RULE = ("grid cases: one history = create + up to 8 operations (overwrite, modify, update, append) on one SDMF or MDMF file with k in 1..3, "
        "DEFAULT_MUTABLE_MAX_SEGMENT_SIZE patched to 24..40 bytes (files of 0..9 segments, sizes and update offsets/lengths on and around "
        "segment boundaries and the 1/2/4/8-segment counts; modifiers returning None, the unchanged contents, b\"\" and one byte) or to 512 bytes (files of a few KB), full and partial reads after every "
        "operation, in some histories one share number falls back to the previous version or is lost before an update, server response order drawn from the case seed; non-trivial = at least one in-place (MDMF) update or a multi-segment "
        "read; distinct = distinct (format, k, segment size, operations).  Pure cases: every (old size, offset, length) for small segment "
        "sizes driven through the real TransformingUploadable / setup_encoding_parameters / Retrieve range selection")
META = {
    "title": "Mutable files read back what one writer wrote",
    "level_text": ("Theorems in Coq over a statement-level model of the data path of mutable files (segment size selection, "
                   "TransformingUploadable.read, which segments Publish.update rewrites, Retrieve's segment range selection and trimming): "
                   "for EVERY history of overwrite / modify / update operations whose update offsets do not exceed the current size, every "
                   "segment size and k, the model's full and partial reads return exactly the bytes of the reference byte string; an "
                   "in-place update is the splice, changes only [offset, offset+len) and extends the file iff it writes past the end.  "
                   "The model is compared with the real TransformingUploadable, Publish.setup_encoding_parameters, "
                   "MutableFileVersion._update/_do_update_update and Retrieve._setup_encoding_parameters/_set_segment on exhaustive small "
                   "scopes, and SDMF/MDMF histories are run on a real in-process grid with a bytearray as oracle."),
    "level_note": ("core (partial): AES, zfec, salts, hash trees, signatures, share layout and the network are abstracted to 'a stored segment "
                   "decodes to what was encoded' (C10/C47 cover integrity); that abstraction is tied to the code only by the grid histories. "
                   "DEFAULT_MUTABLE_MAX_SEGMENT_SIZE is replaced by module-attribute substitution (allmydata.mutable.publish) so that "
                   "multi-segment files stay small; the segment arithmetic is proved for every segment size.  One writer, fault-free grid."),
    "technique": "Coq proof over an executable model of the segment arithmetic + differential run on real objects + grid histories with a bytearray oracle",
    "design_ref": "8/C09",
    "trusted_base": ["Model/MutFile.v as a reading of mutable/publish.py, filenode.py, retrieve.py",
                     "driver's transcription of Publish.update's datalength rule and the push_segment loop in the pure cases"],
    "assumptions": ["update offsets <= current size (MDMF asserts it; SDMF past EOF is a recorded finding)",
                    "k and DEFAULT_MUTABLE_MAX_SEGMENT_SIZE do not change during a history"],
}
IMPORTS = ["Lib.Hex", "Model.MutFile"]

PREAMBLE = """
Local Open Scope nat_scope.
Definition obs_ok (f : mfile) (o : nat * option nat * option bytes) : bool :=
  let '(off, sz, res) := o in opt_bytes_eqb (retrieve_read f off sz) res.
Fixpoint run_check (maxseg : nat) (f : mfile) (steps : list (op * bool * list (nat * option nat * option bytes))) : bool :=
  match steps with
  | [] => true
  | (o, ok, reads) :: r =>
      match apply_impl maxseg f o with
      | Some f' => ok && forallb (obs_ok f') reads && run_check maxseg f' r
      | None => negb ok
      end
  end.
Definition hist_check (sdmf : bool) (maxseg k : nat) (init : bytes) (reads0 : list (nat * option nat * option bytes))
           (steps : list (op * bool * list (nat * option nat * option bytes))) : bool :=
  match publish sdmf maxseg k init with
  | Some f => forallb (obs_ok f) reads0 && run_check maxseg f steps
  | None => false
  end.
Definition upd_check (maxseg k : nat) (old data : bytes) (off : nat) (want : option (nat * nat * list bytes)) : bool :=
  match publish false maxseg k old with
  | None => false
  | Some f =>
      match update_in_place maxseg f data off, want with
      | Some f', Some (seg, len, segs) => (mf_segsize f' =? seg) && (mf_len f' =? len) && list_bytes_eqb (mf_segs f') segs
      | None, None => true
      | _, _ => false
      end
  end.
"""


def div_ceil(n, d):
    return -(-n // d)


def next_multiple(n, k):
    return div_ceil(n, k) * k


@contextlib.contextmanager
def segsize_patch(maxseg):
    """DEFAULT_MUTABLE_MAX_SEGMENT_SIZE is read as a module global by
    Publish.setup_encoding_parameters (its only use): substitute it."""
    import allmydata.mutable.publish as P
    old = P.DEFAULT_MUTABLE_MAX_SEGMENT_SIZE
    P.DEFAULT_MUTABLE_MAX_SEGMENT_SIZE = maxseg
    try:
        yield
    finally:
        P.DEFAULT_MUTABLE_MAX_SEGMENT_SIZE = old


def rbytes(r, n):
    return bytes(r.getrandbits(8) for _ in range(n))


# --------------------------------------------------------------------------------------
# Coq rendering
# --------------------------------------------------------------------------------------
def coq_modifier(m):
    kind = m[0]
    if kind == "none":
        return "(fun _ : bytes => @None bytes)"
    if kind == "same":
        return "(fun old : bytes => Some old)"
    if kind == "cut":        # old[:c] + ins
        return "(fun old : bytes => Some (firstn %s old ++ %s))" % (T.nat(m[1]), T.bytes_(m[2]))
    if kind == "prepend":
        return "(fun old : bytes => Some (%s ++ old))" % T.bytes_(m[1])
    if kind == "const":      # the modifier ignores the old contents (b"" = truncate to nothing)
        return "(fun _ : bytes => Some %s)" % T.bytes_(m[1])
    raise ValueError(m)


def py_modifier(m):
    kind = m[0]
    if kind == "none":
        return lambda old, sm, ft: None
    if kind == "same":
        return lambda old, sm, ft: old
    if kind == "cut":
        return lambda old, sm, ft: old[:m[1]] + m[2]
    if kind == "prepend":
        return lambda old, sm, ft: m[1] + old
    if kind == "const":
        return lambda old, sm, ft: m[1]
    raise ValueError(m)


def ref_modifier(m, ref):
    kind = m[0]
    if kind in ("none", "same"):
        return bytes(ref)
    if kind == "cut":
        return bytes(ref[:m[1]]) + m[2]
    if kind == "const":
        return m[1]
    return m[1] + bytes(ref)


def coq_op(op):
    if op[0] == "overwrite":
        return "OpOverwrite %s" % T.bytes_(op[1])
    if op[0] == "modify":
        return "OpModify %s" % coq_modifier(op[1])
    return "OpUpdate %s %s" % (T.bytes_(op[1]), T.nat(op[2]))


def coq_obs(reads):
    return T.lst(["(%s, %s, %s)" % (T.nat(off), "None" if sz is None else "Some %s" % T.nat(sz),
                                    "None" if res is None else "Some %s" % T.bytes_(res)) for (off, sz, res) in reads])


# --------------------------------------------------------------------------------------
# 1. pure pieces on real objects
# --------------------------------------------------------------------------------------
class _Sized(object):
    def __init__(self, n):
        self.n = n

    def get_size(self):
        return self.n


def real_setup_encoding(sdmf, maxseg, k, datalength, data_size, offset):
    """Publish.setup_encoding_parameters on a bare Publish object."""
    from allmydata.mutable.publish import Publish
    from allmydata.interfaces import SDMF_VERSION, MDMF_VERSION
    p = Publish.__new__(Publish)
    p._version = SDMF_VERSION if sdmf else MDMF_VERSION
    p.datalength = datalength
    p.required_shares = k
    p.total_shares = k + 2
    p.data = _Sized(data_size)
    p.log = lambda *a, **kw: None
    with segsize_patch(maxseg):
        p.setup_encoding_parameters(offset=offset)
    return p


def real_update_dispatch(sdmf, segsize, old_size, data, offset):
    """MutableFileVersion._update / _do_update_update on a bare version object: which path is taken
    and which old segments are requested.  -> ("modify",) | ("inplace", start, end) | ("error", class)"""
    from twisted.internet import defer
    from allmydata.mutable.filenode import MutableFileVersion
    from allmydata.mutable.publish import MutableData

    class SM(object):
        def size_of_version(self, v):
            return v[4]
    v = MutableFileVersion.__new__(MutableFileVersion)
    v._version = (1, b"r" * 32, b"i" * 16 if sdmf else b"", segsize, old_size, 1, 3, b"prefix", ())
    v._servermap = SM()
    v._writekey = b"w"
    out = []
    v._do_modify_update = lambda d, o: out.append(("modify",)) or defer.succeed(None)
    v._update_servermap = lambda mode=None, update_range=None: out.append(("inplace",) + tuple(update_range)) or defer.Deferred()
    try:
        v._update(MutableData(data), offset)
    except Exception as e:  # the assertion / ZeroDivisionError the caller would see as a failed Deferred
        return ("error", type(e).__name__)
    return out[0]


def real_inplace_update(maxseg, k, old, data, offset):
    """The in-place path on real objects: _do_update_update's segment choice, TransformingUploadable,
    Publish.setup_encoding_parameters; the three datalength lines of Publish.update and the
    push_segment/_encode_segment read loop are transcribed here.
    -> ("error", cls) | ("ok", segsize, datalength, [stored plaintext segments])"""
    from allmydata.mutable.publish import TransformingUploadable, MutableData
    seg = next_multiple(maxseg, k)
    disp = real_update_dispatch(False, seg, len(old), data, offset)
    if disp[0] != "inplace":
        return disp
    _, ss, es = disp
    nseg = div_ceil(len(old), seg)
    if not (0 <= ss < nseg):
        return ("error", "no-start-segment")
    start = old[ss * seg:(ss + 1) * seg]
    end = old[es * seg:(es + 1) * seg] if es >= 0 else b"garbage-before-share-data"
    u = TransformingUploadable(MutableData(data), offset, seg, start, end)
    datalength = len(old)                       # Publish.update: self.datalength = version[4]
    if u.get_size() > datalength:               #                 if data.get_size() > self.datalength:
        datalength = u.get_size()
    p = real_setup_encoding(False, maxseg, k, datalength, u.get_size(), offset)
    segs = [old[i * seg:(i + 1) * seg] for i in range(nseg)]
    segnum = p.starting_segment                 # push_segment loop
    pushed = []
    while not segnum > p.end_segment:
        want = p.tail_segment_size if segnum + 1 == p.num_segments else p.segment_size
        d = u.read(want)
        if not isinstance(d, bytes):
            d = b"".join(d)
        if len(d) != want:
            return ("error", "AssertionError")
        pushed.append(d)
        segnum += 1
    new = segs[:p.starting_segment] + pushed + segs[p.end_segment + 1:]
    return ("ok", p.segment_size, datalength, new, (p.starting_segment, p.end_segment), (ss, es))


def flush_pool(ctx, pool, tag):
    """One coq_check for several sections: pool entries are (term, mismatch kind, what, case, correspondence)."""
    bad = ctx.coq_check(IMPORTS, [e[0] for e in pool], preamble=PREAMBLE, tag=tag, shard=350)
    for b in bad:
        _, kind, what, case, corr = pool[b]
        ctx.mismatch(kind, what, case=case, correspondence=corr)
    ctx.trace(len(pool) - len(bad))
    del pool[:]


def pure_update_cases(ctx, pool):
    """Exhaustive small scopes through the real in-place pieces; oracle = bytearray splice."""
    ctx.correspondence("in-place-update-on-real-objects-vs-model")
    scopes = [(3, 1), (4, 2), (6, 3)] if ctx.tier == "quick" and not ctx.search else [(2, 1), (3, 1), (4, 2), (5, 1), (6, 3), (6, 2)]
    terms, info = [], []
    for (maxseg, k) in scopes:
        seg = next_multiple(maxseg, k)
        for size in range(0, 4 * seg + 2):
            r = ctx.rng("pure", maxseg, k, size)
            old = rbytes(r, size)
            for offset in range(0, size + 2):          # size+1: past the end
                for L in sorted(set([0, 1, 2, seg - 1, seg, seg + 1, 2 * seg, 2 * seg + 1,
                                     max(0, size - offset), max(0, size - offset - 1), size - offset + 1 if size >= offset else 0])):
                    data = rbytes(r, L)
                    res = real_inplace_update(maxseg, k, old, data, offset)
                    inscope = offset <= size
                    case = {"maxseg": maxseg, "k": k, "old": old.hex(), "data": data.hex(), "offset": offset}
                    kind = "pure:" + res[0]
                    deep = res[0] == "ok" and res[4][1] > res[4][0]
                    ctx.case((maxseg, k, size, offset, L) if deep else None, kind=kind)
                    ref = bytearray(old)
                    if inscope:
                        ref[offset:offset + L] = data
                    want = None
                    if res[0] == "ok":
                        _, sg, dl, segs, _, fetched = res
                        got = b"".join(segs)
                        want = (sg, dl, [s + b"\x00" * (next_multiple(len(s), k) - len(s)) for s in segs])
                        if not inscope:
                            ctx.oracle_fail("update-past-eof-accepted:mdmf", "MDMF in-place path accepted offset %d > size %d" % (offset, size), case=case)
                        elif got != bytes(ref) or dl != len(ref):
                            ctx.oracle_fail("in-place-update-differs-from-splice",
                                            "in-place update of %d bytes at %d of a %d-byte file (segment size %d) produced %d bytes that differ from the splice"
                                            % (L, offset, size, seg, len(got)), case=case, expected=bytes(ref).hex(), observed=got.hex())
                    elif res[0] == "modify":
                        # re-encoding path: only for an append at a segment boundary (checked by the model below)
                        if not (inscope and offset == size and size % seg == 0):
                            ctx.oracle_fail("update-path-choice", "re-encoding path chosen for offset %d size %d seg %d" % (offset, size, seg), case=case)
                    elif inscope:
                        ctx.oracle_fail("update-failed:mdmf:" + str(res[1]), "in-place update of %d bytes at offset %d of a %d-byte MDMF file (segment size %d) fails: %s"
                                        % (L, offset, size, seg, res[1]), case=case)
                    # model: dispatch + in-place result
                    if res[0] == "modify":
                        terms.append("(match publish false %s %s %s with Some f => (negb (mf_segsize f =? 0)) && (%s =? mf_len f) && (%s / mf_segsize f =? div_ceil (mf_len f) (mf_segsize f)) | None => false end)"
                                     % (T.nat(maxseg), T.nat(k), T.bytes_(old), T.nat(offset), T.nat(offset)))
                    else:
                        w = "None" if want is None else "(Some (%s, %s, %s))" % (T.nat(want[0]), T.nat(want[1]), T.lst([T.bytes_(s) for s in want[2]]))
                        nofallback = "(match publish false %s %s %s with Some f => negb ((%s =? mf_len f) && (%s / mf_segsize f =? div_ceil (mf_len f) (mf_segsize f))) | None => false end)" % (
                            T.nat(maxseg), T.nat(k), T.bytes_(old), T.nat(offset), T.nat(offset))
                        fetch = "true"
                        if res[0] == "ok" and offset + L > 0:      # which old segments _do_update_update asks for (segment -1 for an empty update at 0)
                            fetch = "(Nat.eqb (%s / %s) %s && Nat.eqb (update_end_segment %s %s %s %s) %s)" % (
                                T.nat(offset), T.nat(seg), T.nat(fetched[0]), T.nat(size), T.nat(seg), T.nat(offset), T.nat(L), T.nat(fetched[1]))
                        terms.append("(%s && %s && upd_check %s %s %s %s %s %s)" % (nofallback, fetch, T.nat(maxseg), T.nat(k), T.bytes_(old), T.bytes_(data), T.nat(offset), w))
                    info.append(case)
    # thin the model comparison in the quick tier (the oracle above saw every case)
    if ctx.tier == "quick" and not ctx.search:
        r = ctx.rng("pure-thin")
        idx = sorted(r.sample(range(len(terms)), min(len(terms), 600)))
    else:
        idx = list(range(len(terms)))
    for i in idx:
        pool.append((terms[i], "in-place-update-model-differs", "update_in_place (model) and the real in-place pieces disagree", info[i],
                     "in-place-update-on-real-objects-vs-model"))


def tu_cases(ctx, pool):
    """TransformingUploadable.read on arbitrary read sequences (also unaligned ones)."""
    ctx.correspondence("TransformingUploadable-vs-model")
    from allmydata.mutable.publish import TransformingUploadable, MutableData
    terms, info = [], []
    n = ctx.n(300, 3000)
    for i in range(n):
        r = ctx.rng("tu", i)
        seg = r.choice([1, 2, 3, 4, 5, 8])
        offset = r.randrange(0, 4 * seg + 1)
        data = rbytes(r, r.choice([0, 1, seg - 1, seg, seg + 1, 2 * seg, r.randrange(3 * seg + 1)]))
        start = rbytes(r, r.choice([seg, seg, r.randrange(seg + 1)]))
        end = rbytes(r, r.choice([seg, seg, r.randrange(seg + 1)]))
        if r.random() < 0.6:
            lens = [seg] * r.randrange(0, 5) + [r.randrange(0, seg + 1)]
        else:
            lens = [r.randrange(0, 2 * seg + 2) for _ in range(r.randrange(1, 6))]
        u = TransformingUploadable(MutableData(data), offset, seg, start, end)
        outs = [u.read(ln) for ln in lens]
        ctx.case((seg, offset, data, start, end, tuple(lens)), kind="tu-reads")
        terms.append("(list_bytes_eqb (tu_reads (tu_init %s %s %s %s %s) %s) %s && (tu_size (tu_init %s %s %s [] []) =? %s))" % (
            T.bytes_(data), T.nat(offset), T.nat(seg), T.bytes_(start), T.bytes_(end), T.lst([T.nat(x) for x in lens]),
            T.lst([T.bytes_(o) for o in outs]), T.bytes_(data), T.nat(offset), T.nat(seg), T.nat(u.get_size())))
        info.append({"segsize": seg, "offset": offset, "data": data.hex(), "start": start.hex(), "end": end.hex(), "reads": lens,
                     "observed": [o.hex() for o in outs]})
    for t, c in zip(terms, info):
        pool.append((t, "transforming-uploadable-read-differs", "TransformingUploadable.read and tu_read (model) differ", c, "TransformingUploadable-vs-model"))


def encoding_cases(ctx, pool):
    """mathutil + Publish.setup_encoding_parameters on a bare Publish object."""
    ctx.correspondence("setup_encoding_parameters-vs-model")
    from allmydata.util import mathutil
    terms, info = [], []
    n = ctx.n(200, 2000)
    for i in range(n):
        r = ctx.rng("enc", i)
        k = r.choice([1, 2, 3, 3, 4, 7])
        maxseg = r.choice([1, 2, 3, 8, 30, 31, 40])
        seg = next_multiple(maxseg, k)
        sdmf = r.random() < 0.3
        m = r.choice([0, 1, 2, 3, 4, 5, 8, 9])
        datalength = max(0, m * seg + r.choice([-1, 0, 0, 1, r.randrange(seg)]))
        if sdmf or r.random() < 0.4:
            data_size, offset = datalength, 0
        else:
            data_size = r.choice([r.randrange(datalength + 1), (r.randrange(datalength + 1) // seg) * seg, datalength])
            offset = r.randrange(data_size + 1)
        p = real_setup_encoding(sdmf, maxseg, k, datalength, data_size, offset)
        got = (p.segment_size, p.num_segments, p.starting_segment, p.tail_segment_size, p.end_segment + 1)
        ctx.case((sdmf, maxseg, k, datalength, data_size, offset), kind="setup-encoding:" + ("sdmf" if sdmf else "mdmf"))
        # oracle for the arithmetic itself
        if not sdmf and datalength > 0:
            if p.segment_size % k or (p.num_segments - 1) * p.segment_size + p.tail_segment_size != datalength or not (0 < p.tail_segment_size <= p.segment_size):
                ctx.oracle_fail("segment-arithmetic-inconsistent", "segments do not add up to the data length: %r for datalength %d" % (got, datalength),
                                case={"sdmf": sdmf, "maxseg": maxseg, "k": k, "datalength": datalength})
        terms.append("enc_eqb (setup_encoding_parameters %s %s %s %s %s %s) %s %s %s %s %s" % (
            T.boolean(sdmf), T.nat(maxseg), T.nat(k), T.nat(datalength), T.nat(data_size), T.nat(offset),
            T.nat(got[0]), T.nat(got[1]), T.nat(got[2]), T.nat(got[3]), T.nat(got[4])))
        info.append({"sdmf": sdmf, "maxseg": maxseg, "k": k, "datalength": datalength, "data_size": data_size, "offset": offset, "observed": list(got)})
        a, b = r.randrange(0, 400), r.randrange(1, 45)
        terms.append("((div_ceil %s %s =? %s) && (next_multiple %s %s =? %s))" % (T.nat(a), T.nat(b), T.nat(mathutil.div_ceil(a, b)), T.nat(a), T.nat(b),
                                                                                  T.nat(mathutil.next_multiple(a, b))))
        info.append({"div_ceil": [a, b]})
    for t, c in zip(terms, info):
        pool.append((t, "setup-encoding-parameters-differs", "Publish.setup_encoding_parameters / mathutil and the model differ", c, "setup_encoding_parameters-vs-model"))


def real_retrieve_read(sdmf, seg, k, data, offset, size):
    """Retrieve.download's range logic on a bare Retrieve: the real download() (precondition,
    size defaulting, short-circuit), the real _setup_encoding_parameters and _set_segment; the
    network loop is replaced by handing each selected plaintext segment to _set_segment."""
    from allmydata.mutable.retrieve import Retrieve
    from allmydata.util.consumer import MemoryConsumer

    class Status(object):
        def __getattr__(self, name):
            return lambda *a, **kw: None
    rt = Retrieve.__new__(Retrieve)
    rt.verinfo = (1, b"r" * 32, b"i" * 16 if sdmf else b"", seg, len(data), k, k + 2, b"prefix", ())
    rt._data_length = len(data)
    rt._verify = False
    rt._status = Status()
    rt._pause_deferred = None
    rt._stopped = False
    rt._offset = None
    rt._read_length = None
    rt.log = lambda *a, **kw: None
    state = {"done": False, "loop": False}
    rt._done = lambda: state.__setitem__("done", True)
    rt._setup_download = lambda: None
    rt.loop = lambda: state.__setitem__("loop", True)
    c = MemoryConsumer()
    try:
        rt.download(c, offset, size)
    except AssertionError:
        return None
    if state["done"]:
        return b""
    for cur in range(rt._start_segment, rt._last_segment + 1):
        assert rt._current_segment == cur
        rt._set_segment(data[cur * seg:(cur + 1) * seg])
    return b"".join(c.chunks)


def retrieve_cases(ctx, pool):
    ctx.correspondence("Retrieve-range-selection-vs-model")
    terms, info = [], []
    n = ctx.n(300, 3000)
    for i in range(n):
        r = ctx.rng("retr", i)
        k = r.choice([1, 2, 3])
        maxseg = r.choice([2, 3, 4, 6, 9])
        sdmf = r.random() < 0.25
        m = r.choice([0, 1, 2, 3, 4, 5])
        segm = next_multiple(maxseg, k)
        size0 = max(0, m * segm + r.choice([-1, 0, 0, 1, r.randrange(segm)]))
        data = rbytes(r, size0)
        seg = next_multiple(len(data), k) if sdmf else segm
        pts = sorted(set([0, 1, len(data), max(0, len(data) - 1), len(data) + 1] + [j * seg + d for j in range(m + 2) for d in (-1, 0, 1) if j * seg + d >= 0])) if seg else [0, 1]
        offset = r.choice(pts)
        mode = r.random()
        if mode < 0.15:
            size = None
        elif mode < 0.85:
            end = r.choice([p_ for p_ in pts if p_ >= offset] or [offset])
            size = end - offset
        else:
            size = r.randrange(0, len(data) + 3)
        got = real_retrieve_read(sdmf, seg, k, data, offset, size)
        inrange = offset <= len(data) and (size is None or offset + size <= len(data))
        ctx.case((sdmf, seg, k, data, offset, size) if got else None, kind="retrieve:" + ("error" if got is None else "ok"))
        case = {"sdmf": sdmf, "segsize": seg, "k": k, "data": data.hex(), "offset": offset, "size": size}
        if got is not None:
            want = data[offset:] if size is None else data[offset:offset + size]
            if inrange and got != want:
                ctx.oracle_fail("partial-read-differs-from-slice", "read(offset=%d, size=%r) of a %d-byte file with segment size %d returned %d bytes, not data[offset:offset+size]"
                                % (offset, size, len(data), seg, len(got)), case=case, expected=want.hex(), observed=got.hex())
            elif not inrange and got != b"":
                ctx.oracle_fail("read-past-eof-returned-bytes", "read(offset=%d, size=%r) beyond EOF of a %d-byte file returned bytes" % (offset, size, len(data)), case=case, observed=got.hex())
        elif inrange and (size is None or size == 0 or offset < len(data)):
            ctx.oracle_fail("partial-read-rejected", "read(offset=%d, size=%r) within a %d-byte file is rejected" % (offset, size, len(data)), case=case)
        terms.append("(match publish %s %s %s %s with Some f => (mf_segsize f =? %s) && opt_bytes_eqb (retrieve_read f %s %s) %s | None => false end)" % (
            T.boolean(sdmf), T.nat(maxseg), T.nat(k), T.bytes_(data), T.nat(seg), T.nat(offset), "None" if size is None else "(Some %s)" % T.nat(size),
            "None" if got is None else "(Some %s)" % T.bytes_(got)))
        info.append(case)
    for t, c in zip(terms, info):
        pool.append((t, "retrieve-range-selection-differs", "Retrieve.download/_setup_encoding_parameters/_set_segment and retrieve_read (model) differ",
                     c, "Retrieve-range-selection-vs-model"))


# --------------------------------------------------------------------------------------
# 2. grid histories
# --------------------------------------------------------------------------------------
def gen_history(r, big=False):
    """Pure data describing one history (everything a replay needs)."""
    fmt = r.choice(["mdmf", "mdmf", "sdmf"])
    k = r.choice([1, 2, 3])
    maxseg = 512 if big else r.choice([24, 30, 32, 35, 40])
    seg = next_multiple(maxseg, k)
    N = r.choice([k + 1, k + 2, 5])
    servers = r.choice([N, N, 4, 6])

    def rsize():
        m = r.choice([0, 1, 2, 3, 3, 4, 4, 5, 7, 8, 8, 9])
        return max(0, m * seg + r.choice([-1, 0, 0, 1, 1, r.randrange(seg)]))

    def points(n):
        ps = set([0, n, max(0, n - 1)])
        for j in range(0, n // seg + 2):
            for d in (-1, 0, 1):
                if 0 <= j * seg + d <= n:
                    ps.add(j * seg + d)
        return sorted(ps)
    size = rsize()
    init = rbytes(r, size)
    ops = []
    cur = size
    for _ in range(r.choice([2, 3, 4, 5, 6, 7, 8, 8])):
        kind = r.choice(["update", "update", "update", "update", "append", "append", "overwrite", "modify"])
        if kind in ("update", "append"):
            offset = cur if kind == "append" else r.choice(points(cur) + [r.randrange(cur + 1)])
            room = cur - offset
            nsegs = div_ceil(cur, seg)
            cross = [p2 * seg - offset + d for p2 in (1, 2, 4, 8) if p2 >= nsegs for d in (0, 1, seg)]     # grow to / across the next power-of-two count
            L = r.choice([0, 1, seg - 1, seg, seg + 1, 2 * seg, room, max(0, room - 1), room + 1, max(0, (offset // seg + 1) * seg - offset),
                          r.randrange(0, 3 * seg + 1)] + [c for c in cross if 0 <= c <= 6 * seg])
            ops.append(["update", rbytes(r, L), offset])
            cur = max(cur, offset + L)
        elif kind == "overwrite":
            n = rsize()
            ops.append(["overwrite", rbytes(r, n)])
            cur = n
        else:
            which = r.choice(["cut", "cut", "prepend", "same", "none", "empty", "empty", "one"])
            if which in ("empty", "one"):     # boundary results: b"" (truncate to nothing) and a single byte
                res = b"" if which == "empty" else rbytes(r, 1)
                ops.append(["modify", ["const", res]])
                cur = len(res)
            elif which == "cut":
                c = r.choice(points(cur))
                ins = rbytes(r, r.choice([0, 1, seg, r.randrange(2 * seg)]))
                ops.append(["modify", ["cut", c, ins]])
                cur = c + len(ins)
            elif which == "prepend":
                ins = rbytes(r, r.choice([1, seg, r.randrange(1, seg + 2)]))
                ops.append(["modify", ["prepend", ins]])
                cur += len(ins)
            else:
                ops.append(["modify", [which]])
        # reads after the op: mode + partial ranges (chosen against the predicted size)
        mode = r.choice(["version", "version", "best", "best", "none"])
        parts = []
        for _p in range(r.choice([0, 1, 2, 3])):
            ps = points(cur)
            a = r.choice(ps)
            if r.random() < 0.07:
                b = cur + r.choice([1, 2])          # past EOF: must be rejected
            else:
                b = r.choice([p_ for p_ in ps if p_ >= a])
            parts.append([a, None if r.random() < 0.15 else b - a])
        ops[-1].append({"read": mode, "partial": parts})
    # a server that missed the previous write / a lost share, once per history, right before an update that
    # follows a content-changing operation (k shares of the current version always remain)
    if not big and r.random() < 0.3:
        cands = [j for j in range(1, len(ops)) if ops[j][0] == "update" and ops[j - 1][0] in ("overwrite", "update")]
        if cands:
            j = r.choice(cands)
            what = "stale" if (k >= 2 and r.random() < 0.7) else "drop"
            ops.insert(j, [what, r.getrandbits(30), {"read": r.choice(["version", "none"]), "partial": []}])
    return {"format": fmt, "k": k, "N": N, "servers": servers, "maxseg": maxseg, "seed": r.getrandbits(30), "init": init, "ops": ops,
            "via_version": r.random() < 0.3}


def run_history(h):
    """Run one history on a real grid.  Returns a list of events:
       ("op", index, kind, status, errorclass) / ("read", index, offset, size, status, bytes|errorclass)."""
    from core import grid as G
    from allmydata.mutable.publish import MutableData
    from allmydata.util.consumer import MemoryConsumer
    events = []
    with segsize_patch(h["maxseg"]):
        with G.Grid(num_clients=1, num_servers=h["servers"], k=h["k"], n=h["N"], happy=1, seed=h["seed"], timeout=120) as g:
            node = g.run(g.create_mutable(h["init"], version=h["format"], keypair=g.keypair(0)))

            def vread(offset, size):
                d = node.get_best_readable_version()
                d.addCallback(lambda v: v.read(MemoryConsumer(), offset, size))
                d.addCallback(lambda mc: b"".join(mc.chunks))
                return g.run(d, outcome=True)

            def record_read(ix, offset, size, o):
                events.append(("read", ix, offset, size, o.status, o.value if o.status == "ok" else o.error))
            record_read(-1, 0, None, vread(0, None))
            cap = node.get_uri()

            def snapshot():
                return {(sh.server, sh.shnum): g.read_share(sh) for sh in g.find_shares(cap)}
            snapshots = [snapshot()]          # share files after each publish that changed them
            for ix, op in enumerate(h["ops"]):
                kind = op[0]
                if kind in ("stale", "drop"):
                    # not an operation of the writer: a server that missed the last write (its share files are put
                    # back to the previous version) or lost a share.  The reference byte string does not change.
                    import random
                    rr = random.Random(op[1])
                    cur = {(sh.server, sh.shnum): sh for sh in g.find_shares(cap)}
                    done = "skipped"
                    if kind == "stale" and len(snapshots) >= 2:
                        keys = sorted(kk for kk in snapshots[-2] if kk in cur)
                        if keys:
                            kk = keys[rr.randrange(len(keys))]
                            for k2 in keys:               # every copy of that share number becomes stale
                                if k2[1] == kk[1]:
                                    g.write_share(cur[k2], snapshots[-2][k2])
                            done = "ok"
                    elif kind == "drop" and cur:
                        shnums = sorted(set(kk[1] for kk in cur))
                        g.delete_shares(cap, shnums=[shnums[rr.randrange(len(shnums))]])
                        done = "ok"
                    events.append(("op", ix, kind, done, None))
                    extra = op[-1]
                    if extra["read"] != "none":
                        record_read(ix, 0, None, vread(0, None))
                    continue
                if kind == "overwrite":
                    if h["via_version"]:
                        d = node.get_best_mutable_version()
                        d.addCallback(lambda v: v.overwrite(MutableData(op[1])))
                    else:
                        d = node.overwrite(MutableData(op[1]))
                elif kind == "modify":
                    fn = py_modifier(op[1])
                    if h["via_version"]:
                        d = node.get_best_mutable_version()
                        d.addCallback(lambda v: v.modify(fn))
                    else:
                        d = node.modify(fn)
                else:
                    d = node.get_best_mutable_version()
                    d.addCallback(lambda v: v.update(MutableData(op[1]), op[2]))
                o = g.run(d, outcome=True)
                events.append(("op", ix, kind, o.status, o.error))
                if o.status != "ok":
                    break
                snap = snapshot()
                if snap != snapshots[-1]:
                    snapshots.append(snap)
                extra = op[-1]
                if extra["read"] == "best":
                    record_read(ix, 0, None, g.run(node.download_best_version(), outcome=True))
                elif extra["read"] == "version":
                    record_read(ix, 0, None, vread(0, None))
                for (a, sz) in extra["partial"]:
                    record_read(ix, a, sz, vread(a, sz))
            else:
                record_read(len(h["ops"]), 0, None, g.run(node.download_best_version(), outcome=True))
    return events


def jsonable_history(h):
    def conv(x):
        if isinstance(x, (bytes, bytearray)):
            return {"hex": bytes(x).hex()}
        if isinstance(x, list):
            return [conv(v) for v in x]
        if isinstance(x, dict):
            return {k: conv(v) for k, v in x.items()}
        return x
    return conv(h)


def unjson_history(x):
    if isinstance(x, dict):
        if set(x.keys()) == {"hex"}:
            return bytes.fromhex(x["hex"])
        return {k: unjson_history(v) for k, v in x.items()}
    if isinstance(x, list):
        return [unjson_history(v) for v in x]
    return x


def apply_ref(ref, op):
    if op[0] in ("stale", "drop"):
        return bytearray(ref)
    if op[0] == "overwrite":
        return bytearray(op[1])
    if op[0] == "modify":
        return bytearray(ref_modifier(op[1], ref))
    ref = bytearray(ref)
    data, offset = op[1], op[2]
    assert offset <= len(ref)
    ref[offset:offset + len(data)] = data
    return ref


def judge_history(ctx, h, events, label):
    """ORACLE: reference bytearray with the operations applied in order."""
    fmt = h["format"]
    case = jsonable_history(h)
    ref = bytearray(h["init"])
    applied = -1
    lastkind = "create"
    disturbed = False
    ok = True
    for ev in events:
        if ev[0] == "op":
            _, ix, kind, status, err = ev
            if kind in ("stale", "drop"):
                if status == "ok":
                    lastkind = kind
                    disturbed = True
                continue
            lastkind = kind if kind != "update" else ("append" if h["ops"][ix][2] == len(ref) else "update")
            if disturbed:
                lastkind += "-with-stale-or-missing-shares"
            if status != "ok":
                ctx.oracle_fail("operation-failed:%s:%s:%s" % (fmt, lastkind, err),
                                "%s #%d of the history fails with %s with every server reachable (file of %d bytes, segment size %d)"
                                % (lastkind, ix, err, len(ref), next_multiple(h["maxseg"], h["k"])), case=case, step=ix)
                ok = False
                break
            ref = apply_ref(ref, h["ops"][ix])
            applied = ix
        else:
            _, ix, offset, size, status, val = ev
            full = offset == 0 and size is None
            inrange = offset <= len(ref) and (size is None or offset + size <= len(ref))
            want = bytes(ref[offset:]) if size is None else bytes(ref[offset:offset + size])
            if status == "ok":
                if not inrange:
                    if val != b"":
                        ctx.oracle_fail("read-past-eof-returned-bytes:" + fmt, "read(%d, %r) past the end of a %d-byte file returned %d bytes" % (offset, size, len(ref), len(val)),
                                        case=case, step=ix, observed=val.hex())
                        ok = False
                elif val != want:
                    where = "full" if full else "partial"
                    ctx.oracle_fail("%s-read-differs-from-reference:%s:after-%s" % (where, fmt, lastkind),
                                    "after %s (#%d) read(offset=%d, size=%r) returned %d bytes that differ from the reference bytearray (%d bytes expected; first difference at %s)"
                                    % (lastkind, applied, offset, size, len(val), len(want), next((j for j in range(min(len(val), len(want))) if val[j] != want[j]), min(len(val), len(want)))),
                                    case=case, step=ix, expected=want.hex(), observed=val.hex())
                    ok = False
                    break
            else:
                rejected_ok = (not inrange) or (size is not None and size > 0 and offset >= len(ref)) or (size is None and offset > len(ref))
                if not rejected_ok:
                    ctx.oracle_fail("read-failed:%s:after-%s:%s" % (fmt, lastkind, val),
                                    "after %s (#%d) read(offset=%d, size=%r) of a %d-byte file fails with %s" % (lastkind, applied, offset, size, len(ref), val),
                                    case=case, step=ix)
                    ok = False
                    break
    return ok


def history_term(h, events):
    """hist_check term: the model must predict every observation (bytes or failure)."""
    reads0, steps = [], []
    cur = None
    for ev in events:
        if ev[0] == "op":
            _, ix, kind, status, err = ev
            if kind in ("stale", "drop"):       # no operation of the writer: reads after it belong to the previous step
                continue
            cur = [coq_op(h["ops"][ix]), status == "ok", []]
            steps.append(cur)
        else:
            _, ix, offset, size, status, val = ev
            obs = (offset, size, val if status == "ok" else None)
            (reads0 if cur is None else cur[2]).append(obs)
    return "hist_check %s %s %s %s %s %s" % (
        T.boolean(h["format"] == "sdmf"), T.nat(h["maxseg"]), T.nat(h["k"]), T.bytes_(h["init"]), coq_obs(reads0),
        T.lst(["(%s, %s, %s)" % (o, T.boolean(ok), coq_obs(rd)) for (o, ok, rd) in steps]))


def modify_boundary_history(r, fmt, via_version):
    """Fixed shape, run in every tier: the boundary results a modifier may return on a non-empty
    file -- None, the unchanged contents, b"" (truncate to nothing), one byte -- each followed by a read."""
    k = r.choice([1, 2, 3])
    maxseg = r.choice([24, 30])
    seg = next_multiple(maxseg, k)
    rd = lambda: {"read": r.choice(["version", "best"]), "partial": []}
    ops = [["modify", ["none"], rd()], ["modify", ["same"], rd()], ["modify", ["const", b""], rd()],
           ["modify", ["none"], rd()], ["modify", ["const", b""], rd()],
           ["modify", ["const", rbytes(r, 1)], rd()], ["modify", ["prepend", rbytes(r, 2 * seg)], rd()], ["modify", ["cut", 0, b""], rd()]]
    return {"format": fmt, "k": k, "N": k + 2, "servers": k + 2, "maxseg": maxseg, "seed": r.getrandbits(30),
            "init": rbytes(r, r.choice([1, seg, 2 * seg + 1])), "ops": ops, "via_version": via_version}


def stale_share_history(r, fmt, via_version):
    """Fixed shape, run in every tier: overwrite, then one share number falls back to the previous version
    (or is lost), then updates in the middle / at the end of a multi-segment file, a read after each."""
    k = r.choice([2, 3])
    N = k + 2
    maxseg = r.choice([24, 30])
    seg = next_multiple(maxseg, k)
    rd = lambda: {"read": r.choice(["version", "best"]), "partial": [[seg - 1, 2]]}
    n2 = 3 * seg + r.randrange(1, seg)
    ops = [["overwrite", rbytes(r, n2), rd()],
           ["stale", r.getrandbits(30), {"read": "version", "partial": []}],
           ["update", rbytes(r, seg + 3), seg - 2, rd()],
           ["update", rbytes(r, 5), n2 - 2, rd()],
           ["drop", r.getrandbits(30), {"read": "none", "partial": []}],
           ["update", rbytes(r, 2), 2 * seg, rd()],
           ["stale", r.getrandbits(30), {"read": "version", "partial": []}],
           ["update", rbytes(r, seg), n2 + 3, rd()]]
    return {"format": fmt, "k": k, "N": N, "servers": r.choice([N, N + 1]), "maxseg": maxseg, "seed": r.getrandbits(30),
            "init": rbytes(r, 2 * seg + 1), "ops": ops, "via_version": via_version}


def grid_cases(ctx):
    ctx.correspondence("grid-histories-vs-model")
    terms, info = [], []
    n = ctx.n(55, 600)
    nbig = ctx.n(5, 50)
    fixed = [(modify_boundary_history, fmt, via) for fmt in ("sdmf", "mdmf") for via in (False, True)]
    fixed += [(stale_share_history, "mdmf", False), (stale_share_history, "mdmf", True), (stale_share_history, "sdmf", False)]
    for i in range(-len(fixed), n + nbig):
        big = i >= n
        r = ctx.rng("hist", i)
        h = fixed[i][0](r, *fixed[i][1:]) if i < 0 else gen_history(r, big=big)
        events = run_history(h)
        seg = next_multiple(h["maxseg"], h["k"])
        inplace = sum(1 for op in h["ops"] if op[0] == "update") if h["format"] == "mdmf" else 0
        multi = any(ev[0] == "read" and ev[4] == "ok" and len(ev[5]) > seg for ev in events)
        key = (h["format"], h["k"], h["maxseg"], repr(h["ops"]))
        ctx.case(key if (inplace or multi) else None, kind="history:%s%s" % (h["format"], ":big" if big else ""))
        ctx.count("ops", len(h["ops"]))
        ctx.count("reads", sum(1 for ev in events if ev[0] == "read"))
        ctx.count("in-place-updates", inplace)
        # appends/updates that take the segment count across a power of two (block hash tree changes shape)
        cur = len(h["init"])
        for op in h["ops"]:
            if op[0] in ("stale", "drop"):
                ctx.count("histories-with-a-stale-or-lost-share:" + op[0])
            elif op[0] == "overwrite":
                cur = len(op[1])
            elif op[0] == "modify":
                cur = len(ref_modifier(op[1], bytes(cur)))
            else:
                new = max(cur, op[2] + len(op[1]))
                a, b = div_ceil(cur, seg), div_ceil(new, seg)
                if any(a <= p2 < b for p2 in (1, 2, 4, 8)):
                    ctx.count("updates-crossing-a-power-of-two-segment-count:" + h["format"])
                if new > cur:
                    ctx.count("extending-updates")
                cur = new
        ok = judge_history(ctx, h, events, "hist")
        if 0 <= i < 2:
            ctx.sample({"format": h["format"], "k": h["k"], "segment_size": seg, "init_len": len(h["init"]),
                        "ops": [[op[0]] + ([len(op[1]), op[2]] if op[0] == "update" else []) for op in h["ops"]],
                        "events": [list(ev[:5]) + ([len(ev[5])] if ev[0] == "read" and ev[4] == "ok" else []) for ev in events]})
        if not big:
            terms.append(history_term(h, events))
            info.append(jsonable_history(h))
    bad = ctx.coq_check(IMPORTS, terms, preamble=PREAMBLE, tag="c09hist", shard=40)
    for b in bad:
        ctx.mismatch("history-model-differs", "run_impl/retrieve_read (model) do not predict what the grid returned for this history", case=info[b],
                     correspondence="grid-histories-vs-model")
    ctx.trace(len(terms) - len(bad))


def past_eof_cases(ctx):
    """update(data, offset) with offset > size: outside the theorems' precondition.  MDMF refuses
    (assertion), SDMF silently puts the data at the old end of file (recorded finding)."""
    from core import grid as G
    from allmydata.mutable.publish import MutableData
    terms, info = [], []
    for i in range(ctx.n(4, 24)):
        r = ctx.rng("pasteof", i)
        fmt = "sdmf" if i % 2 == 0 else "mdmf"
        k = r.choice([1, 2, 3])
        maxseg = 30
        size = r.choice([0, 1, 29, 30, 31, 65])
        init = rbytes(r, size)
        offset = size + r.choice([1, 2, 30, 100])
        data = rbytes(r, r.choice([1, 5, 31]))
        case = {"format": fmt, "k": k, "maxseg": maxseg, "init": init.hex(), "offset": offset, "data": data.hex()}
        with segsize_patch(maxseg):
            with G.Grid(num_clients=1, num_servers=4, k=k, n=4, happy=1, seed=r.getrandbits(30), timeout=120) as g:
                node = g.run(g.create_mutable(init, version=fmt, keypair=g.keypair(0)))
                d = node.get_best_mutable_version()
                d.addCallback(lambda v: v.update(MutableData(data), offset))
                o = g.run(d, outcome=True)
                after = g.run(node.download_best_version(), outcome=True)
        ctx.case(None, kind="past-eof:%s:%s" % (fmt, o.status))
        if after.status != "ok":
            ctx.oracle_fail("read-failed-after-past-eof-update:" + fmt, "file unreadable after update past EOF: %s" % after.error, case=case)
            continue
        if o.status == "ok":
            got = after.value
            if got[offset:offset + len(data)] != data or got[:size] != init:
                ctx.oracle_fail("%s-update-past-eof-misplaces-data" % fmt,
                                "update(%d bytes, offset=%d) of a %d-byte %s file succeeds but the bytes are not at [offset, offset+len): the file is now %d bytes"
                                % (len(data), offset, size, fmt.upper(), len(got)), case=case, observed=got.hex())
        elif after.value != init:
            ctx.oracle_fail("failed-update-changed-file:" + fmt, "a refused update past EOF changed the file", case=case, observed=after.value.hex())
        terms.append("(match publish %s %s %s %s with Some f => match do_update %s f %s %s with Some f' => %s && opt_bytes_eqb (read_all f') (Some %s) | None => %s end | None => false end)" % (
            T.boolean(fmt == "sdmf"), T.nat(maxseg), T.nat(k), T.bytes_(init), T.nat(maxseg), T.bytes_(data), T.nat(offset),
            T.boolean(o.status == "ok"), T.bytes_(after.value), T.boolean(o.status != "ok")))
        info.append(case)
    bad = ctx.coq_check(IMPORTS, terms, preamble=PREAMBLE, tag="c09eof")
    for b in bad:
        ctx.mismatch("past-eof-model-differs", "do_update (model) and the real update disagree for offset > size", case=info[b], correspondence="grid-histories-vs-model")
    ctx.trace(len(terms) - len(bad))


def prefetch_boundary_cases(ctx):
    """Forced in every run: files whose single block ends at share bytes 3998..4003, i.e. around the
    4000-byte share prefix that the servermap update prefetches and MDMFSlotReadProxy._read answers
    reads from.  Sizes are derived from the share_data offset of a probe file's own offsets table."""
    from core import grid as G
    from allmydata.mutable.publish import MutableData
    from allmydata.mutable.common import MODE_READ
    prefetch = 4000          # ServermapUpdater._read_size in MODE_READ/MODE_WRITE
    for fmt in ("sdmf", "mdmf"):
        r = ctx.rng("prefetch", fmt)
        k = r.choice([2, 3])
        case0 = {"format": fmt, "k": k}
        with G.Grid(num_clients=2, num_servers=k + 2, k=k, n=k + 2, happy=1, seed=r.getrandbits(30), timeout=180) as g:
            probe = rbytes(r, 900)
            node = g.run(g.create_mutable(probe, version=fmt, keypair=g.keypair(0)))
            cap = node.get_uri()
            sm = g.run(node.get_servermap(MODE_READ))
            verinfo = sm.best_recoverable_version()
            start = dict(verinfo[8])["share_data"]
            salt = 16 if fmt == "mdmf" else 0
            sizes = []
            for d in (-2, -1, 0, 1, 2, 3):
                blocklen = prefetch + d - start - salt
                if blocklen > 0:
                    sizes.append((d, blocklen * k - (d % k)))        # one padding amount per boundary position
            if len(sizes) < 6:
                ctx.mismatch("prefetch-boundary-not-reachable", "share_data offset %d leaves no block ending at byte %d" % (start, prefetch),
                             case=case0, correspondence="grid-histories-vs-model")
            for (d, size) in sizes:
                data = rbytes(r, size)
                case = dict(case0, share_data_offset=start, block_end=prefetch + d, size=size)
                ctx.case((fmt, k, d), kind="prefetch-boundary:" + fmt)
                o = g.run(node.overwrite(MutableData(data)), outcome=True)
                if o.status != "ok":
                    ctx.oracle_fail("operation-failed:%s:overwrite:%s" % (fmt, o.error), "overwrite with %d bytes (block ends at share byte %d) fails with %s"
                                    % (size, prefetch + d, o.error), case=case)
                    continue
                steps = [("same-node", lambda: node.download_best_version()), ("fresh-client", lambda: g.mutable_read(cap, client=1))]
                good = True
                for (label, rd) in steps:
                    got = g.run(rd(), outcome=True)
                    if got.status != "ok" or got.value != data:
                        ctx.oracle_fail("read-at-prefetch-boundary:%s:%s" % (fmt, ("failed:" + str(got.error)) if got.status != "ok" else "differs"),
                                        "after overwrite with %d bytes (the block of the single segment ends at share byte %d, prefetch %d) the read through %s %s"
                                        % (size, prefetch + d, prefetch, label, ("fails with %s" % got.error) if got.status != "ok" else "returns other bytes"), case=case)
                        good = False
                        break
                if not good:
                    continue
                o = g.run(node.modify(lambda old, sm_, ft: old[:-1] + bytes([old[-1] ^ 0xff])), outcome=True)
                want = data[:-1] + bytes([data[-1] ^ 0xff])
                got = g.run(g.mutable_read(cap, client=1), outcome=True)
                if o.status != "ok" or got.status != "ok" or got.value != want:
                    ctx.oracle_fail("read-at-prefetch-boundary:%s:after-modify" % fmt,
                                    "one-byte modify of the %d-byte file (block ends at share byte %d): modify %s, read %s"
                                    % (size, prefetch + d, o.error or o.status, got.error or ("ok" if got.value == want else "differs")), case=case)
                else:
                    ctx.trace(1)


def run(ctx):
    import allmydata.mutable.publish as P
    ctx.note("DEFAULT_MUTABLE_MAX_SEGMENT_SIZE = %d in /repo; replaced per case through the module attribute of allmydata.mutable.publish" % P.DEFAULT_MUTABLE_MAX_SEGMENT_SIZE)
    if P.DEFAULT_MUTABLE_MAX_SEGMENT_SIZE < 1:
        ctx.mismatch("default-segment-size-not-positive", "the theorems assume a max segment size >= 1", correspondence="setup_encoding_parameters-vs-model")
    corpus(ctx)
    pool = []
    encoding_cases(ctx, pool)
    tu_cases(ctx, pool)
    retrieve_cases(ctx, pool)
    pure_update_cases(ctx, pool)
    flush_pool(ctx, pool, "c09pure")
    grid_cases(ctx)
    prefetch_boundary_cases(ctx)
    past_eof_cases(ctx)


def corpus(ctx):
    """Minimised past disagreements (corpus/C09/*.json), run first."""
    import glob
    import json
    import os
    from core import env
    for path in sorted(glob.glob(os.path.join(env.VERIF, "corpus", "C09", "*.json"))):
        h = unjson_history(json.load(open(path)))
        events = run_history(h)
        ctx.case(("corpus", os.path.basename(path)), kind="corpus")
        judge_history(ctx, h, events, "corpus")


def replay(ctx, record):
    case = record.get("case") or {}
    if "ops" in case:
        h = unjson_history(case)
        events = run_history(h)
        ok = judge_history(ctx, h, events, "replay")
        return {"events": [[(x.hex() if isinstance(x, bytes) else x) for x in ev] for ev in events], "oracle_ok": ok,
                "failures": [f["what"] for f in ctx.failures]}
    return {"note": "pure case: the record holds input, expected and observed", "case": case}
