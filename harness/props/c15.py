"""C15  Capability strings round-trip and parse canonically."""
import glob
import json
import os
import re

from core import env
from core import term as T
from props import uri_common as U

ID = "C15"
GEN = ["hashutil", "uri"]
RULE = ("cases: (a) every cap kind (9 file kinds x file/directory wrapper) with random keys, hashes and k/N/size "
        "(small, word boundaries, powers of ten, 1000-bit, a few 4300-digit = the widest Python prints), printed by the "
        "implementation, re-parsed, compared with the model's printer and parser; (a') each of the 32 alphabet characters "
        "as last character of the 128-bit field, of the 256-bit field and of LIT data of each length class; (b) one mutation of such a string "
        "(appended/inserted/deleted/replaced byte, wrong last base32 character, longer/shorter field, leading zero, sign, "
        "space, > 4300 digits, ro./imm./doubled prefix, case, MDMF extension, other kind's prefix, truncation, newline, NUL) "
        "or a random printable string, parsed with deep_immutable in {False, True}; (c) base32 b2a/a2b/"
        "could_be_base32_encoded at every length 0..40 and longer.  distinct non-trivial = distinct strings that reach a "
        "kind's regex (known dispatch prefix), accepted or not")
META = {
    "title": "Capability strings round-trip and parse canonically",
    "level_text": ("Theorems in Coq over an executable model of uri.py/base32.py: parse(print c) = c for every well-formed cap of "
                   "every kind; every string accepted as a known kind is alleged-prefix ++ print(result) (++ ':'-extension for "
                   "MDMF only); dispatch prefixes are pairwise non-prefixing and a string accepted by one kind's parser is never "
                   "returned as another kind; UnknownURI keeps the string; base32 round trips at every length.  The model's "
                   "field formats rendered as regex source equal the STRING_RE sources regenerated from uri.py."),
    "level_note": ("Trusted: Python's `re` semantics for the fragments used (^, \\Z, character classes, {n}, greedy digit and "
                   "alphabet runs followed by ':' or the end) as transcribed in Model/Uri.v match_field; base64.b32encode/"
                   "b32decode modelled arithmetically; both validated by the differential run, not proved.  Negative "
                   "k/N/size are outside the model (never parseable)."),
    "technique": "Coq proof over a hand-written model pinned to regenerated regex sources + differential run + direct oracle",
    "design_ref": "8/C15",
    "trusted_base": ["translator harness/translate/uri.py", "Model/Uri.v regex transcription validated against re on generated strings"],
    "assumptions": ["Python re/base64 behave as modelled on the generated inputs"],
}

IMPORTS = U.IMPORTS
ALLEGED = [b"", b"ro.", b"imm."]
MDMF_CLASSES = ("WriteableMDMFFileURI", "ReadonlyMDMFFileURI", "MDMFVerifierURI",
                "MDMFDirectoryURI", "ReadonlyMDMFDirectoryURI", "MDMFDirectoryURIVerifier")
HUGE_DIGITS = re.compile(rb"[0-9]{4301,}")


def big(fields):
    return any(isinstance(x, int) and x.bit_length() > 1100 for x in fields)


def classify_noncanonical(s, printed, cls_name):
    """Specific class of a string that was accepted but does not re-print to itself."""
    for p in ALLEGED:
        if s.startswith(p) and p:
            s = s[len(p):]
            break
    if s == printed + b"\n":
        return "trailing-newline"
    if s.startswith(printed) and cls_name in ("CHKFileVerifierURI", "ImmutableDirectoryURIVerifier"):
        return "chk-verifier-trailing-bytes"
    if s.startswith(printed):
        return "trailing-bytes"
    sp, pp = s.split(b":"), printed.split(b":")
    if len(sp) == len(pp) and all(a == b or (a.isdigit() and b.isdigit() and a.lstrip(b"0") in (b.lstrip(b"0"), b)) for a, b in zip(sp, pp)):
        return "leading-zero"
    if len(sp) == len(pp) and all(a == b or (len(a) == len(b) and a[:-1] == b[:-1]) for a, b in zip(sp, pp)):
        return "base32-tail"
    return "other"


def oracle_parse(ctx, s, di, o, how):
    """parse_print / unknown_keeps_string / never-misread evaluated on the implementation."""
    u = U.uri_mod()
    case = {"string": s.hex(), "printable": U.show(s), "deep_immutable": di, "mutation": how}
    if o[0] == "ValueError":
        kind = "uri-from-string-valueerror-on-huge-numeral" if HUGE_DIGITS.search(s) else "from-string-raises:ValueError"
        ctx.oracle_fail(kind, "uri.from_string(%s) raises ValueError instead of returning an UnknownURI" % U.show(s),
                        case=case, expected="UnknownURI", observed="ValueError")
        return
    if o[0] != "ok":
        ctx.oracle_fail("from-string-raises:" + o[0], "uri.from_string(%s) raises %s" % (U.show(s), o[0]),
                        case=case, expected="a cap or UnknownURI", observed=o[0])
        return
    c = o[2]
    if isinstance(c, u.UnknownURI):
        if c.to_string() != s:
            ctx.oracle_fail("unknown-does-not-keep-string", "UnknownURI for %s serializes to %s" % (U.show(s), U.show(c.to_string())),
                            case=case, expected=s.hex(), observed=c.to_string().hex())
    else:
        printed = c.to_string()
        cname = type(c).__name__
        ok = False
        for p in ALLEGED:
            if s == p + printed:
                ok = True
            elif cname in MDMF_CLASSES and s.startswith(p + printed + b":"):
                ok = True
        if not ok:
            cls = classify_noncanonical(s, printed, cname)
            ctx.oracle_fail("parse-accepts-noncanonical:" + cls,
                            "from_string accepts %s as %s but re-serializes it as %s" % (U.show(s), cname, U.show(printed)),
                            case=case, expected=U.show(s), observed=U.show(printed))
    # never mis-read: which classes' own parsers accept the prefix-stripped string
    t = s
    for p in (b"imm.", b"ro."):
        if s.startswith(p):
            t = s[len(p):]
            break
    file_cls, dir_cls = U.class_maps()
    accepted = []
    for cls in list(file_cls.values()) + list(dir_cls.values()):
        if not t.startswith(cls.BASE_STRING):
            continue
        try:
            cls.init_from_string(t)
            accepted.append(cls.__name__)
        except u.BadURIError:
            pass
        except (ValueError, AssertionError):
            pass
    if len(accepted) > 1:
        ctx.oracle_fail("string-accepted-by-two-kinds", "%s is accepted by the parsers of %s" % (U.show(t), accepted),
                        case=case, expected="at most one", observed=accepted)
    if accepted and not isinstance(c, u.UnknownURI) and type(c).__name__ != accepted[0]:
        ctx.oracle_fail("misread-as-other-kind", "%s is a %s but from_string returned a %s" % (U.show(s), accepted[0], type(c).__name__),
                        case=case, expected=accepted[0], observed=type(c).__name__)
    if not accepted and not isinstance(c, u.UnknownURI):
        ctx.oracle_fail("misread-as-other-kind", "no kind's parser accepts %s but from_string returned a %s" % (U.show(t), type(c).__name__),
                        case=case, expected="UnknownURI", observed=type(c).__name__)


def reaches_regex(s):
    t = s
    for p in (b"imm.", b"ro."):
        if s.startswith(p):
            t = s[len(p):]
            break
    return t.startswith(b"URI:") and any(t.startswith(c.BASE_STRING) for m in U.class_maps() for c in m.values())


def corpus_cases():
    out = []
    for path in sorted(glob.glob(os.path.join(env.CORPUS, ID, "*.json"))):
        rec = json.load(open(path))
        out.append((os.path.basename(path), bytes.fromhex(rec["string"]), bool(rec.get("deep_immutable", False))))
    return out


def run(ctx):
    u = U.uri_mod()
    ctx.correspondence("to_string-vs-model-printer")
    ctx.correspondence("from_string-vs-model-parser")
    ctx.correspondence("base32-vs-model")
    pterms, pinfo = [], []      # printer
    fterms, finfo = [], []      # parser

    def add_parse(s, di, how):
        o = U.impl_from_string(s, di)
        oracle_parse(ctx, s, di, o, how)
        if o[0] in ("ok", "ValueError", "AssertionError"):
            fterms.append("outcome_eqb (from_string %s %s) %s" % (T.boolean(di), T.bytes_(s), U.outcome_term(o)))
            finfo.append((how, s, di, o[:2]))
        ctx.case((s, di) if reaches_regex(s) else None, kind="parse:" + how + ":" + (o[1][0] if o[0] == "ok" else o[0]))
        return o

    # ---- past disagreements first
    for name, s, di in corpus_cases():
        add_parse(s, di, "corpus:" + name)

    # ---- (a) valid caps of every kind
    nvalid = ctx.n(126, 1200)
    huge_left = ctx.n(3, 10)
    for i in range(nvalid):
        r = ctx.rng("valid", i)
        kind = U.FILE_KINDS[i % 9]
        is_dir = (i // 9) % 2 == 1
        fields = U.gen_fields(r, kind)
        if any(isinstance(x, int) and x.bit_length() > 4100 for x in fields):
            if huge_left <= 0:
                fields = tuple((x % 10 ** 30) if isinstance(x, int) else x for x in fields)
            else:
                huge_left -= 1
        c = U.make_cap(kind, fields, is_dir)
        s = c.to_string()
        d = U.describe(c)
        case = {"kind": kind, "dir": is_dir, "fields": U.jcase(fields), "string": s.hex()}
        # direct oracle: print_parse on the implementation
        back = U.impl_from_string(s, False)
        if back[0] != "ok" or back[1] != d or type(back[2]) is not type(c) or back[2].to_string() != s:
            ctx.oracle_fail("print-parse-differs:" + ("dir-" if is_dir else "") + kind,
                            "%s(...).to_string() = %s parses back as %s" % (type(c).__name__, U.show(s), str(U.jcase(back[1]) if back[0] == "ok" else back[0])[:300]),
                            case=case, expected=U.jcase(d), observed=U.jcase(back[1]) if back[0] == "ok" else back[0])
        if i < 4:
            ctx.sample({"cap": type(c).__name__, "string": U.show(s)})
        if not big(fields):
            pterms.append("list_N_eqb (to_string %s) %s" % (U.cap_term(d), T.bytes_(s)))
            pinfo.append((kind, is_dir, fields, s))
        fterms.append("outcome_eqb (from_string false %s) %s" % (T.bytes_(s), U.outcome_term(back) if back[0] in ("ok", "ValueError", "AssertionError") else "RaisesAssertion"))
        finfo.append(("valid", s, False, back[:2]))
        ctx.case((s, False), kind="valid:" + ("dir-" if is_dir else "") + kind)

    # ---- (a') every last character of every base32 field: the 32 alphabet characters (and a few others) in
    # the final position of the 128-bit field, of the 256-bit field and of LIT data of every length class
    r = ctx.rng("tails")
    tail_caps = [U.make_cap("CHK", U.gen_fields(r, "SSK") + (3, 10, 1000), False), U.make_cap("SSKRO", U.gen_fields(r, "SSK"), True),
                 U.make_cap("MDMFVerifier", U.gen_fields(r, "SSK"), False), U.make_cap("CHKVerifier", U.gen_fields(r, "SSK") + (1, 1, 0), True)]
    tail_caps = tail_caps[:ctx.n(2, 4)]
    for c in tail_caps:
        parts = c.to_string().split(b":")
        for idx in (2, 3):
            for ch in U.B32 + b"A1=":
                q = list(parts)
                q[idx] = q[idx][:-1] + bytes([ch])
                add_parse(b":".join(q), False, "tail-%s:%s" % ("128" if idx == 2 else "256", type(c).__name__))
    for ln in range(0, ctx.n(6, 11)):
        base = U.make_cap("LIT", (U.rbytes(r, ln),), ln % 2 == 1).to_string()
        for ch in (U.B32 + b"A1=") if ln else b"a":
            add_parse(base[:-1] + bytes([ch]) if ln else base + bytes([ch]), False, "tail-lit:%d" % (ln % 5))

    # ---- (b) mutated strings and random printable strings
    nmut = ctx.n(260, 2500)
    huge_left = ctx.n(3, 10)
    for i in range(nmut):
        r = ctx.rng("mut", i)
        kind, is_dir, fields, c = U.gen_cap(r)
        if any(isinstance(x, int) and x.bit_length() > 1100 for x in fields):
            fields = tuple((x % 10 ** 40) if isinstance(x, int) else x for x in fields)
            c = U.make_cap(kind, fields, is_dir)
        s0 = c.to_string()
        if i % 8 == 7:
            how, s = "random", U.random_printable(r)
        else:
            how = U.MUTATIONS[i % len(U.MUTATIONS)] if i < 2 * len(U.MUTATIONS) else None
            how, s = U.mutate(r, s0, how)
            if how == "huge-number":
                if huge_left <= 0:
                    how, s = U.mutate(r, s0, "leading-zero")
                else:
                    huge_left -= 1
            if r.random() < 0.15:
                how2, s = U.mutate(r, s, r.choice(["ro-prefix", "imm-prefix", "append-newline", "extension"]))
                how = how + "+" + how2
        di = r.random() < 0.3
        add_parse(s, di, how)
        if i < 2:
            ctx.sample({"mutation": how, "string": U.show(s)})

    bad = ctx.coq_check(IMPORTS, pterms, tag="c15print", shard=100)
    for ix in bad:
        kind, is_dir, fields, s = pinfo[ix]
        ctx.mismatch("model-printer-vs-to_string:" + kind, "Model to_string and %s%s.to_string() differ" % ("dir-" if is_dir else "", kind),
                     case={"kind": kind, "dir": is_dir, "fields": U.jcase(fields)}, observed=U.show(s),
                     correspondence="to_string-vs-model-printer")
    ctx.trace(len(pterms) - len(bad))
    # the few cases with numerals of thousands of digits cost seconds each: one file per case, run in parallel
    heavy = [i for i, (_, s, _, _) in enumerate(finfo) if len(s) > 1500]
    light = [i for i in range(len(fterms)) if len(finfo[i][1]) <= 1500]
    bad = [light[j] for j in ctx.coq_check(IMPORTS, [fterms[i] for i in light], tag="c15parse", shard=100)]
    bad += [heavy[j] for j in ctx.coq_check(IMPORTS, [fterms[i] for i in heavy], tag="c15parsebig", shard=1)]
    for ix in bad:
        how, s, di, o = finfo[ix]
        ctx.mismatch("model-parser-vs-from_string", "Model from_string and uri.from_string differ on %s (deep_immutable=%s, %s)" % (U.show(s), di, how),
                     case={"string": s.hex(), "printable": U.show(s), "deep_immutable": di, "mutation": how},
                     observed=str(U.jcase(o))[:600], correspondence="from_string-vs-model-parser")
    ctx.trace(len(fterms) - len(bad))

    base32_part(ctx)


def base32_part(ctx):
    from allmydata.util import base32
    terms, info = [], []
    n = ctx.n(60, 600)
    for i in range(n):
        r = ctx.rng("b32", i)
        ln = i if i <= 41 else r.choice([48, 55, 56, 57, 64, 80, 100, 129])
        data = U.special_key(r, ln) if ln else b""
        enc = base32.b2a(data)
        dec = base32.a2b(enc)
        ctx.case(("b32", data), kind="base32:roundtrip")
        if dec != data:
            ctx.oracle_fail("base32-roundtrip", "a2b(b2a(x)) != x for %d bytes" % ln, case={"data": data.hex()},
                            expected=data.hex(), observed=dec.hex())
        if not base32.could_be_base32_encoded(enc):
            ctx.oracle_fail("base32-roundtrip", "could_be_base32_encoded(b2a(x)) is false", case={"data": data.hex()})
        terms.append("list_N_eqb (b2a %s) %s" % (T.bytes_(data), T.bytes_(enc)))
        info.append(("b2a", data))
        terms.append("list_N_eqb (a2b %s) %s" % (T.bytes_(enc), T.bytes_(data)))
        info.append(("a2b", enc))
        # acceptance of arbitrary strings by a2b's precondition; decoding of non-canonical tails
        q = r.choice([0, 1, 2, 3, 4, 5, 6, 7, 8, 9, 10, 12, 13, 15, 16, 26, 52])
        alpha = U.B32 if r.random() < 0.8 else U.B32 + b"018=AZ"
        t = bytes(r.choice(alpha) for _ in range(q))
        cb = bool(base32.could_be_base32_encoded(t))
        ctx.case(("cb", t) if cb else None, kind="base32:could_be")
        terms.append("Bool.eqb (could_be_base32_encoded %s) %s" % (T.bytes_(t), T.boolean(cb)))
        info.append(("could_be_base32_encoded", t))
        if cb:
            try:
                d2 = base32.a2b(t)
                terms.append("list_N_eqb (a2b %s) %s" % (T.bytes_(t), T.bytes_(d2)))
                info.append(("a2b", t))
            except Exception as e:      # a2b must decode whatever its own precondition admits
                ctx.oracle_fail("base32-a2b-raises-after-precondition", "a2b(%r) raises %s although could_be_base32_encoded" % (t, type(e).__name__),
                                case={"string": t.hex()})
    bad = ctx.coq_check(IMPORTS, terms, tag="c15b32", shard=100)
    for ix in bad:
        fn, x = info[ix]
        ctx.mismatch("model-base32:" + fn, "Model %s and base32.%s differ on %r" % (fn, fn, x), case={"fn": fn, "input": x.hex()},
                     correspondence="base32-vs-model")
    ctx.trace(len(terms) - len(bad))


def replay(ctx, rec):
    case = rec.get("case") or {}
    if "string" not in case:
        return {"note": "record holds no input string"}
    s = bytes.fromhex(case["string"])
    di = bool(case.get("deep_immutable", False))
    o = U.impl_from_string(s, di)
    oracle_parse(ctx, s, di, o, case.get("mutation", "replay"))
    out = {"input": U.show(s), "deep_immutable": di,
           "implementation": U.jcase(o[1]) if o[0] == "ok" else o[0]}
    if o[0] == "ok":
        out["implementation_reprinted"] = U.show(o[2].to_string())
    out["model"] = ctx.coq_eval(IMPORTS, "from_string %s %s" % (T.boolean(di), T.bytes_(s)))[-1500:]
    return out
