"""C43  Node and capability identity is consistent."""
from core import term as T
from props import uri_common as U

ID = "C43"
GEN = ["hashutil", "uri"]
RULE = ("cases: ordered pairs (a, b) drawn from pools of real objects: capability objects of all 18 classes plus "
        "UnknownURI, and nodes of every class NodeMaker builds (ImmutableFileNode, LiteralFileNode, MutableFileNode over "
        "SSK/SSK-RO/MDMF/MDMF-RO, DirectoryNode over the six wrappable kinds, CiphertextFileNode, UnknownNode); every pool "
        "holds, for each cap, a separately constructed equal twin and a neighbour differing in one field, for mutable "
        "caps also RELATED caps (the derived read-only cap, the same keys in the other format, the same key with another "
        "fingerprint: same storage index, different string), and every "
        "ordered pair of the pool (also a with itself, also across classes) is compared: a == b, a != b, hash(a) == hash(b); "
        "histories: a cap is hashed (used as dict key), then edited in place (or copied and the copy edited) field by "
        "field, then compared with a fresh cap of the new value and with a twin of the old one, also under file nodes. "
        "distinct non-trivial = distinct ordered pairs (class and capability strings)")
META = {
    "title": "Node and capability identity is consistent",
    "level_text": ("Theorems in Coq over models of the __eq__/__ne__/__hash__ methods of uri._BaseURI and of every node class "
                   "(texts pinned from the source on every run): equality iff equal capability strings for caps and for file "
                   "and unknown nodes, across every pair of classes; != is the negation of == and equal objects have equal "
                   "hash keys for ALL classes; refutation witnesses for the classes that compare by object identity."),
    "level_note": ("Python's data model for ==/!= (reflected call, identity fallback) and hash() being a function of the hashed "
                   "value are transcribed in Model/UriNodes.v and validated by the differential run over real objects.  "
                   "DirectoryNode, CiphertextFileNode and UnknownURI compare by identity: known findings."),
    "technique": "Coq proof over a hand-written model pinned to the method sources + differential run + direct oracle",
    "design_ref": "8/C43",
    "trusted_base": ["translator harness/translate/uri.py (method text pins)"],
    "assumptions": [],
}

IMPORTS = U.IMPORTS + ["Model.UriNodes"]
IDENTITY_CLASSES = ("DirectoryNode", "CiphertextFileNode", "UnknownURI")


def vary(r, kind, fields):
    """A neighbour of `fields`: one field changed."""
    fields = list(fields)
    i = r.randrange(len(fields))
    x = fields[i]
    if isinstance(x, int):
        fields[i] = x + 1
    elif len(x) == 0:
        fields[i] = b"\x00"
    else:
        j = r.randrange(len(x))
        fields[i] = x[:j] + bytes([x[j] ^ (1 << r.randrange(8))]) + x[j + 1:]
    return tuple(fields)


def small(fields, kind):
    """Identity does not depend on sizes: keep numbers and literals short so that the model side of a pair is cheap."""
    fields = tuple((x % 2 ** 40) if isinstance(x, int) else x for x in fields)
    if kind == "LIT":
        fields = (fields[0][:11],)
    return fields


def hash_of(x):
    try:
        return ("hash", hash(x))
    except TypeError:
        return ("unhashable",)


def compare(ctx, a, b, sa, sb, label, case):
    """The three statements of the property on one ordered pair of real objects.
    sa/sb: the capability string(s) the objects stand for."""
    try:
        eq, ne = bool(a == b), bool(a != b)
    except Exception as e:
        ctx.oracle_fail("comparison-raises:" + label, "comparing raises %s" % type(e).__name__, case=case)
        return None
    ha, hb = hash_of(a), hash_of(b)
    same = sa == sb
    ca, cb = type(a).__name__, type(b).__name__
    if eq != same:
        if ca in IDENTITY_CLASSES or cb in IDENTITY_CLASSES:
            # the class that compares by object identity decides the result
            kind = "eq-not-by-cap-string:" + (ca if ca in IDENTITY_CLASSES else cb)
        else:
            kind = "eq-differs-from-string-equality:%s-vs-%s" % (ca, cb)
        ctx.oracle_fail(kind, "%s == %s is %s but their capability strings are %s" % (ca, cb, eq, "equal" if same else "different"),
                        case=case, expected=same, observed=eq)
    if ne != (not eq):
        ctx.oracle_fail("ne-not-negation-of-eq:" + ca, "(a != b) = %s while (a == b) = %s for %s vs %s" % (ne, eq, ca, cb),
                        case=case, expected=not eq, observed=ne)
    if eq and ha[0] == "hash" and hb[0] == "hash" and ha != hb:
        ctx.oracle_fail("equal-objects-hash-differently:" + ca, "a == b but hash(a) != hash(b) for %s vs %s" % (ca, cb), case=case)
    for o, h, cn in ((a, ha, ca), (b, hb, cb)):
        if h[0] == "unhashable":
            # a class that defines __eq__ must stay usable as a dict / set key, consistently with it
            ctx.oracle_fail("object-unhashable:" + cn, "hash(%s) raises TypeError: objects of this class cannot be dict or set keys" % cn,
                            case=case, expected="a hash consistent with ==", observed="TypeError")
    if eq and ha[0] != hb[0]:
        ctx.oracle_fail("equal-objects-hash-differently:" + ca, "a == b but only one of them is hashable (%s vs %s)" % (ca, cb), case=case)
    return eq, ne, ha, hb


def cap_pool(r):
    """[(object, model term, string)]: caps of all classes with equal twins and one-field neighbours, UnknownURIs."""
    u = U.uri_mod()
    pool = []
    kinds = [(k, d) for k in U.FILE_KINDS for d in (False, True)]
    r.shuffle(kinds)
    for kind, is_dir in kinds[:r.choice([3, 4])]:
        fields = small(U.gen_fields(r, kind), kind)
        variants = [fields, fields, vary(r, kind, fields)]
        if r.random() < 0.4:
            variants.append(fields)           # same fields, the other wrapper
            objs = [U.make_cap(kind, f, is_dir) for f in variants[:3]] + [U.make_cap(kind, fields, not is_dir)]
        else:
            objs = [U.make_cap(kind, f, is_dir) for f in variants]
        pool += objs
    s = U.random_printable(r) or b"x"
    pool += [u.from_string(b"lafs://future"), u.from_string(b"lafs://future"), u.from_string(s), u.UnknownURI(pool[0].to_string())]
    # a cap refused by its context is an UnknownURI holding a known cap's string
    pool.append(u.from_string(pool[0].to_string(), deep_immutable=True))
    out = []
    for i, o in enumerate(pool):
        out.append((o, "{| co_id := %d; co_cap := %s |}" % (i, U.cap_term(U.describe(o))), o.to_string()))
    return out


def caps(ctx):
    ctx.correspondence("cap-identity-vs-model")
    n = ctx.n(2, 24)
    preamble, terms, info = [], [], []
    for rnd in range(n):
        r = ctx.rng("caps", rnd)
        pool = cap_pool(r)
        names = []
        for i, (o, term, s) in enumerate(pool):
            nm = "c%d_%d" % (rnd, i)
            preamble.append("Definition %s : capobj := %s." % (nm, term))
            names.append(nm)
        for i, (a, _, sa) in enumerate(pool):
            for j, (b, _, sb) in enumerate(pool):
                case = {"round": rnd, "a": type(a).__name__, "b": type(b).__name__, "a_string": U.show(sa), "b_string": U.show(sb), "same_object": i == j, "same_string": sa == sb}
                res = compare(ctx, a, b, sa, sb, "caps", case)
                ctx.case((type(a).__name__, type(b).__name__, sa, sb, i == j), kind="cap-pair:" + ("same-string" if sa == sb else "different"))
                if res is None:
                    continue
                eq, ne, ha, hb = res
                terms.append("Bool.eqb (cap_eq %s %s) %s && Bool.eqb (cap_ne %s %s) %s && Bool.eqb (hkey_eqb (cap_hash %s) (cap_hash %s)) %s" % (
                    names[i], names[j], T.boolean(eq), names[i], names[j], T.boolean(ne), names[i], names[j], T.boolean(ha == hb)))
                info.append(case)
        if rnd == 0:
            ctx.sample({"cap_pool_classes": sorted(set(type(o).__name__ for o, _, _ in pool)), "pairs": len(pool) ** 2})
    bad = ctx.coq_check(IMPORTS, terms, preamble="\n".join(preamble), tag="c43caps", shard=120)
    for ix in bad:
        ctx.mismatch("model-vs-impl:cap-identity", "Model cap_eq/cap_ne/cap_hash and the implementation differ on %s vs %s" % (info[ix]["a"], info[ix]["b"]),
                     case=info[ix], correspondence="cap-identity-vs-model")
    ctx.trace(len(terms) - len(bad))


def build_node(nm, cap):
    """The node NodeMaker builds for a cap object (None when it builds none)."""
    return nm._create_from_single_cap(cap)


def node_pool(r, nm):
    from allmydata.unknown import UnknownNode
    u = U.uri_mod()
    pool = []       # (node, model term, key)
    # one cap per node class, so that every pair of classes meets in every round
    specs = [("CHK", False), ("LIT", False), ("CHKVerifier", False),
             (r.choice(["SSK", "SSKRO", "MDMF", "MDMFRO"]), False),
             (r.choice(["SSK", "SSKRO", "CHK", "LIT", "MDMF", "MDMFRO"]), True)]
    if r.random() < 0.4:
        specs.append((r.choice(["SSK", "MDMF"]), r.random() < 0.5))
    for kind, is_dir in specs:
        fields = small(U.gen_fields(r, kind), kind)
        for f in (fields, fields, vary(r, kind, fields)):
            cap = U.make_cap(kind, f, is_dir)
            node = build_node(nm, cap)
            pool.append((node, cap))
        if kind in ("SSK", "MDMF"):
            # RELATED caps: different capability strings for the same slot (same storage index) --
            # the read-only cap derived from the write cap, the same keys in the other format, the
            # same write key with another fingerprint
            related = [U.make_cap(kind, fields, is_dir).get_readonly(),
                       U.make_cap("MDMF" if kind == "SSK" else "SSK", fields, is_dir),
                       U.make_cap(kind, (fields[0], vary(r, kind, fields[1:])[0]), is_dir)]
            r.shuffle(related)
            for cap in related[:2]:
                pool.append((build_node(nm, cap), cap))
        if kind in ("SSKRO", "MDMFRO"):
            related = [U.make_cap("MDMFRO" if kind == "SSKRO" else "SSKRO", fields, is_dir),
                       U.make_cap(kind, (fields[0], vary(r, kind, fields[1:])[0]), is_dir)]
            pool.append((build_node(nm, r.choice(related)), None))
            pool[-1] = (pool[-1][0], pool[-1][0].get_cap())
    for rw, ro in [(None, b"ro.lafs://future"), (None, b"ro.lafs://future"), (b"lafs://rw", b"lafs://ro"), (b"lafs://rw", b"lafs://other-ro"),
                   (None, None), (b"lafs://rw", None)][:r.choice([3, 4])]:
        pool.append((UnknownNode(rw, ro), None))
    out = []
    for i, (node, cap) in enumerate(pool):
        cname = type(node).__name__
        if cname == "UnknownNode":
            term = "(NodeUnknown %d %s %s)" % (i, "None" if node.rw_uri is None else "(Some %s)" % T.bytes_(node.rw_uri),
                                               "None" if node.ro_uri is None else "(Some %s)" % T.bytes_(node.ro_uri))
            key = ("pair", node.rw_uri, node.ro_uri)
        else:
            ctor = {"ImmutableFileNode": "NodeImmutable", "LiteralFileNode": "NodeLiteral", "MutableFileNode": "NodeMutable",
                    "DirectoryNode": "NodeDirectory", "CiphertextFileNode": "NodeCiphertext"}[cname]
            held = node.get_verify_cap() if cname == "CiphertextFileNode" else node.get_cap()
            term = "(%s %d {| co_id := %d; co_cap := %s |})" % (ctor, i, 1000 + i, U.cap_term(U.describe(held)))
            key = ("str", held.to_string())
            uri_s = node.get_verify_cap().to_string() if cname == "CiphertextFileNode" else node.get_uri()
            assert uri_s == held.to_string() == cap.to_string()
        out.append((node, term, key))
    return out


def nodes(ctx):
    from allmydata.nodemaker import NodeMaker
    ctx.correspondence("node-identity-vs-model")
    nm = NodeMaker(None, None, None, None, None, {"k": 3, "n": 10}, None, None)
    n = ctx.n(2, 20)
    preamble, terms, info = [], [], []
    seen_classes = set()
    for rnd in range(n):
        r = ctx.rng("nodes", rnd)
        pool = node_pool(r, nm)
        names = []
        for i, (o, term, key) in enumerate(pool):
            nm_ = "n%d_%d" % (rnd, i)
            preamble.append("Definition %s : node := %s." % (nm_, term))
            names.append(nm_)
            seen_classes.add(type(o).__name__)
        for i, (a, _, ka) in enumerate(pool):
            for j, (b, _, kb) in enumerate(pool):
                case = {"round": rnd, "a": type(a).__name__, "b": type(b).__name__,
                        "a_cap": str(U.jcase(ka[1:]))[:200], "b_cap": str(U.jcase(kb[1:]))[:200], "same_object": i == j, "same_string": ka == kb}
                res = compare(ctx, a, b, ka, kb, "nodes", case)
                ctx.case((type(a).__name__, type(b).__name__, ka, kb, i == j), kind="node-pair:%s:%s" % (type(a).__name__, "same-string" if ka == kb else "different"))
                if res is None:
                    continue
                eq, ne, ha, hb = res
                hash_same = (ha == hb) if ha[0] == "hash" and hb[0] == "hash" else (ha[0] == hb[0])
                terms.append("Bool.eqb (node_eq %s %s) %s && Bool.eqb (node_ne %s %s) %s && Bool.eqb (hkey_eqb (node_hash %s) (node_hash %s)) %s && Bool.eqb (nkey_eqb (node_key %s) (node_key %s)) %s" % (
                    names[i], names[j], T.boolean(eq), names[i], names[j], T.boolean(ne), names[i], names[j], T.boolean(hash_same),
                    names[i], names[j], T.boolean(ka == kb)))
                info.append(case)
    ctx.note("node classes compared pairwise: " + ", ".join(sorted(seen_classes)))
    ctx.note("UnknownNode defines __eq__ without __hash__: hash() raises TypeError (modelled as HUnhashable): known finding object-unhashable:UnknownNode")
    bad = ctx.coq_check(IMPORTS, terms, preamble="\n".join(preamble), tag="c43nodes", shard=120)
    for ix in bad:
        ctx.mismatch("model-vs-impl:node-identity", "Model node_eq/node_ne/node_hash and the implementation differ on %s vs %s" % (info[ix]["a"], info[ix]["b"]),
                     case=info[ix], correspondence="node-identity-vs-model")
    ctx.trace(len(terms) - len(bad))


def edit_in_place(cap, kind, is_dir, new_fields):
    """Set the attributes behind the constructor arguments (as test code and repair tools do:
    `u.key = ...`, `u.size = ...`); for a directory cap, on the wrapped file cap."""
    target = cap.get_filenode_cap() if is_dir else cap
    for attr, v in zip(U.FIELD_ATTRS[kind], new_fields):
        setattr(target, attr, v)


def hash_histories(ctx):
    """hash(a) (as a dict / set key), then a is edited in place (or copied and the copy edited),
    then compared and hashed again: at every moment objects that are equal -- by their CURRENT
    capability string -- must hash equally, and equality must follow the current string."""
    import copy
    from allmydata.nodemaker import NodeMaker
    ctx.correspondence("hash-after-edit-vs-model")
    nm = NodeMaker(None, None, None, None, None, {"k": 3, "n": 10}, None, None)
    preamble, terms, info = [], [], []
    n = ctx.n(27, 360)
    for i in range(n):
        r = ctx.rng("hist", i)
        kind = U.FILE_KINDS[i % 9]
        is_dir = (i // 9) % 2 == 1
        fields = small(U.gen_fields(r, kind), kind)
        new_fields = vary(r, kind, fields)
        how = ("edit", "copy-then-edit", "node-over-edited-cap")[(i // 18) % 3]
        if how == "node-over-edited-cap" and (kind.endswith("Verifier") or (is_dir and False)):
            how = "edit"
        a = U.make_cap(kind, fields, is_dir)
        twin_old = U.make_cap(kind, fields, is_dir)
        seen = {a: "as dict key"}                      # hash(a) is taken here
        h_before = hash(a)
        if how == "copy-then-edit":
            b = copy.copy(a)
            if is_dir:
                b._filenode_uri = copy.copy(a.get_filenode_cap())
            edit_in_place(b, kind, is_dir, new_fields)
            edited = b
        else:
            edit_in_place(a, kind, is_dir, new_fields)
            edited = a
        fresh = U.make_cap(kind, new_fields, is_dir)
        case = {"history": how, "kind": kind, "dir": is_dir, "fields": U.jcase(fields), "new_fields": U.jcase(new_fields),
                "fields_hex": [x.hex() if isinstance(x, bytes) else x for x in fields],
                "new_fields_hex": [x.hex() if isinstance(x, bytes) else x for x in new_fields],
                "string_after": U.show(edited.to_string())}
        objs = [("edited", edited), ("fresh", fresh), ("twin_of_original", twin_old)]
        if how == "node-over-edited-cap":
            n1 = nm._create_from_single_cap(edited)
            n2 = nm._create_from_single_cap(fresh)
            if n1 is not None and type(n1).__name__ in ("ImmutableFileNode", "LiteralFileNode", "MutableFileNode"):
                objs = [("node_over_edited", n1), ("node_over_fresh", n2)]
        ctx.case((how, kind, is_dir, fields, new_fields), kind="hash-history:%s:%s" % (how, type(a).__name__))
        if i < 2:
            ctx.sample(case)
        names = {}
        for label, o in objs:
            nm_ = "h%d_%s" % (i, label)
            names[label] = nm_
            if label.startswith("node"):
                ctor = {"ImmutableFileNode": "NodeImmutable", "LiteralFileNode": "NodeLiteral", "MutableFileNode": "NodeMutable"}[type(o).__name__]
                preamble.append("Definition %s : node := (%s %d {| co_id := %d; co_cap := %s |})." % (nm_, ctor, len(names), 50 + len(names), U.cap_term(U.describe(o.get_cap()))))
            else:
                preamble.append("Definition %s : capobj := {| co_id := %d; co_cap := %s |}." % (nm_, len(names), U.cap_term(U.describe(o))))
        for la, oa in objs:
            for lb, ob in objs:
                sa = oa.get_uri() if la.startswith("node") else oa.to_string()
                sb = ob.get_uri() if lb.startswith("node") else ob.to_string()
                c2 = dict(case, a=la, b=lb)
                res = compare(ctx, oa, ob, sa, sb, "hash-history", c2)
                if res is None:
                    continue
                eq, ne, ha, hb = res
                fn = ("node_eq", "node_ne", "node_hash") if la.startswith("node") else ("cap_eq", "cap_ne", "cap_hash")
                terms.append("Bool.eqb (%s %s %s) %s && Bool.eqb (%s %s %s) %s && Bool.eqb (hkey_eqb (%s %s) (%s %s)) %s" % (
                    fn[0], names[la], names[lb], T.boolean(eq), fn[1], names[la], names[lb], T.boolean(ne),
                    fn[2], names[la], fn[2], names[lb], T.boolean(ha == hb)))
                info.append(c2)
        del seen
    bad = ctx.coq_check(IMPORTS, terms, preamble="\n".join(preamble), tag="c43hist", shard=120)
    for ix in bad:
        ctx.mismatch("model-vs-impl:identity-after-edit", "Model and implementation differ on ==/!=/hash of %s vs %s after history '%s' over a %s" % (
            info[ix]["a"], info[ix]["b"], info[ix]["history"], info[ix]["kind"]), case=info[ix], correspondence="hash-after-edit-vs-model")
    ctx.trace(len(terms) - len(bad))


def run(ctx):
    caps(ctx)
    nodes(ctx)
    hash_histories(ctx)


def replay(ctx, rec):
    """Rebuild the pool of the recorded round and re-evaluate the recorded pair class."""
    case = rec.get("case") or {}
    if "history" in case:
        import copy
        kind, is_dir = case["kind"], case["dir"]
        fields = tuple(bytes.fromhex(x) if isinstance(x, str) else x for x in case["fields_hex"])
        new_fields = tuple(bytes.fromhex(x) if isinstance(x, str) else x for x in case["new_fields_hex"])
        a = U.make_cap(kind, fields, is_dir)
        h0 = hash(a)
        edited = a
        if case["history"] == "copy-then-edit":
            edited = copy.copy(a)
            if is_dir:
                edited._filenode_uri = copy.copy(a.get_filenode_cap())
        edit_in_place(edited, kind, is_dir, new_fields)
        fresh = U.make_cap(kind, new_fields, is_dir)
        res = compare(ctx, edited, fresh, edited.to_string(), fresh.to_string(), "replay", case)
        return {"hash_before_edit": h0, "string_after_edit": U.show(edited.to_string()), "edited == fresh": res[0], "edited != fresh": res[1],
                "hash(edited)": res[2], "hash(fresh)": res[3]}
    if "round" not in case:
        return {"note": "no pool round recorded"}
    from allmydata.nodemaker import NodeMaker
    rctx = type(ctx)(ctx.pid, rec.get("tier", "quick"), rec.get("seed", 0))
    out = []
    if "a_cap" in case:
        nm = NodeMaker(None, None, None, None, None, {"k": 3, "n": 10}, None, None)
        pool = node_pool(rctx.rng("nodes", case["round"]), nm)
    else:
        pool = cap_pool(rctx.rng("caps", case["round"]))
    for i, (a, _, ka) in enumerate(pool):
        for j, (b, _, kb) in enumerate(pool):
            if type(a).__name__ == case["a"] and type(b).__name__ == case["b"] and (i == j) == case["same_object"] and (ka == kb) == case.get("same_string", True):
                res = compare(ctx, a, b, ka, kb, "replay", case)
                out.append({"a": repr(a)[:80], "b": repr(b)[:80], "eq": res[0], "ne": res[1], "hash_equal": res[2] == res[3], "same_cap_string": ka == kb})
                if len(out) >= 3:
                    return out
    return out
