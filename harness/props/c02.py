"""C02  Immutable downloads never return wrong bytes."""
import hashlib
import struct

from core import term as T

ID = "C02"
GEN = ["immconsts"]
RULE = ("grid cases: files of 56..400 bytes around segment boundaries, 1<=k<=N<=10, max segment size 16..160 (1..9 segments), "
        "then one adversarial scenario: random byte flips in any subset of shares, targeted corruption of one field (version, each "
        "offset-table entry, UEB, each share-hash-chain entry number/value, each block-hash-tree node, each crypttext-hash-tree node, "
        "each block, unused regions), truncation at any length, shares swapped between share numbers, between two files and between two "
        "encodings of the same key, servers whose read answers change (fault plan on the n-th read), each read in full or by range "
        "through a recording consumer, once or twice on the same node; files uploaded with a large max segment size (blocks of 262145..600000 "
        "bytes, k = 1..3) with one byte flipped at positions over the whole block incl. every 256 KiB boundary and the last bytes; one, several or all shares cut to 0..37 bytes of share data (shorter than "
        "the offset table) where the read must finish or fail; multi-segment files damaged only in a later segment of most shares, read whole and "
        "again on the same node (must finish or fail); all shares in use with the UEB length word set to 0 / too large or cut inside "
        "the UEB body (must finish or fail); an honest read followed by replacement of all shares by another file's shares under "
        "the same key and reads through new nodes; non-trivial = the scenario damaged at least one share that the "
        "download touched; distinct = distinct (file parameters, scenario, damage)")
META = {
    "title": "Immutable downloads never return wrong bytes",
    "level_text": ("Theorems in Coq over a model of the downloader's validation pipeline (Share._get_satisfaction in the order the code "
                   "performs it, validate_and_store_UEB, process_share_hashes, CommonShare, _decode_blocks/_check_ciphertext_hash, "
                   "SegmentFetcher, Segmentation via C01's read_plan) on top of the C35 hash-tree model: for arbitrary share contents, "
                   "share numbers and answers that change between calls, a block accepted for (share, segment) is the uploader's block, a "
                   "delivered segment is the uploader's ciphertext segment, and what reaches the consumer before a read ends is a prefix of "
                   "the requested range (all of it if the read completes).  The model is compared with the real downloader on single-field "
                   "corruptions (accept/reject class of a download forced to use the damaged share), and the real downloader is run on a "
                   "real in-process grid against generated adversarial shares with the property itself as oracle."),
    "level_note": ("core (partial): hash functions are injective by hypothesis (collision resistance of tagged SHA-256d is not proved), "
                   "uri.unpack_extension inverts pack_extension by hypothesis (C38), AES-CTR decryption of the delivered ciphertext is C01's "
                   "ctr_position; the event-driven scheduling of share requests (which share supplies a shared field first), timers and the "
                   "byte-level fetching/spans logic are exercised on the grid, not modelled; termination (a download that waits for ever "
                   "on a damaged share) is C46's subject: here `hung` counts as no data delivered."),
    "technique": "Coq proof over an executable model of the validation pipeline + differential run vs the real downloader + adversarial grid runs with oracle",
    "design_ref": "8/C02",
    "trusted_base": ["abstraction of a share's bytes into the fields the downloader reads (harness/props/c02.py: field_view), mirroring Share._satisfy_* read positions",
                     "symbolic naming of 32-byte hash values by their position in the recomputed genuine trees (hashlib)"],
    "assumptions": ["hash injectivity on the values hashed (block, crypttext segment, UEB, Merkle pair)", "unpack_extension(pack_extension(d)) = d"],
}
IMPORTS = ["Lib.Hex", "Model.HashTree", "Model.ImmFile", "Model.ImmVerify"]

HASH_SIZE = 32


# ---- independent re-implementation of the hashes and trees (hashlib only) -----------------------
def _ns(b):
    return b"%d:" % len(b) + b + b","


def _d(b):
    return hashlib.sha256(hashlib.sha256(b).digest()).digest()


def tagged(tag, val):
    return _d(_ns(tag) + val)


def tagged_pair(tag, a, b):
    return _d(_ns(tag) + _ns(a) + _ns(b))


def block_hash(d):
    return tagged(b"allmydata_encoded_subshare_v1", d)


def ct_segment_hash(d):
    return tagged(b"allmydata_crypttext_segment_v1", d)


def ueb_hash(d):
    return tagged(b"allmydata_uri_extension_v1", d)


def pair_hash(a, b):
    return tagged_pair(b"Merkle tree internal node", a, b)


def empty_leaf_hash(i):
    return tagged(b"Merkle tree empty leaf", b"%d" % i)


def pow2_ceil(n):
    p = 1
    while p < n:
        p *= 2
    return p


def merkle(leaves):
    """Flat list, root first (hashtree.HashTree layout)."""
    p = pow2_ceil(len(leaves))
    row = list(leaves) + [empty_leaf_hash(i) for i in range(len(leaves), p)]
    rows = [row]
    while len(rows[-1]) > 1:
        last = rows[-1]
        rows.append([pair_hash(last[2 * i], last[2 * i + 1]) for i in range(len(last) // 2)])
    out = []
    for r in reversed(rows):
        out.extend(r)
    return out


def needed_chain(num_leaves, leaf):
    """Node numbers HashTree.needed_hashes(leaf, include_leaf=True) returns."""
    p = pow2_ceil(num_leaves)
    i = p - 1 + leaf
    out = [i]
    while i != 0:
        sib = i + 1 if i % 2 == 1 else i - 1
        out.append(sib)
        i = (i - 1) // 2
    return out


def div_ceil(a, b):
    return -(-a // b)


def sizes(size, k, segsize):
    """DownloadNode._calculate_sizes."""
    tail = size % segsize or segsize
    padded = div_ceil(tail, k) * k
    return {"num_segments": div_ceil(size, segsize), "block_size": segsize // k, "tail_block_size": padded // k,
            "tail_segment_size": tail, "tail_segment_padded": padded}


# ---- share container and payload ---------------------------------------------------------------
LEASE_SIZE = 72


def split_container(raw):
    """Immutable ShareFile: 12-byte header, payload, leases."""
    (_v, _unused, nleases) = struct.unpack(">LLL", raw[:12])
    end = len(raw) - nleases * LEASE_SIZE
    return raw[:12], raw[12:end], raw[end:]


def join_container(head, payload, leases):
    return head + payload + leases


FIELDS = ["data", "plaintext_hash_tree", "crypttext_hash_tree", "block_hashes", "share_hashes", "uri_extension"]


def parse_header(payload):
    """(version, fieldsize, offsets dict) or None when the bytes are not there / version unknown."""
    if len(payload) < 4:
        return None
    (version,) = struct.unpack(">L", payload[:4])
    if version == 1:
        start, fs, fmt = 0x0c, 4, ">L"
    elif version == 2:
        start, fs, fmt = 0x14, 8, ">Q"
    else:
        return (version, None, None)
    if len(payload) < start + 6 * fs:
        return None
    offs = {}
    for i, name in enumerate(FIELDS):
        (offs[name],) = struct.unpack(fmt, payload[start + i * fs:start + (i + 1) * fs])
    return (version, fs, offs)


def offset_pos(version, name):
    """Byte position of an offset-table entry in the payload."""
    start, fs = (0x0c, 4) if version == 1 else (0x14, 8)
    return start + FIELDS.index(name) * fs, fs


class Genuine(object):
    """Everything the oracle and the model need to know about an uploaded file, recomputed from the
    shares as first written (blocks) with hashlib, and cross-checked against what the uploader stored."""

    def __init__(self, cap_bytes, payloads):
        from allmydata import uri
        self.u = uri.from_string(cap_bytes)
        self.k, self.n, self.size = self.u.needed_shares, self.u.total_shares, self.u.size
        self.payloads = dict(payloads)            # shnum -> payload bytes
        any_p = next(iter(self.payloads.values()))
        ver, fs, offs = parse_header(any_p)
        ueb_len = struct.unpack(">L" if fs == 4 else ">Q", any_p[offs["uri_extension"]:offs["uri_extension"] + fs])[0]
        self.ueb_bytes = any_p[offs["uri_extension"] + fs:offs["uri_extension"] + fs + ueb_len]
        self.ueb = uri.unpack_extension(self.ueb_bytes)
        self.segsize = self.ueb["segment_size"]
        self.sz = sizes(self.size, self.k, self.segsize)
        self.nseg = self.sz["num_segments"]
        self.problems = []
        self.blocks = {}      # shnum -> [block per segment]
        self.bht = {}
        for shnum, p in self.payloads.items():
            ver, fs, offs = parse_header(p)
            bl = []
            for j in range(self.nseg):
                ln = self.sz["tail_block_size"] if j == self.nseg - 1 else self.sz["block_size"]
                st = offs["data"] + j * self.sz["block_size"]
                bl.append(p[st:st + ln])
            self.blocks[shnum] = bl
            self.bht[shnum] = merkle([block_hash(b) for b in bl])
            stored = [p[offs["block_hashes"] + 32 * i:offs["block_hashes"] + 32 * i + 32] for i in range(len(self.bht[shnum]))]
            if stored != self.bht[shnum]:
                self.problems.append("share %d: stored block hash tree differs from the Merkle tree over its blocks" % shnum)

    def finish(self, ciphertext_segments):
        """ciphertext segments (known from decoding k shares with the real codec) -> crypttext tree; share tree
        needs every share's block tree root, so it is only available when all N payloads were given."""
        self.segs = list(ciphertext_segments)
        self.cht = merkle([ct_segment_hash(s) for s in self.segs])
        if self.ueb["crypttext_root_hash"] != self.cht[0]:
            self.problems.append("UEB crypttext_root_hash differs from the Merkle root over the ciphertext segments")
        if len(self.payloads) == self.n:
            self.sht = merkle([self.bht[i][0] for i in range(self.n)])
            if self.ueb["share_root_hash"] != self.sht[0]:
                self.problems.append("UEB share_root_hash differs from the Merkle root over the block hash tree roots")
            for shnum, p in self.payloads.items():
                ver, fs, offs = parse_header(p)
                chain = p[offs["share_hashes"]:offs["uri_extension"]]
                got = [(struct.unpack(">H", chain[i:i + 2])[0], chain[i + 2:i + 34]) for i in range(0, len(chain), 34)]
                want = [(i, self.sht[i]) for i in needed_chain(self.n, shnum)]
                if sorted(got) != sorted(want):
                    self.problems.append("share %d: stored share hash chain differs from needed_hashes(%d, include_leaf)" % (shnum, shnum))
            if ueb_hash(self.ueb_bytes) != self.u.uri_extension_hash:
                self.problems.append("cap's UEB hash differs from the hash of the stored UEB")
        else:
            self.sht = None
        return self


def decode_segments(g):
    """Ciphertext segments from the first k shares' blocks with the real zfec decoder (oracle side)."""
    import zfec
    ids = sorted(g.blocks)[:g.k]
    segs = []
    for j in range(g.nseg):
        blocks = [g.blocks[i][j] for i in ids]
        if g.k == 1:
            seg = blocks[0]
        else:
            seg = b"".join(zfec.Decoder(g.k, g.n).decode(blocks, ids))
        if j == g.nseg - 1:
            seg = seg[:g.sz["tail_segment_size"]]
        segs.append(seg)
    return segs


# ---- Coq rendering ---------------------------------------------------------------------------------
def coq_bytes(b):
    return T.bytes_(b) if b else "[]"


class Namer(object):
    """Names for the byte strings of a case.  The model only ever compares blocks, segments and hashes for
    equality, so every distinct byte string is replaced by a short unique stand-in (an injective renaming;
    literals cost ~5 ms per byte to elaborate in Coq):
      32-byte hash value -> the genuine tree node it equals (F_bn/F_sn/F_cn), else HJunk z
      block contents     -> [id] with one id per distinct content (genuine blocks first), junk ids above 500000
      ciphertext segment j -> [100000 + j]"""

    def __init__(self, name, g):
        self.name = name
        self.table = {}
        self.junk = {}
        self.blocks = {}
        for j in range(g.nseg):
            for i in range(g.n):
                self.blocks.setdefault(g.blocks[i][j], len(self.blocks) + 1)
        for i in range(g.n):
            for idx, h in enumerate(g.bht[i]):
                self.table.setdefault(h, "(%s_bn %s %s)" % (name, T.Z(i), T.Z(idx)))
        for idx, h in enumerate(g.cht):
            self.table.setdefault(h, "(%s_cn %s)" % (name, T.Z(idx)))
        for idx, h in enumerate(g.sht):
            # block tree roots are both bn(i,0) and sn(leaf): equal terms in the model too
            self.table.setdefault(h, "(%s_sn %s)" % (name, T.Z(idx)))

    def block(self, b):
        if b not in self.blocks:
            self.blocks[b] = 500000 + len(self.blocks)
        return "[%s]" % T.N(self.blocks[b])

    def segment(self, j):
        return "[%s]" % T.N(100000 + j)

    def __call__(self, h):
        if h in self.table:
            return self.table[h]
        if h not in self.junk:
            self.junk[h] = "(HJunk %s)" % T.Z(len(self.junk) + 1)
        return self.junk[h]


def coq_efile(g, namer):
    """mkEf k n size segsize segs blocks (blocks[segment][share]) over the stand-in names."""
    segs = T.lst([namer.segment(j) for j in range(g.nseg)])
    blocks = T.lst([T.lst([namer.block(g.blocks[i][j]) for i in range(g.n)]) for j in range(g.nseg)])
    return "(mkEf %s %s %s %s %s %s)" % (T.N(g.k), T.N(g.n), T.N(g.size), T.N(g.segsize), segs, blocks)


def preamble_for(name, g, namer):
    """The genuine file and its trees, computed once per file (normal forms) and shared by all cases."""
    return ("Definition %(n)s : efile := %(ef)s.\n"
            "Definition %(n)s_bhts : list (list hs) := Eval vm_compute in map (fun i => sym_g_bht %(n)s (Z.of_nat i)) (seq 0 %(N)d).\n"
            "Definition %(n)s_sht : list hs := Eval vm_compute in sym_g_sht %(n)s.\n"
            "Definition %(n)s_cht : list hs := Eval vm_compute in sym_g_cht %(n)s.\n"
            "Definition %(n)s_cap := Eval vm_compute in sym_g_cap [] %(n)s.\n"
            "Definition %(n)s_bn (i k : Z) : hs := nth (Z.to_nat k) (nth (Z.to_nat i) %(n)s_bhts []) (HPad 0).\n"
            "Definition %(n)s_sn (k : Z) : hs := nth (Z.to_nat k) %(n)s_sht (HPad 0).\n"
            "Definition %(n)s_cn (k : Z) : hs := nth (Z.to_nat k) %(n)s_cht (HPad 0).\n"
            "Definition %(n)s_ueb : ub := Eval vm_compute in UbOk (sym_g_ueb %(n)s).\n"
            ) % {"n": name, "ef": coq_efile(g, namer), "N": g.n}


def field_view(payload, g):
    """What Share._satisfy_* would read out of `payload` for a file with g's parameters, as a dict:
    version, offsets (or None), ueb (bytes or None), share_hashes (list or None), block_hashes {idx: bytes},
    ct_hashes {idx: bytes}, blocks {segnum: bytes}.  Mirrors the read positions only; no validation."""
    hdr = parse_header(payload)
    if hdr is None:
        return None                                  # not even a version/offset table: nothing can be read
    version, fs, offs = hdr
    if offs is None:
        return {"version": version, "offsets": None}

    def rd(start, length):
        if length < 0 or start + length > len(payload):
            return None
        return payload[start:start + length]

    v = {"version": version, "offsets": offs}
    lf = rd(offs["uri_extension"], fs)
    v["ueb"] = None
    if lf:
        (ln,) = struct.unpack(">L" if fs == 4 else ">Q", lf)
        ub = rd(offs["uri_extension"] + fs, ln)
        v["ueb"] = ub if ub else None
    hl = offs["uri_extension"] - offs["share_hashes"]
    v["share_hashes"] = None
    if hl >= 0 and hl % 34 == 0:
        d = rd(offs["share_hashes"], hl)
        if d is not None:
            v["share_hashes"] = [(struct.unpack(">H", d[i:i + 2])[0], d[i + 2:i + 34]) for i in range(0, hl, 34)]
    nnodes = 2 * pow2_ceil(g.nseg) - 1
    v["block_hashes"] = {}
    v["ct_hashes"] = {}
    for i in range(nnodes):
        h = rd(offs["block_hashes"] + 32 * i, 32)
        if h:
            v["block_hashes"][i] = h
        h = rd(offs["crypttext_hash_tree"] + 32 * i, 32)
        if h:
            v["ct_hashes"][i] = h
    v["blocks"] = {}
    for j in range(g.nseg):
        ln = g.sz["tail_block_size"] if j == g.nseg - 1 else g.sz["block_size"]
        b = rd(offs["data"] + j * g.sz["block_size"], ln)
        if b:
            v["blocks"][j] = b
    return v


def coq_share(view, g, name, namer):
    """Render a field view as a Coq `share hs ub`."""
    if view is None:
        # nothing readable: version 0 makes the model stop where the code never gets an offset table
        return "(mkShare 0 (mk_off 0 0 0 0 0 0) None None [] [] [])"
    if view["offsets"] is None:
        return "(mkShare %s (mk_off 0 0 0 0 0 0) None None [] [] [])" % T.N(view["version"])
    o = view["offsets"]
    off = "(mk_off %s)" % " ".join(T.N(o[f]) for f in FIELDS)
    if view["ueb"] is None:
        ueb = "None"
    elif view["ueb"] == g.ueb_bytes:
        ueb = "(Some %s_ueb)" % name
    else:
        ueb = "(Some (UbJunk 1))"
    if view["share_hashes"] is None:
        sh = "None"
    else:
        sh = "(Some %s)" % T.lst(["(%s, %s)" % (T.Z(i), namer(h)) for i, h in view["share_hashes"]])
    bh = T.lst(["(%s, %s)" % (T.Z(i), namer(h)) for i, h in sorted(view["block_hashes"].items())])
    ch = T.lst(["(%s, %s)" % (T.Z(i), namer(h)) for i, h in sorted(view["ct_hashes"].items())])
    bl = T.lst(["(%s, %s)" % (T.Z(j), namer.block(b)) for j, b in sorted(view["blocks"].items())])
    return "(mkShare %s %s %s %s %s %s %s)" % (T.N(view["version"]), off, ueb, sh, bh, ch, bl)


# ---- running the real downloader -----------------------------------------------------------------------
class Recorder(object):
    """IConsumer that records every write (what reached the application before the read ended)."""

    def __init__(self):
        from zope.interface import directlyProvides
        from twisted.internet.interfaces import IConsumer
        directlyProvides(self, IConsumer)
        self.chunks = []
        self.done = False

    def registerProducer(self, p, streaming):
        self.producer = p
        if streaming:
            p.resumeProducing()
        else:
            while not self.done:
                p.resumeProducing()

    def write(self, data):
        self.chunks.append(bytes(data))

    def unregisterProducer(self):
        self.done = True


def fresh_node(g, cap):
    """A new ImmutableFileNode (no cached DownloadNode state) on client 0."""
    from allmydata import uri
    return g.client(0).nodemaker._create_immutable(uri.from_string(cap))


def read_through(g, node, offset=0, size=None, timeout=20):
    """(status, error class, chunks delivered) for node.read(consumer, offset, size)."""
    rec = Recorder()
    out = g.run(lambda: node.read(rec, offset, size), outcome=True, timeout=timeout)
    return out.status, out.error, rec.chunks


def judge(ctx, data, offset, size, status, err, chunks, case, what):
    """The property itself: exact bytes or an error, and a correct prefix before an error."""
    want = data[offset:] if size is None else data[offset:offset + size]
    got = b"".join(chunks)

    def clip(b, at):
        # long reads: keep the replay record small, show the bytes around the first difference
        return b.hex() if len(b) <= 600 else {"bytes_from": max(0, at - 32), "hex": b[max(0, at - 32):at + 32].hex(), "length": len(b)}
    if status == "ok":
        if got != want:
            at = next((i for i in range(min(len(got), len(want))) if got[i] != want[i]), min(len(got), len(want)))
            ctx.oracle_fail("download-returned-wrong-bytes:" + what,
                            "read(%d, %r) completed with %d bytes that are not the uploaded bytes (first difference at %d)" % (offset, size, len(got), at),
                            case=case, expected=clip(want, at), observed=clip(got, at))
            return False
    else:
        if want[:len(got)] != got:
            ctx.oracle_fail("bytes-before-error-not-a-prefix:" + what,
                            "read(%d, %r) ended with %s after delivering %d bytes that are not a prefix of the requested range" % (offset, size, err or status, len(got)),
                            case=case, expected=clip(want[:len(got)], next((i for i in range(len(got)) if got[i] != want[i:i + 1][:1] or i >= len(want)), 0)),
                            observed=clip(got, next((i for i in range(len(got)) if i >= len(want) or got[i] != want[i]), 0)))
            return False
    return True


def upload_file(g, data, conv=b"c02"):
    cap = g.run(g.upload(data, convergence=conv))
    shares = g.find_shares(cap)
    raws = {s.shnum: g.read_share(s) for s in shares}
    pay = {sn: split_container(r)[1] for sn, r in raws.items()}
    gen = Genuine(cap, pay)
    gen.finish(decode_segments(gen))
    return cap, shares, raws, gen


def set_payload(g, share, raw, payload):
    head, _p, leases = split_container(raw)
    g.write_share(share, join_container(head, payload, leases))


# ---- single-field corruption: model classification vs implementation -----------------------------------
def targeted_mutations(r, gen, shnum, payload):
    """[(label, new payload)]: one damaged field each, chosen from every field class of the share."""
    ver, fs, offs = parse_header(payload)
    nnodes = 2 * pow2_ceil(gen.nseg) - 1
    out = []

    def flip(pos, label):
        if 0 <= pos < len(payload):
            b = bytearray(payload)
            b[pos] ^= r.choice([1, 2, 0x80, 0xff])
            out.append((label, bytes(b)))

    def put(pos, new, label):
        b = bytearray(payload)
        b[pos:pos + len(new)] = new
        out.append((label, bytes(b)))

    flip(r.randrange(0, 4), "version")
    flip(4 + r.randrange(0, fs), "header-block-size")
    flip(4 + fs + r.randrange(0, fs), "header-data-size")
    for f in FIELDS:
        pos, fsz = offset_pos(ver, f)
        flip(pos + fsz - 1, "offset:" + f)
        delta = r.choice([-64, -34, -32, -1, 1, 32, 34, 64, 1000])
        put(pos, struct.pack(">L" if fsz == 4 else ">Q", max(0, offs[f] + delta)), "offset:%s%+d" % (f, delta))
    for j in range(gen.nseg):
        ln = gen.sz["tail_block_size"] if j == gen.nseg - 1 else gen.sz["block_size"]
        flip(offs["data"] + j * gen.sz["block_size"] + r.randrange(ln), "block:%d" % j)
    flip(offs["plaintext_hash_tree"] + r.randrange(max(1, offs["crypttext_hash_tree"] - offs["plaintext_hash_tree"])), "unused-plaintext-hash-tree")
    for i in range(nnodes):
        flip(offs["crypttext_hash_tree"] + 32 * i + r.randrange(32), "crypttext-node:%d" % i)
        flip(offs["block_hashes"] + 32 * i + r.randrange(32), "block-hash-node:%d" % i)
    nch = (offs["uri_extension"] - offs["share_hashes"]) // 34
    for i in range(nch):
        flip(offs["share_hashes"] + 34 * i + r.randrange(2), "share-chain-number:%d" % i)
        flip(offs["share_hashes"] + 34 * i + 2 + r.randrange(32), "share-chain-value:%d" % i)
    flip(offs["uri_extension"] + r.randrange(fs), "ueb-length")
    flip(offs["uri_extension"] + fs + r.randrange(len(gen.ueb_bytes)), "ueb-body")
    for _ in range(3):
        cut = r.choice([offs["data"], offs["data"] + 1, offs["plaintext_hash_tree"], offs["crypttext_hash_tree"] + 32, offs["block_hashes"],
                        offs["block_hashes"] + 32 * r.randrange(nnodes), offs["share_hashes"], offs["share_hashes"] + 34,
                        offs["uri_extension"], offs["uri_extension"] + fs, len(payload) - 1, r.randrange(offs["data"], len(payload))])
        out.append(("truncate:%d" % cut, payload[:cut]))
    return out


def coq_plan(gen, offset, size, name, tries):
    """Model side of one read: planned by C01's read_plan (guess = the downloader's default), served by
    the validating pipeline from `tries`; result (number of chunks written, error class: 0 = completed)."""
    guess = div_ceil(min(gen.size, 1048576), gen.k) * gen.k
    tr = T.lst(["(%s, %s, (fun _ : nat => @nil Z))" % (T.Z(sn), sh) for sn, sh in tries])
    return ("(match read_plan %s %s %s %s %s with SegDone ws => "
            "let r := sym_serve (table_dec %s_tbl) %s_cap (sym_node_init %s_cap) ws (fun _ => (%s, @nil Z)) in (N.of_nat (List.length (fst r)), res_class (snd r)) "
            "| _ => (999, 999) end)" % (T.N(gen.size), T.N(gen.segsize), T.N(guess), T.N(offset), T.opt(T.N(size) if size is not None else None),
                                         name, name, name, tr))


def decode_table(name, gen, namer, shnums):
    """What the real decoder returns for the genuine blocks of `shnums` (sorted), per segment: that segment
    (the oracle-side Genuine object decoded them with the real zfec)."""
    rows = []
    for j in range(gen.nseg):
        key = T.lst(["(%s, %s)" % (T.N(i), namer.block(gen.blocks[i][j])) for i in shnums])
        rows.append("(%s, %s)" % (key, namer.segment(j)))
    return "Definition %s_tbl : list (list (N * list N) * list N) := %s.\n" % (name, T.lst(rows))


def coq_check_parallel(ctx, jobs, tag):
    """jobs: [(preamble, terms)] evaluated concurrently (one coqc per job and shard); returns [[failing indices]]."""
    import concurrent.futures

    def one(ix):
        pre, terms = jobs[ix]
        return ctx.coq_check(IMPORTS, terms, preamble=pre, tag="%s%d" % (tag, ix), shard=40)
    with concurrent.futures.ThreadPoolExecutor(max_workers=8) as ex:
        return list(ex.map(one, range(len(jobs))))


def error_class(status, err):
    """The model's verr_class of a read's end: 0 completed, 8 not enough usable shares, 7 ciphertext hash."""
    if status == "ok":
        return 0
    if status in ("hung", "timeout"):
        return 8            # no share ever delivered anything (C46's subject); the model stops with too few shares
    return {"NotEnoughSharesError": 8, "NoSharesError": 8, "BadCiphertextHashError": 7}.get(err, 99)


def classification(ctx):
    from core import grid as G
    ctx.correspondence("uploaded-share-vs-genuine-model")
    ctx.correspondence("single-field-corruption-vs-model")
    nfiles = ctx.n(5, 40)
    jobs, infos = [], []
    for fi in range(nfiles):
        classification_file(ctx, fi, jobs, infos)
    classification_eval(ctx, jobs, infos)


def classification_file(ctx, fi, jobs, infos):
    from core import grid as G
    per_file = ctx.n(24, 60)
    if True:
        terms, info = [], []
        r = ctx.rng("classify", fi)
        k = r.choice([1, 1, 1, 2, 3])
        n = r.choice([k, k + 1, k + 2, min(10, k + 5)])
        mss = r.choice([16, 24, 33, 48, 64])
        size = r.choice([56, 57, mss * 2, mss * 2 + 1, mss * 3 - 1, mss * 4, 150, 200])
        size = max(56, min(size, 9 * mss))
        data = bytes(r.getrandbits(8) for _ in range(size))
        seed = r.getrandbits(30)
        name = "F%d" % fi
        with G.Grid(num_servers=n, k=k, n=n, happy=1, max_segment_size=mss, seed=seed, timeout=180) as g:
            cap, shares, raws, gen = upload_file(g, data)
            for p in gen.problems:
                ctx.mismatch("uploaded-share-differs-from-recomputed-trees", p, case={"k": k, "n": n, "size": size, "max_segment_size": mss},
                             correspondence="uploaded-share-vs-genuine-model")
            namer = Namer(name, gen)
            pre = preamble_for(name, gen, namer)
            # the uploader's shares, field by field, against the model's genuine share and UEB
            for sh in shares:
                view = field_view(gen.payloads[sh.shnum], gen)
                o = view["offsets"]
                terms.append("share_eqb (sym_g_share %s %s (mk_off %s) %s) %s" % (
                    name, T.N(view["version"]), " ".join(T.N(o[f]) for f in FIELDS), T.Z(sh.shnum), coq_share(view, gen, name, namer)))
                info.append(("uploaded-share-vs-genuine-model", {"file": fi, "shnum": sh.shnum, "k": k, "n": n, "size": size, "max_segment_size": mss}, None))
            u = gen.ueb

            def p3(s):
                a, b, c = (int(x) for x in s.split(b"-"))
                return "(Some (%s, %s, %s))" % (T.N(a), T.N(b), T.N(c))
            terms.append("ueb_eqb (sym_g_ueb %s) (mkUeb %s %s %s %s %s %s (Some %s) (Some %s) (Some %s) (Some %s) (Some %s))" % (
                name, T.N(u["segment_size"]), namer(u["crypttext_root_hash"]), namer(u["share_root_hash"]),
                T.boolean(u.get("codec_name") == b"crs"), p3(u["codec_params"]), p3(u["tail_codec_params"]),
                T.N(u["num_segments"]), T.N(u["size"]), T.N(u["needed_shares"]), T.N(u["total_shares"]), T.N(len(u["crypttext_hash"]))))
            info.append(("uploaded-share-vs-genuine-model", {"file": fi, "ueb": True}, None))
            ctx.case(None, kind="upload")
            # exactly k shares remain: the target and k-1 intact ones
            target = r.choice(shares)
            others = [s for s in shares if s is not target]
            r.shuffle(others)
            keep = sorted([target] + others[:k - 1], key=lambda s: s.shnum)
            for s in shares:
                if s not in keep:
                    g.delete_share(s)
            pre += decode_table(name, gen, namer, [s.shnum for s in keep])
            muts = targeted_mutations(r, gen, target.shnum, gen.payloads[target.shnum])
            r.shuffle(muts)
            muts = [("intact", gen.payloads[target.shnum])] + muts[:per_file]
            for label, newp in muts:
                kind = label.split(":")[0]
                # shared fields (UEB, share hash chain, crypttext hash tree, and the offsets that move them) are
                # consumed from whichever share's answer arrives first: only k = 1 makes the outcome a function
                # of the share contents
                private = kind in ("intact", "version", "block", "block-hash-node", "header-block-size", "header-data-size", "unused-plaintext-hash-tree") \
                    or label.startswith("offset:data") or label.startswith("offset:plaintext_hash_tree")
                view = field_view(newp, gen)
                below_header = view is None
                set_payload(g, target, raws[target.shnum], newp)
                sz = r.choice([None, None, None, 1, gen.segsize, gen.segsize + 1, size - 1])
                node = fresh_node(g, cap)
                status, err, chunks = read_through(g, node, 0, sz, timeout=90)
                case = {"file": fi, "k": k, "n": n, "size": size, "max_segment_size": mss, "seed": seed, "target_share": target.shnum,
                        "kept_shares": [s.shnum for s in keep], "mutation": label, "read_size": sz, "data": data.hex()}
                judge(ctx, data, 0, sz, status, err, chunks, case, "single-field:" + kind)
                ctx.case((fi, label, sz) if label != "intact" else None, kind="single-field:" + kind)
                if k == 1 or private:
                    tries = [(s.shnum, coq_share(view if s is target else field_view(gen.payloads[s.shnum], gen), gen, name, namer)) for s in keep]
                    terms.append("(let r := %s in (fst r =? %s)%%N && (snd r =? %s)%%N)" % (
                        coq_plan(gen, 0, sz, name, tries), T.N(len(chunks)), T.N(error_class(status, err))))
                    info.append(("single-field-corruption-vs-model", case, {"status": status, "error": err, "chunks": len(chunks)}))
                if len(ctx.samples) < 4 and label != "intact":
                    ctx.sample({"k": k, "n": n, "size": size, "mutation": label, "outcome": err or status, "chunks_before_end": len(chunks)})
            set_payload(g, target, raws[target.shnum], gen.payloads[target.shnum])
        jobs.append((pre, terms))
        infos.append(info)


def classification_eval(ctx, jobs, infos):
    for info, terms, bad in zip(infos, [j[1] for j in jobs], coq_check_parallel(ctx, jobs, "c02cls")):
        for ix in bad:
            corr, case, obs = info[ix]
            if corr == "uploaded-share-vs-genuine-model":
                ctx.mismatch("genuine-share-model-differs", "the share the uploader wrote and Model/ImmVerify.v g_share / g_ueb differ", case=case, correspondence=corr)
            else:
                ctx.mismatch("corruption-class-differs:" + case["mutation"].split(":")[0],
                             "download forced to use the damaged share: implementation %s after %d chunks; the model predicts otherwise" % (obs["error"] or obs["status"], obs["chunks"]),
                             case=case, observed=obs, correspondence=corr)
        ctx.trace(len(terms) - len(bad))


# ---- adversarial shares, oracle only -----------------------------------------------------------------------
class FixedKeyData(object):
    """upload.Data with a caller-chosen encryption key: two encodings of one file under the same key (hence
    the same storage index), the case DownloadNode._parse_and_store_UEB's comment describes."""

    def __new__(cls, data, key):
        from twisted.internet import defer
        from allmydata.immutable import upload

        class _D(upload.Data):
            def get_encryption_key(self):
                return defer.succeed(key)
        return _D(data, convergence=b"")


def random_ranges(r, size, segsize):
    """(offset, size) pairs around segment boundaries; None size = to the end."""
    pts = sorted(set([0, 1, segsize - 1, segsize, segsize + 1, 2 * segsize, size - 1, size, size // 2, r.randrange(size)]))
    pts = [p for p in pts if 0 <= p <= size]
    off = r.choice(pts)
    ln = r.choice([None, 1, segsize, segsize + 1, size, r.randrange(1, size + 1), max(1, r.choice(pts) - off)])
    return off, ln


def damage_random_flips(r, g, shares, raws):
    hit = r.sample(shares, r.randrange(1, len(shares) + 1))
    desc = []
    for s in hit:
        raw = bytearray(raws[(s.server, s.shnum)])
        lo = 0 if r.random() < 0.1 else 12            # now and then the container header / lease area too
        for _ in range(r.choice([1, 1, 2, 5])):
            pos = r.randrange(lo, len(raw))
            raw[pos] ^= r.choice([1, 4, 0x80, 0xff])
            desc.append((s.shnum, pos))
        g.write_share(s, bytes(raw))
    return "flips", desc


def damage_truncate(r, g, shares, raws):
    hit = r.sample(shares, r.randrange(1, len(shares) + 1))
    desc = []
    for s in hit:
        head, pay, leases = split_container(raws[(s.server, s.shnum)])
        hdr = parse_header(pay)
        floor = 36 if hdr[0] == 1 else 68
        cut = r.choice([floor, floor + 1, len(pay) - 1, len(pay) - 35, r.randrange(floor, len(pay)), r.randrange(floor, len(pay))])
        cut = max(floor, cut)
        g.write_share(s, join_container(head, pay[:cut], leases if r.random() < 0.7 else b""))
        desc.append((s.shnum, cut))
    return "truncate", desc


def damage_renumber(r, g, shares, raws):
    """Share files moved between share numbers of the same file."""
    desc = []
    for _ in range(r.randrange(1, len(shares) + 1)):
        a, b = r.choice(shares), r.choice(shares)
        if a.shnum != b.shnum:
            g.write_share(b, raws[(a.server, a.shnum)])
            desc.append((a.shnum, b.shnum))
    return "renumber", desc


def damage_field(r, g, shares, raws, gen):
    hit = r.sample(shares, r.randrange(1, len(shares) + 1))
    desc = []
    for s in hit:
        pay = split_container(raws[(s.server, s.shnum)])[1]
        label, newp = r.choice(targeted_mutations(r, gen, s.shnum, pay))
        set_payload(g, s, raws[(s.server, s.shnum)], newp)
        desc.append((s.shnum, label))
    return "fields", desc


def forge_share(payload_other, gen_ueb_bytes):
    """A share of ANOTHER file (same parameters and length: every block, the block hash tree, the share hash
    chain and the crypttext hash tree are consistent with each other) carrying THIS file's UEB: what an attacker
    who cannot touch the capability can build at best."""
    ver, fs, offs = parse_header(payload_other)
    return payload_other[:offs["uri_extension"]] + struct.pack(">L" if fs == 4 else ">Q", len(gen_ueb_bytes)) + gen_ueb_bytes


def place_share(g, cap, server, shnum, raw):
    import os
    from allmydata.storage.server import storage_index_to_dir
    d = os.path.join(g.server(server).sharedir, storage_index_to_dir(g._si(cap)))
    os.makedirs(d, exist_ok=True)
    with open(os.path.join(d, "%d" % shnum), "wb") as f:
        f.write(raw)


def forged_setup(r, g, cap, data, size, k, n, nservers):
    """Upload a second file of the same shape, forge its shares for `cap`, leave fewer than k good shares."""
    other = bytes(r.getrandbits(8) for _ in range(size))
    cap2 = g.run(g.upload(other, convergence=b"c02"))
    shares = g.find_shares(cap)
    raws = {(s.server, s.shnum): g.read_share(s) for s in shares}
    head, pay, leases = split_container(next(iter(raws.values())))
    hdr = parse_header(pay)
    fs, offs = hdr[1], hdr[2]
    (ulen,) = struct.unpack(">L" if fs == 4 else ">Q", pay[offs["uri_extension"]:offs["uri_extension"] + fs])
    ueb = pay[offs["uri_extension"] + fs:offs["uri_extension"] + fs + ulen]
    forged = {}
    for s2 in g.find_shares(cap2):
        h2, p2, l2 = split_container(g.read_share(s2))
        forged[s2.shnum] = (h2, forge_share(p2, ueb), l2)
    keep = r.sample(shares, r.randrange(0, k)) if k > 0 else []
    for s in shares:
        if s not in keep:
            g.delete_share(s)
    return forged, keep


def changing_answers(r, nservers):
    """Fault plan: some read answers of some servers are altered, the others are not."""
    plan = []
    for _ in range(r.randrange(1, 6)):
        how = r.choice(["flip", "flip", "flip", "truncate", "empty"])
        f = {"server": r.randrange(nservers), "method": "read", "nth": r.randrange(0, 8), "count": r.choice([1, 1, 2, None]),
             "action": "corrupt", "how": how}
        if how == "flip":
            f["offset"] = r.randrange(0, 1500)
            f["xor"] = r.choice([1, 0x80, 0xff])
        elif how == "truncate":
            f["length"] = r.randrange(0, 200)
        plan.append(f)
    return plan


def adversarial_case(ctx, i):
    from core import grid as G
    r = ctx.rng("adv", i)
    k = r.choice([1, 1, 2, 2, 3, 3, 4, 5, 7, 10])
    n = r.choice([x for x in [k, k + 1, k + 2, 2 * k, 10] if k <= x <= 10])
    mss = r.choice([16, 21, 32, 40, 64, 100, 160])
    size = r.choice([56, 57, mss - 1, mss, mss + 1, 2 * mss, 2 * mss + 1, 3 * mss - 1, 4 * mss, 5 * mss + 3, 200, 400])
    size = max(56, min(size, 9 * mss, 420))
    data = bytes(r.getrandbits(8) for _ in range(size))
    nservers = r.choice([n, n, max(1, n // 2), n + 2])
    seed = r.getrandbits(30)
    scenario = r.choice(["flips", "flips", "fields", "fields", "truncate", "renumber", "other-file", "other-encoding", "changing-answers",
                         "changing-answers", "mixed", "forged-copies", "forged-copies", "forged-copies", "forged-answers"])
    if scenario.startswith("forged"):
        # many copies of the same internally consistent forgery need several servers; keep k small so that the
        # copies (3 and more per share number) outnumber everything else
        k = r.choice([1, 1, 1, 2, 2, 3])
        n = r.choice([x for x in [k, k + 1, k + 2, 2 * k + 1] if k <= x <= 10])
        nservers = r.choice([3, 4, 5, 6])
    case = {"i": i, "k": k, "n": n, "size": size, "max_segment_size": mss, "servers": nservers, "seed": seed, "scenario": scenario, "data": data.hex()}
    with G.Grid(num_servers=nservers, k=k, n=n, happy=1, max_segment_size=mss, seed=seed, timeout=180) as g:
        cap = g.run(g.upload(data, convergence=b"c02"))
        shares = g.find_shares(cap)
        raws = {(s.server, s.shnum): g.read_share(s) for s in shares}
        desc = None
        if scenario in ("flips", "mixed"):
            desc = damage_random_flips(r, g, shares, raws)
        if scenario == "truncate":
            desc = damage_truncate(r, g, shares, raws)
        if scenario == "renumber":
            desc = damage_renumber(r, g, shares, raws)
        if scenario == "fields":
            pay = {s.shnum: split_container(raws[(s.server, s.shnum)])[1] for s in shares}
            gen = Genuine(cap, pay)
            desc = damage_field(r, g, shares, raws, gen)
        if scenario == "other-file":
            # shares of another file (same parameters, same length) dropped over some of this file's shares
            other = bytes(r.getrandbits(8) for _ in range(size))
            cap2 = g.run(g.upload(other, convergence=b"c02"))
            sh2 = {(s.server, s.shnum): g.read_share(s) for s in g.find_shares(cap2)}
            hit = r.sample(shares, r.randrange(1, len(shares) + 1))
            d2 = []
            for s in hit:
                src = sh2.get((s.server, s.shnum)) or r.choice(list(sh2.values()))
                g.write_share(s, src)
                d2.append(s.shnum)
            desc = ("other-file", d2)
        if scenario == "other-encoding":
            # the same plaintext under the same key with another k/N or segment size: same storage index
            key = bytes(r.getrandbits(8) for _ in range(16))
            g.delete_shares(cap)
            ur = g.run(g.upload_results(FixedKeyData(data, key)))
            cap = ur.get_uri()
            mine = {(s.server, s.shnum): g.read_share(s) for s in g.find_shares(cap)}
            g.delete_shares(cap)
            k2 = r.choice([k, max(1, k - 1), min(n, k + 1)])
            mss2 = r.choice([mss, mss + k2, 2 * mss])
            g.set_encoding(k=k2, n=n, happy=1, max_segment_size=mss2)
            ur2 = g.run(g.upload_results(FixedKeyData(data, key)))
            theirs = g.find_shares(ur2.get_uri())
            # put some of the first encoding's shares back next to / over the second encoding's
            back = r.sample(sorted(mine), r.randrange(1, len(mine) + 1))
            import os
            for (srv, shnum) in back:
                like = [s for s in theirs if s.server == srv]
                base = os.path.dirname(like[0].path) if like else os.path.dirname(theirs[0].path)
                with open(os.path.join(base, "%d" % shnum), "wb") as f:
                    f.write(mine[(srv, shnum)])
            desc = ("other-encoding", {"k2": k2, "mss2": mss2, "first_encoding_shares": sorted(s for _, s in back), "same_cap": cap == ur2.get_uri()})
            case["second_cap_differs"] = cap != ur2.get_uri()
        if scenario == "forged-copies":
            forged, keep = forged_setup(r, g, cap, data, size, k, n, nservers)
            # the same forged share under one, several or all share numbers, 3..all copies of each on different servers
            style = r.choice(["own-numbers", "own-numbers", "one-share-everywhere", "k-numbers"])
            numbers = list(range(n)) if style != "k-numbers" else r.sample(range(n), k)
            copies = r.choice([3, 3, 4, nservers])
            placed = []
            for shnum in numbers:
                src = forged[shnum] if style != "one-share-everywhere" else forged[min(forged)]
                for srv in r.sample(range(nservers), min(copies, nservers)):
                    if any(s.server == srv and s.shnum == shnum for s in keep):
                        continue
                    place_share(g, cap, srv, shnum, join_container(*src))
                    placed.append((srv, shnum))
            desc = ("forged-copies", {"style": style, "copies": copies, "numbers": numbers, "good_shares_left": sorted(s.shnum for s in keep)})
        if scenario == "forged-answers":
            forged, keep = forged_setup(r, g, cap, data, size, k, n, nservers)
            # what is on disk is genuine (all shares restored), but servers answer reads with the forged share's bytes
            for (srv, shnum), raw in raws.items():
                place_share(g, cap, srv, shnum, raw)
            plan = []
            first_only = r.random() < 0.6      # every server answers the first read of a share with the whole forged share
            for srv in range(nservers):
                for shnum in range(n):
                    if first_only or r.random() < 0.8:
                        plan.append({"server": srv, "method": "read", "shnum": shnum, "nth": 0 if first_only else r.choice([0, 0, 0, 1]),
                                     "count": 1 if first_only else r.choice([1, 2, 3, None]),
                                     "action": "corrupt", "how": "value", "value": forged[shnum][1].hex()})
            g.set_faults(plan)
            desc = ("forged-answers", {"entries": len(plan), "first": plan[:2] and [dict(p, value=p["value"][:16] + "...") for p in plan[:2]]})
        if scenario in ("changing-answers", "mixed"):
            plan = changing_answers(r, nservers)
            g.set_faults(plan)
            desc = (scenario, [desc, plan]) if desc else ("changing-answers", plan)
        case["damage"] = desc
        node = fresh_node(g, cap)
        reads = [(0, None)] if r.random() < 0.4 else [random_ranges(r, size, mss)]
        if r.random() < 0.4:
            reads.append(random_ranges(r, size, mss))      # a second read on the same node (cached hash trees, new blocks)
        outcomes = []
        for (off, ln) in reads:
            status, err, chunks = read_through(g, node, off, ln, timeout=1.5)
            outcomes.append(err or status)
            judge(ctx, data, off, ln, status, err, chunks, dict(case, read=[off, ln]), scenario)
        ctx.case((k, n, size, mss, repr(desc), tuple(reads)), kind="adversarial:%s:%s" % (scenario, "ok" if outcomes[-1] == "ok" else "refused"))
        if i < 3:
            ctx.sample({"k": k, "n": n, "size": size, "scenario": scenario, "reads": reads, "outcomes": outcomes})
    return {"reads": reads, "outcomes": outcomes}


def adversarial(ctx):
    for i in range(ctx.n(200, 3000)):
        adversarial_case(ctx, i)


# ---- blocks larger than the pieces in which hashes are computed ----------------------------------------------------
PIECE = 256 * 1024


def large_block_case(ctx, i):
    """A file uploaded with a large max_segment_size, so that one block is longer than 256 KiB (k = 1: block =
    segment), exactly k shares left, one byte flipped in one share's block at positions sampled over the WHOLE
    block: first byte, middle, around every 256 KiB boundary, the last bytes."""
    from core import grid as G
    r = ctx.rng("large", i)
    k, n, size, mss = [(1, 3, 300000, 1 << 20), (3, 5, 900000, 1 << 20), (1, 2, 262145, 1 << 19), (2, 4, 600002, 1 << 21),
                       (1, 2, 700000, 300000), (1, 3, 524288 + 777, 1 << 20), (2, 3, 2 * 262144, 1 << 20), (3, 4, 800001, 400000)][i % 8]
    if i >= 8:
        size += r.randrange(0, 5000)
    data = r.randbytes(size)
    seed = r.getrandbits(30)
    base = {"i": i, "large": True, "k": k, "n": n, "size": size, "max_segment_size": mss, "seed": seed}
    results = []
    with G.Grid(num_servers=n, k=k, n=n, happy=1, max_segment_size=mss, seed=seed, timeout=180) as g:
        cap = g.run(g.upload(data, convergence=b"c02L"))
        shares = g.find_shares(cap)
        keep = sorted(r.sample(shares, k), key=lambda s: s.shnum) if r.random() < 0.5 else [s for s in shares if s.shnum < k]
        for s in shares:
            if s not in keep:
                g.delete_share(s)
        status, err, chunks = read_through(g, fresh_node(g, cap), 0, None, timeout=60)
        judge(ctx, data, 0, None, status, err, chunks, dict(base, damage="none"), "large-block")
        if status != "ok":
            ctx.oracle_fail("large-block-intact-read-failed", "undamaged %d-of-%d file of %d bytes (max segment size %d) could not be read: %s" % (k, n, size, mss, err or status), case=base)
        target = r.choice(keep)
        raw = g.read_share(target)
        head, pay, leases = split_container(raw)
        ver, fs, offs = parse_header(pay)
        segsize = div_ceil(min(size, mss), k) * k
        sz = sizes(size, k, segsize)
        positions = []
        for j in range(sz["num_segments"]):
            bl = sz["tail_block_size"] if j == sz["num_segments"] - 1 else sz["block_size"]
            start = j * sz["block_size"]
            cand = [0, 1, bl // 2, bl - 1, bl - 2, bl - 1 - r.randrange(min(bl, 4096)), r.randrange(bl)]
            for b in range(PIECE, bl + 1, PIECE):
                cand += [b - 1, b, b + 1, b + r.randrange(1, max(2, min(PIECE, bl - b)))]
            if bl > PIECE:
                cand += [PIECE * (bl // PIECE) + r.randrange(max(1, bl % PIECE)) for _ in range(3)]      # inside the last, partial piece
            positions += [(j, start + c, c) for c in cand if 0 <= c < bl]
        r.shuffle(positions)
        # the very end of a block and the inside of its last partial piece are always among the sampled positions
        tails = [p_ for p_ in positions if p_[2] >= PIECE * ((sz["tail_block_size"] if p_[0] == sz["num_segments"] - 1 else sz["block_size"]) // PIECE)]
        positions = tails[:3] + [p_ for p_ in positions if p_ not in tails[:3]]
        for (j, pos, inblock) in positions[:ctx.n(8, 40)]:
            b = bytearray(pay)
            b[offs["data"] + pos] ^= r.choice([1, 0x80, 0xff])
            g.write_share(target, join_container(head, bytes(b), leases))
            off, ln = r.choice([(0, None), (0, None), (max(0, size - 5000), None), (0, size), (size // 2, None)])
            status, err, chunks = read_through(g, fresh_node(g, cap), off, ln, timeout=60)
            case = dict(base, kept_shares=[s.shnum for s in keep], damaged_share=target.shnum, segment=j, block_offset=inblock, read=[off, ln])
            judge(ctx, data, off, ln, status, err, chunks, case, "large-block")
            results.append(err or status)
            ctx.case((i, pos, off, ln), kind="large-block:%s" % ("ok" if status == "ok" else "refused"))
        g.write_share(target, raw)
    return {"outcomes": results}


def large_blocks(ctx):
    for i in range(ctx.n(6, 32)):
        large_block_case(ctx, i)


# ---- shares too short to hold their offset table ---------------------------------------------------------------------
def short_truncation_case(ctx, i):
    """One share (the others intact), several shares, or all shares cut down to 0..37 bytes of share data: the read
    must finish -- with the uploaded bytes or with an error.  Here the grid's verdict `hung` (nothing left to run, the
    Deferred never fired) or a 90 s timeout on a read that normally takes milliseconds counts as a violation."""
    from core import grid as G
    r = ctx.rng("short", i)
    k = r.choice([1, 2, 3])
    n = r.choice([k, k + 1, k + 2, 2 * k + 1])
    mss = r.choice([24, 40, 100])
    size = r.choice([56, 90, 150])
    data = bytes(r.getrandbits(8) for _ in range(size))
    nservers = r.choice([n, n, n + 1, max(1, n // 2)])
    seed = r.getrandbits(30)
    base = {"i": i, "short": True, "k": k, "n": n, "size": size, "max_segment_size": mss, "servers": nservers, "seed": seed}
    outcomes = []
    with G.Grid(num_servers=nservers, k=k, n=n, happy=1, max_segment_size=mss, seed=seed, timeout=180) as g:
        cap = g.run(g.upload(data, convergence=b"c02s"))
        shares = g.find_shares(cap)
        raws = {(s.server, s.shnum): g.read_share(s) for s in shares}
        plans = []
        lengths = [0, 1, 3, 4, 16, 35, 36, 37]
        for ln in lengths:
            plans.append(("one", [r.choice(shares)], ln))
        plans.append(("several", r.sample(shares, r.randrange(1, len(shares) + 1)), None))
        plans.append(("all", list(shares), r.choice(lengths)))
        plans.append(("all", list(shares), None))
        r.shuffle(plans)
        for (which, hit, ln) in plans[:ctx.n(7, 11)]:
            cut = {}
            for s in hit:
                head, pay, leases = split_container(raws[(s.server, s.shnum)])
                c = ln if ln is not None else r.choice(lengths)
                cut[s.shnum] = c
                g.write_share(s, join_container(head, pay[:c], leases if r.random() < 0.8 else b""))
            off, sz = r.choice([(0, None), (0, None), random_ranges(r, size, mss)])
            status, err, chunks = read_through(g, fresh_node(g, cap), off, sz, timeout=90)
            case = dict(base, truncated={str(a): b for a, b in sorted(cut.items())}, which=which, read=[off, sz])
            judge(ctx, data, off, sz, status, err, chunks, case, "short-share")
            if status in ("hung", "timeout"):
                ctx.oracle_fail("read-never-finishes:share-shorter-than-its-offset-table",
                                "read(%d, %r) neither completed nor failed (%s): share data of share(s) %s cut to %s bytes, %d of %d shares intact (k=%d)" % (
                                    off, sz, status, sorted(cut), sorted(set(cut.values())), len(shares) - len(hit), len(shares), k), case=case)
            intact = len(set(s.shnum for s in shares) - set(cut))
            if status == "error" and which == "one" and intact >= k and (sz is None or sz > 0):
                ctx.count("short-share:error-with-k-intact-shares")
            outcomes.append(err or status)
            ctx.case((i, which, tuple(sorted(cut.items())), off, sz), kind="short-share:%s:%s" % (which, "ok" if status == "ok" else ("refused" if status == "error" else status)))
            for s in hit:
                g.write_share(s, raws[(s.server, s.shnum)])
    return {"outcomes": outcomes}


def short_truncations(ctx):
    for i in range(ctx.n(8, 60)):
        short_truncation_case(ctx, i)


# ---- damage that only shows in a later segment -------------------------------------------------------------------------
def later_segment_case(ctx, i):
    """A file of several segments; one byte flipped in the block of a LATER segment in most shares, so that fewer than
    k shares are good for that segment (sometimes exactly k: then the read must succeed).  (A) a whole-file read,
    (B) further reads on the SAME node object.  Every read must finish -- exact bytes, or an error after a correct
    prefix; `hung` or a timeout is a violation."""
    from core import grid as G
    r = ctx.rng("later", i)
    k = r.choice([1, 2, 3])
    n = r.choice([k + 1, k + 2, 2 * k + 1, 10])
    mss = r.choice([16, 24, 40])
    nseg_want = r.choice([3, 4, 6])
    size = max(56, mss * nseg_want - r.randrange(0, mss // 2))
    data = bytes(r.getrandbits(8) for _ in range(size))
    nservers = r.choice([2, 2, 3, n, n + 1])
    seed = r.getrandbits(30)
    base = {"i": i, "later": True, "k": k, "n": n, "size": size, "max_segment_size": mss, "servers": nservers, "seed": seed}
    outcomes = []
    with G.Grid(num_servers=nservers, k=k, n=n, happy=1, max_segment_size=mss, seed=seed, timeout=180) as g:
        cap = g.run(g.upload(data, convergence=b"c02l"))
        shares = g.find_shares(cap)
        segsize = div_ceil(min(size, mss), k) * k
        sz = sizes(size, k, segsize)
        nseg = sz["num_segments"]
        seg = r.randrange(1, nseg) if nseg > 1 else 0
        spare = r.choice([k - 1, k - 1, k - 1, 0, k])          # shares left good for that segment
        hit = r.sample(shares, max(0, len(shares) - spare))
        for s in hit:
            head, pay, leases = split_container(g.read_share(s))
            ver, fs, offs = parse_header(pay)
            bl = sz["tail_block_size"] if seg == nseg - 1 else sz["block_size"]
            b = bytearray(pay)
            b[offs["data"] + seg * sz["block_size"] + r.randrange(bl)] ^= r.choice([1, 0x80, 0xff])
            g.write_share(s, join_container(head, bytes(b), leases))
        base.update(damaged_segment=seg, segments=nseg, damaged_shares=sorted(s.shnum for s in hit), good_for_segment=len(shares) - len(hit))
        node = fresh_node(g, cap)
        reads = [(0, None)]
        for _ in range(r.choice([1, 2, 3])):
            reads.append(r.choice([(0, None), (seg * segsize, None), (seg * segsize, 1), (0, seg * segsize), random_ranges(r, size, segsize)]))
        for j, (off, ln) in enumerate(reads):
            status, err, chunks = read_through(g, node, off, ln, timeout=90)
            case = dict(base, read=[off, ln], read_number_on_node=j + 1)
            judge(ctx, data, off, ln, status, err, chunks, case, "later-segment")
            if status in ("hung", "timeout"):
                ctx.oracle_fail("read-never-finishes:later-segment-damage",
                                "read #%d on the node, read(%d, %r), neither completed nor failed (%s) after delivering %d bytes: segment %d of %d is damaged in %d of %d shares (k=%d, %d servers)" % (
                                    j + 1, off, ln, status, sum(len(c) for c in chunks), seg, nseg, len(hit), len(shares), k, nservers), case=case)
            end = min(size, off + ln) if ln is not None else size
            touches = off < min(size, (seg + 1) * segsize) and end > seg * segsize
            if status == "error" and (not touches or len(shares) - len(hit) >= k) and ln != 0:
                ctx.count("later-segment:error-although-enough-good-shares")
            outcomes.append(err or status)
            ctx.case((i, j, off, ln, tuple(base["damaged_shares"])), kind="later-segment:read%d:%s" % (min(j + 1, 2), "ok" if status == "ok" else ("refused" if status == "error" else status)))
    return {"outcomes": outcomes}


def later_segments(ctx):
    for i in range(ctx.n(16, 150)):
        later_segment_case(ctx, i)


# ---- the end of the share: UEB length word and UEB body -----------------------------------------------------------------
def ueb_tail_case(ctx, i):
    """Every share in use (all, or all but fewer than k) damaged at its very end: the UEB length word set to 0, a little
    or a lot too large, or the share cut inside the UEB body / inside the length word.  The read must finish -- exact
    bytes or an error; `hung` or a timeout is a violation."""
    from core import grid as G
    r = ctx.rng("uebtail", i)
    k = r.choice([1, 2, 3])
    n = r.choice([k, k + 1, k + 2, 2 * k + 1])
    mss = r.choice([24, 64, 128])
    size = r.choice([56, 100, 200])
    data = bytes(r.getrandbits(8) for _ in range(size))
    nservers = r.choice([n, n, n + 1, max(1, n // 2)])
    seed = r.getrandbits(30)
    base = {"i": i, "uebtail": True, "k": k, "n": n, "size": size, "max_segment_size": mss, "servers": nservers, "seed": seed}
    outcomes = []
    with G.Grid(num_servers=nservers, k=k, n=n, happy=1, max_segment_size=mss, seed=seed, timeout=180) as g:
        cap = g.run(g.upload(data, convergence=b"c02u"))
        shares = g.find_shares(cap)
        raws = {(s.server, s.shnum): g.read_share(s) for s in shares}
        kinds = ["len=0", "len+1", "len+100", "len=huge", "len-1", "cut:10-into-body", "cut:last-50", "cut:last-1", "cut:inside-length-word", "cut:after-length-word",
                 "cut:before-length-word"]
        r.shuffle(kinds)
        for kind in kinds[:ctx.n(6, 11)]:
            spare = r.choice([0, 0, 0, k - 1, k])             # shares left untouched
            hit = r.sample(shares, max(0, len(shares) - spare))
            mixed = r.random() < 0.25
            for s in hit:
                head, pay, leases = split_container(raws[(s.server, s.shnum)])
                ver, fs, offs = parse_header(pay)
                fmt = ">L" if fs == 4 else ">Q"
                o = offs["uri_extension"]
                (ulen,) = struct.unpack(fmt, pay[o:o + fs])
                kd = r.choice(kinds) if mixed else kind
                if kd.startswith("len"):
                    new = {"len=0": 0, "len+1": ulen + 1, "len+100": ulen + 100, "len=huge": 2 ** (8 * fs) - 1, "len-1": ulen - 1}[kd]
                    newp = pay[:o] + struct.pack(fmt, new) + pay[o + fs:]
                else:
                    cut = {"cut:10-into-body": o + fs + 10, "cut:last-50": len(pay) - 50, "cut:last-1": len(pay) - 1, "cut:inside-length-word": o + fs - 1,
                           "cut:after-length-word": o + fs, "cut:before-length-word": o}[kd]
                    newp = pay[:cut]
                g.write_share(s, join_container(head, newp, leases))
            node = fresh_node(g, cap)
            for j, (off, ln) in enumerate([(0, None)] + ([random_ranges(r, size, mss)] if r.random() < 0.4 else [])):
                status, err, chunks = read_through(g, node, off, ln, timeout=90)
                case = dict(base, damage=kind, mixed=mixed, damaged_shares=sorted(s.shnum for s in hit), untouched=len(shares) - len(hit), read=[off, ln], read_number_on_node=j + 1)
                judge(ctx, data, off, ln, status, err, chunks, case, "ueb-tail")
                if status in ("hung", "timeout"):
                    ctx.oracle_fail("read-never-finishes:damaged-ueb-length-or-cut-ueb",
                                    "read(%d, %r) neither completed nor failed (%s): %s in %d of %d shares (k=%d)" % (off, ln, status, "mixed UEB damage" if mixed else kind, len(hit), len(shares), k),
                                    case=case)
                outcomes.append(err or status)
                ctx.case((i, kind, mixed, tuple(sorted(s.shnum for s in hit)), off, ln), kind="ueb-tail:%s:%s" % (kind.split(":")[0].split("=")[0].split("+")[0].split("-")[0],
                                                                                                       "ok" if status == "ok" else ("refused" if status == "error" else status)))
            for s in hit:
                g.write_share(s, raws[(s.server, s.shnum)])
    return {"outcomes": outcomes}


def ueb_tails(ctx):
    for i in range(ctx.n(8, 80)):
        ueb_tail_case(ctx, i)


# ---- all shares replaced by another file's after an honest read -----------------------------------------------------------
def substitution_case(ctx, i):
    """(1) the file is read honestly in this process, (2) every share (or all but fewer than k) is replaced by the share
    of ANOTHER file uploaded under the same AES key -- same storage index, internally consistent, with its own UEB and
    hash trees -- (3) the original cap is read again through new node objects (and through the old one)."""
    from core import grid as G
    r = ctx.rng("subst", i)
    k = r.choice([1, 2, 3])
    n = r.choice([k, k + 1, k + 2, 2 * k + 1])
    mss = r.choice([24, 64, 128])
    size = r.choice([56, 100, 200])
    data = bytes(r.getrandbits(8) for _ in range(size))
    other = bytes(r.getrandbits(8) for _ in range(size if r.random() < 0.7 else r.choice([56, 150, 300])))
    key = bytes(r.getrandbits(8) for _ in range(16))
    nservers = r.choice([n, n, n + 1, max(1, n // 2)])
    seed = r.getrandbits(30)
    base = {"i": i, "subst": True, "k": k, "n": n, "size": size, "other_size": len(other), "max_segment_size": mss, "servers": nservers, "seed": seed}
    outcomes = []
    with G.Grid(num_clients=2, num_servers=nservers, k=k, n=n, happy=1, max_segment_size=mss, seed=seed, timeout=180) as g:
        cap = g.run(g.upload_results(FixedKeyData(data, key))).get_uri()
        old_node = fresh_node(g, cap)
        reads0 = r.choice([[(0, None)], [(0, None), (0, None)], [random_ranges(r, size, mss)], []])
        for (off, ln) in reads0:                       # the honest read(s)
            status, err, chunks = read_through(g, old_node, off, ln, timeout=90)
            judge(ctx, data, off, ln, status, err, chunks, dict(base, phase="honest", read=[off, ln]), "substitution")
            if status != "ok":
                ctx.oracle_fail("honest-read-failed", "read(%d, %r) of an undamaged file ended with %s" % (off, ln, err or status), case=base)
        mine = {(s.server, s.shnum): g.read_share(s) for s in g.find_shares(cap)}
        g.delete_shares(cap)
        if len(other) != size or r.random() < 0.3:
            g.set_encoding(k=k, n=n, happy=1, max_segment_size=r.choice([mss, 2 * mss]))
        cap2 = g.run(g.upload_results(FixedKeyData(other, key))).get_uri()
        theirs = g.find_shares(cap2)              # same storage index: they sit where the original shares sat
        back = r.sample(sorted(mine), r.choice([0, 0, 0, max(0, k - 1)]))
        for (srv, shnum) in back:                 # fewer than k original shares put back
            place_share(g, cap, srv, shnum, mine[(srv, shnum)])
        base.update(honest_reads=reads0, same_cap=(cap == cap2), originals_put_back=sorted(sh for _s, sh in back), substituted=len(theirs))
        from allmydata import uri
        nodes = [("new node", fresh_node(g, cap)), ("other client", g.client(1).nodemaker._create_immutable(uri.from_string(cap))), ("node used for the honest read", old_node)]
        for (who, node) in nodes:
            off, ln = r.choice([(0, None), (0, None), random_ranges(r, size, mss)])
            status, err, chunks = read_through(g, node, off, ln, timeout=90)
            judge(ctx, data, off, ln, status, err, chunks, dict(base, phase="after substitution", through=who, read=[off, ln]), "substitution")
            outcomes.append(err or status)
            ctx.case((i, who, off, ln), kind="substitution:%s:%s" % (who.split()[0], "ok" if status == "ok" else ("refused" if status == "error" else status)))
    return {"outcomes": outcomes}


def substitutions(ctx):
    for i in range(ctx.n(12, 120)):
        substitution_case(ctx, i)


def run(ctx):
    classification(ctx)
    adversarial(ctx)
    large_blocks(ctx)
    short_truncations(ctx)
    later_segments(ctx)
    ueb_tails(ctx)
    substitutions(ctx)


def replay(ctx, record):
    """Re-run the single recorded case (its random choices derive from (seed, property, case index))."""
    case = record.get("case") or {}
    if case.get("large"):
        return large_block_case(ctx, case["i"])
    if case.get("short"):
        return short_truncation_case(ctx, case["i"])
    if case.get("later"):
        return later_segment_case(ctx, case["i"])
    if case.get("uebtail"):
        return ueb_tail_case(ctx, case["i"])
    if case.get("subst"):
        return substitution_case(ctx, case["i"])
    if "scenario" in case and "i" in case:
        return adversarial_case(ctx, case["i"])
    if "file" in case:
        jobs, infos = [], []
        classification_file(ctx, case["file"], jobs, infos)
        classification_eval(ctx, jobs, infos)
        return {"file": case["file"], "compared": sum(len(t) for _p, t in jobs)}
    return {"note": "record names no case index"}
