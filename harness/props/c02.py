"""C02  Immutable downloads never return wrong bytes."""
import hashlib
import struct

from core import term as T

ID = "C02"
GEN = ["immconsts"]
RULE = ("grid cases: files of 56..400 bytes around segment boundaries, 1<=k<=N<=10, max segment size 16..160 (1..9 segments), "
        "then one adversarial scenario: random byte flips in any subset of shares, targeted corruption of one field (version, each "
        "offset-table entry, UEB, each share-hash-chain entry number/value, each block-hash-tree node, each crypttext-hash-tree node, "
        "each block, unused regions), truncation at any length, shares swapped between share numbers, between two files and between two "
        "encodings of the same key, servers whose read answers change (fault plan on the n-th read), each read in full or by range "
        "through a recording consumer, once or twice on the same node; non-trivial = the scenario damaged at least one share that the "
        "download touched; distinct = distinct (file parameters, scenario, damage)")
META = {
    "title": "Immutable downloads never return wrong bytes",
    "level_text": ("Theorems in Coq over a model of the downloader's validation pipeline (Share._get_satisfaction in the order the code "
                   "performs it, validate_and_store_UEB, process_share_hashes, CommonShare, _decode_blocks/_check_ciphertext_hash, "
                   "SegmentFetcher, Segmentation via C01's read_plan) on top of the C35 hash-tree model: for arbitrary share contents, "
                   "share numbers and answers that change between calls, a block accepted for (share, segment) is the uploader's block, a "
                   "delivered segment is the uploader's ciphertext segment, and what reaches the consumer before a read ends is a prefix of "
                   "the requested range (all of it if the read completes).  The model is compared with the real downloader on single-field "
                   "corruptions (accept/reject class of a download forced to use the damaged share), and the real downloader is run on a "
                   "real in-process grid against generated adversarial shares with the property itself as oracle."),
    "level_note": ("core (partial): hash functions are injective by hypothesis (collision resistance of tagged SHA-256d is not proved), "
                   "uri.unpack_extension inverts pack_extension by hypothesis (C38), AES-CTR decryption of the delivered ciphertext is C01's "
                   "ctr_position; the event-driven scheduling of share requests (which share supplies a shared field first), timers and the "
                   "byte-level fetching/spans logic are exercised on the grid, not modelled; termination (a download that waits for ever "
                   "on a damaged share) is C46's subject: here `hung` counts as no data delivered."),
    "technique": "Coq proof over an executable model of the validation pipeline + differential run vs the real downloader + adversarial grid runs with oracle",
    "design_ref": "8/C02",
    "trusted_base": ["abstraction of a share's bytes into the fields the downloader reads (harness/props/c02.py: field_view), mirroring Share._satisfy_* read positions",
                     "symbolic naming of 32-byte hash values by their position in the recomputed genuine trees (hashlib)"],
    "assumptions": ["hash injectivity on the values hashed (block, crypttext segment, UEB, Merkle pair)", "unpack_extension(pack_extension(d)) = d"],
}
IMPORTS = ["Lib.Hex", "Model.HashTree", "Model.ImmFile", "Model.ImmVerify"]

HASH_SIZE = 32


# ---- independent re-implementation of the hashes and trees (hashlib only) -----------------------
def _ns(b):
    return b"%d:" % len(b) + b + b","


def _d(b):
    return hashlib.sha256(hashlib.sha256(b).digest()).digest()


def tagged(tag, val):
    return _d(_ns(tag) + val)


def tagged_pair(tag, a, b):
    return _d(_ns(tag) + _ns(a) + _ns(b))


def block_hash(d):
    return tagged(b"allmydata_encoded_subshare_v1", d)


def ct_segment_hash(d):
    return tagged(b"allmydata_crypttext_segment_v1", d)


def ueb_hash(d):
    return tagged(b"allmydata_uri_extension_v1", d)


def pair_hash(a, b):
    return tagged_pair(b"Merkle tree internal node", a, b)


def empty_leaf_hash(i):
    return tagged(b"Merkle tree empty leaf", b"%d" % i)


def pow2_ceil(n):
    p = 1
    while p < n:
        p *= 2
    return p


def merkle(leaves):
    """Flat list, root first (hashtree.HashTree layout)."""
    p = pow2_ceil(len(leaves))
    row = list(leaves) + [empty_leaf_hash(i) for i in range(len(leaves), p)]
    rows = [row]
    while len(rows[-1]) > 1:
        last = rows[-1]
        rows.append([pair_hash(last[2 * i], last[2 * i + 1]) for i in range(len(last) // 2)])
    out = []
    for r in reversed(rows):
        out.extend(r)
    return out


def needed_chain(num_leaves, leaf):
    """Node numbers HashTree.needed_hashes(leaf, include_leaf=True) returns."""
    p = pow2_ceil(num_leaves)
    i = p - 1 + leaf
    out = [i]
    while i != 0:
        sib = i + 1 if i % 2 == 1 else i - 1
        out.append(sib)
        i = (i - 1) // 2
    return out


def div_ceil(a, b):
    return -(-a // b)


def sizes(size, k, segsize):
    """DownloadNode._calculate_sizes."""
    tail = size % segsize or segsize
    padded = div_ceil(tail, k) * k
    return {"num_segments": div_ceil(size, segsize), "block_size": segsize // k, "tail_block_size": padded // k,
            "tail_segment_size": tail, "tail_segment_padded": padded}


# ---- share container and payload ---------------------------------------------------------------
LEASE_SIZE = 72


def split_container(raw):
    """Immutable ShareFile: 12-byte header, payload, leases."""
    (_v, _unused, nleases) = struct.unpack(">LLL", raw[:12])
    end = len(raw) - nleases * LEASE_SIZE
    return raw[:12], raw[12:end], raw[end:]


def join_container(head, payload, leases):
    return head + payload + leases


FIELDS = ["data", "plaintext_hash_tree", "crypttext_hash_tree", "block_hashes", "share_hashes", "uri_extension"]


def parse_header(payload):
    """(version, fieldsize, offsets dict) or None when the bytes are not there / version unknown."""
    if len(payload) < 4:
        return None
    (version,) = struct.unpack(">L", payload[:4])
    if version == 1:
        start, fs, fmt = 0x0c, 4, ">L"
    elif version == 2:
        start, fs, fmt = 0x14, 8, ">Q"
    else:
        return (version, None, None)
    if len(payload) < start + 6 * fs:
        return None
    offs = {}
    for i, name in enumerate(FIELDS):
        (offs[name],) = struct.unpack(fmt, payload[start + i * fs:start + (i + 1) * fs])
    return (version, fs, offs)


def offset_pos(version, name):
    """Byte position of an offset-table entry in the payload."""
    start, fs = (0x0c, 4) if version == 1 else (0x14, 8)
    return start + FIELDS.index(name) * fs, fs


class Genuine(object):
    """Everything the oracle and the model need to know about an uploaded file, recomputed from the
    shares as first written (blocks) with hashlib, and cross-checked against what the uploader stored."""

    def __init__(self, cap_bytes, payloads):
        from allmydata import uri
        self.u = uri.from_string(cap_bytes)
        self.k, self.n, self.size = self.u.needed_shares, self.u.total_shares, self.u.size
        self.payloads = dict(payloads)            # shnum -> payload bytes
        any_p = next(iter(self.payloads.values()))
        ver, fs, offs = parse_header(any_p)
        ueb_len = struct.unpack(">L" if fs == 4 else ">Q", any_p[offs["uri_extension"]:offs["uri_extension"] + fs])[0]
        self.ueb_bytes = any_p[offs["uri_extension"] + fs:offs["uri_extension"] + fs + ueb_len]
        self.ueb = uri.unpack_extension(self.ueb_bytes)
        self.segsize = self.ueb["segment_size"]
        self.sz = sizes(self.size, self.k, self.segsize)
        self.nseg = self.sz["num_segments"]
        self.problems = []
        self.blocks = {}      # shnum -> [block per segment]
        self.bht = {}
        for shnum, p in self.payloads.items():
            ver, fs, offs = parse_header(p)
            bl = []
            for j in range(self.nseg):
                ln = self.sz["tail_block_size"] if j == self.nseg - 1 else self.sz["block_size"]
                st = offs["data"] + j * self.sz["block_size"]
                bl.append(p[st:st + ln])
            self.blocks[shnum] = bl
            self.bht[shnum] = merkle([block_hash(b) for b in bl])
            stored = [p[offs["block_hashes"] + 32 * i:offs["block_hashes"] + 32 * i + 32] for i in range(len(self.bht[shnum]))]
            if stored != self.bht[shnum]:
                self.problems.append("share %d: stored block hash tree differs from the Merkle tree over its blocks" % shnum)

    def finish(self, ciphertext_segments):
        """ciphertext segments (known from decoding k shares with the real codec) -> crypttext tree; share tree
        needs every share's block tree root, so it is only available when all N payloads were given."""
        self.segs = list(ciphertext_segments)
        self.cht = merkle([ct_segment_hash(s) for s in self.segs])
        if self.ueb["crypttext_root_hash"] != self.cht[0]:
            self.problems.append("UEB crypttext_root_hash differs from the Merkle root over the ciphertext segments")
        if len(self.payloads) == self.n:
            self.sht = merkle([self.bht[i][0] for i in range(self.n)])
            if self.ueb["share_root_hash"] != self.sht[0]:
                self.problems.append("UEB share_root_hash differs from the Merkle root over the block hash tree roots")
            for shnum, p in self.payloads.items():
                ver, fs, offs = parse_header(p)
                chain = p[offs["share_hashes"]:offs["uri_extension"]]
                got = [(struct.unpack(">H", chain[i:i + 2])[0], chain[i + 2:i + 34]) for i in range(0, len(chain), 34)]
                want = [(i, self.sht[i]) for i in needed_chain(self.n, shnum)]
                if sorted(got) != sorted(want):
                    self.problems.append("share %d: stored share hash chain differs from needed_hashes(%d, include_leaf)" % (shnum, shnum))
            if ueb_hash(self.ueb_bytes) != self.u.uri_extension_hash:
                self.problems.append("cap's UEB hash differs from the hash of the stored UEB")
        else:
            self.sht = None
        return self


def decode_segments(g):
    """Ciphertext segments from the first k shares' blocks with the real zfec decoder (oracle side)."""
    import zfec
    ids = sorted(g.blocks)[:g.k]
    segs = []
    for j in range(g.nseg):
        blocks = [g.blocks[i][j] for i in ids]
        if g.k == 1:
            seg = blocks[0]
        else:
            seg = b"".join(zfec.Decoder(g.k, g.n).decode(blocks, ids))
        if j == g.nseg - 1:
            seg = seg[:g.sz["tail_segment_size"]]
        segs.append(seg)
    return segs


# ---- Coq rendering ---------------------------------------------------------------------------------
def coq_bytes(b):
    return T.bytes_(b) if b else "[]"


def coq_efile(g):
    """mkEf k n size segsize segs blocks (blocks[segment][share])."""
    segs = T.lst([coq_bytes(s) for s in g.segs])
    blocks = T.lst([T.lst([coq_bytes(g.blocks[i][j]) for i in range(g.n)]) for j in range(g.nseg)])
    return "(mkEf %s %s %s %s %s %s)" % (T.N(g.k), T.N(g.n), T.N(g.size), T.N(g.segsize), segs, blocks)


def preamble_for(name, g):
    return ("Definition %s : efile := %s.\n"
            "Definition %s_cap := sym_g_cap [] %s.\n"
            "Definition %s_bn (i k : Z) : hs := node_of hs HPad (sym_g_bht %s i) k.\n"
            "Definition %s_sn (k : Z) : hs := node_of hs HPad (sym_g_sht %s) k.\n"
            "Definition %s_cn (k : Z) : hs := node_of hs HPad (sym_g_cht %s) k.\n"
            "Definition %s_ueb : ub := UbOk (sym_g_ueb %s).\n") % (name, coq_efile(g), name, name, name, name, name, name, name, name, name, name)


class Namer(object):
    """32-byte value -> Coq term of type hs: the genuine node it equals, else a numbered junk value."""

    def __init__(self, name, g):
        self.table = {}
        self.junk = {}
        for i in range(g.n):
            for idx, h in enumerate(g.bht[i]):
                self.table.setdefault(h, "(%s_bn %s %s)" % (name, T.Z(i), T.Z(idx)))
        for idx, h in enumerate(g.cht):
            self.table.setdefault(h, "(%s_cn %s)" % (name, T.Z(idx)))
        for idx, h in enumerate(g.sht):
            # block tree roots are both bn(i,0) and sn(leaf): equal terms in the model too
            self.table.setdefault(h, "(%s_sn %s)" % (name, T.Z(idx)))

    def __call__(self, h):
        if h in self.table:
            return self.table[h]
        if h not in self.junk:
            self.junk[h] = "(HJunk %s)" % T.Z(len(self.junk) + 1)
        return self.junk[h]


def field_view(payload, g):
    """What Share._satisfy_* would read out of `payload` for a file with g's parameters, as a dict:
    version, offsets (or None), ueb (bytes or None), share_hashes (list or None), block_hashes {idx: bytes},
    ct_hashes {idx: bytes}, blocks {segnum: bytes}.  Mirrors the read positions only; no validation."""
    hdr = parse_header(payload)
    if hdr is None:
        return None                                  # not even a version/offset table: nothing can be read
    version, fs, offs = hdr
    if offs is None:
        return {"version": version, "offsets": None}

    def rd(start, length):
        if length < 0 or start + length > len(payload):
            return None
        return payload[start:start + length]

    v = {"version": version, "offsets": offs}
    lf = rd(offs["uri_extension"], fs)
    v["ueb"] = None
    if lf:
        (ln,) = struct.unpack(">L" if fs == 4 else ">Q", lf)
        ub = rd(offs["uri_extension"] + fs, ln)
        v["ueb"] = ub if ub else None
    hl = offs["uri_extension"] - offs["share_hashes"]
    v["share_hashes"] = None
    if hl >= 0 and hl % 34 == 0:
        d = rd(offs["share_hashes"], hl)
        if d is not None:
            v["share_hashes"] = [(struct.unpack(">H", d[i:i + 2])[0], d[i + 2:i + 34]) for i in range(0, hl, 34)]
    nnodes = 2 * pow2_ceil(g.nseg) - 1
    v["block_hashes"] = {}
    v["ct_hashes"] = {}
    for i in range(nnodes):
        h = rd(offs["block_hashes"] + 32 * i, 32)
        if h:
            v["block_hashes"][i] = h
        h = rd(offs["crypttext_hash_tree"] + 32 * i, 32)
        if h:
            v["ct_hashes"][i] = h
    v["blocks"] = {}
    for j in range(g.nseg):
        ln = g.sz["tail_block_size"] if j == g.nseg - 1 else g.sz["block_size"]
        b = rd(offs["data"] + j * g.sz["block_size"], ln)
        if b:
            v["blocks"][j] = b
    return v


def coq_share(view, g, name, namer):
    """Render a field view as a Coq `share hs ub`."""
    if view is None:
        # nothing readable: version 0 makes the model stop where the code never gets an offset table
        return "(mkShare 0 (mk_off 0 0 0 0 0 0) None None [] [] [])"
    if view["offsets"] is None:
        return "(mkShare %s (mk_off 0 0 0 0 0 0) None None [] [] [])" % T.N(view["version"])
    o = view["offsets"]
    off = "(mk_off %s)" % " ".join(T.N(o[f]) for f in FIELDS)
    if view["ueb"] is None:
        ueb = "None"
    elif view["ueb"] == g.ueb_bytes:
        ueb = "(Some %s_ueb)" % name
    else:
        ueb = "(Some (UbJunk 1))"
    if view["share_hashes"] is None:
        sh = "None"
    else:
        sh = "(Some %s)" % T.lst(["(%s, %s)" % (T.Z(i), namer(h)) for i, h in view["share_hashes"]])
    bh = T.lst(["(%s, %s)" % (T.Z(i), namer(h)) for i, h in sorted(view["block_hashes"].items())])
    ch = T.lst(["(%s, %s)" % (T.Z(i), namer(h)) for i, h in sorted(view["ct_hashes"].items())])
    bl = T.lst(["(%s, %s)" % (T.Z(j), coq_bytes(b)) for j, b in sorted(view["blocks"].items())])
    return "(mkShare %s %s %s %s %s %s %s)" % (T.N(view["version"]), off, ueb, sh, bh, ch, bl)
