"""C42  Backup database reuses caps only for unchanged content
(scripts/backupdb.py BackupDB_v2 / FileResult / DirectoryResult, and how
scripts/tahoe_backup.py drives them).

Three views of every history:
  * the real BackupDB_v2 on a scratch SQLite file.  What the code reads from
    its environment is scripted: `os.stat` (size, mtime, ctime per path),
    `time.time()` and `random.random()` are substituted in the backupdb module
    namespace for the duration of a history (a few histories use real files
    and the real os.stat instead);
  * a Python reference of the property's rule (DIRECT ORACLE): per path the
    record of the most recent did_upload_file, per dict of (name, cap) items
    the dircap of the most recent did_create -- a cap handed back by
    was_uploaded()/was_created() must be exactly that;
  * the Coq model Model/BackupDB.v (CORRESPONDENCE): the same history is run
    inside Coq (`run_obs`), every FileResult / DirectoryResult observable is
    compared, and at the end the four SQLite tables are dumped and compared
    with the model's maps.
A second, end-to-end correspondence runs the real collect_backup_targets /
run_backup / BackerUpper.upload / upload_directory loop over real scratch
directory trees with the HTTP layer replaced by a content-addressed fake: a
snapshot must never contain a cap that does not belong to the file's current
content.
"""
import hashlib
import io
import json
import os

from core import env
from core import term as T

ID = "C42"
GEN = ["hashutil"]
RULE = ("cases: one case = one seeded history (<= 45 operations quick, <= 120 thorough) of file creations, content/size/"
        "mtime/ctime changes, renames, backup passes (check_file -> upload/did_upload or reuse, should_check -> "
        "did_check_healthy or re-upload), late did_upload with a stale FileResult, --ignore-timestamps passes, raw API "
        "calls (empty cap, unknown cap), directory snapshots (check_directory/did_create/did_check_healthy over dicts from "
        "a small pool of names and caps incl. re-ordered dicts, one-cap changes, netstring-ambiguous names, non-ASCII names), "
        "clock jumps around the 1- and 2-month should_check boundaries, database re-opens and a v1->v2 schema upgrade; plus "
        "end-to-end BackerUpper runs over real directory trees.  distinct = distinct explicit history; non-trivial = "
        "history in which at least one file cap AND (for histories with directory operations) one directory cap is handed "
        "back for reuse and at least one changed file is refused")
META = {
    "title": "Backup database reuses caps only for unchanged content",
    "level_text": ("Theorems in Coq over an executable model of scripts/backupdb.py (tables as finite maps; check_file, "
                   "did_upload_file, did_check_file_healthy, check_directory, did_create_directory, did_check_directory_healthy, "
                   "FileResult/DirectoryResult, should_check with exact arithmetic): for EVERY history of operations, with arbitrary "
                   "os.stat/clock/random inputs, check_file hands back a cap only if timestamps are trusted and (cap, size, mtime, "
                   "ctime) are exactly what the most recent did_upload_file for that path recorded; the clock and random draw never "
                   "influence the reuse decision; the hashed directory string determines the (name, cap) items (netstring unique "
                   "decomposition); check_directory hands back a dircap only for exactly the contents it was last recorded for -- "
                   "under injectivity of the key function, and for the real SHA-256d/base32 key: or else an explicit collision.  "
                   "The model is run against the real BackupDB_v2 on SQLite for seeded histories (observables and table dumps), "
                   "which are also judged by a Python reference of the rule; BackerUpper's loop is exercised end to end."),
    "level_note": ("Trusted: Model/BackupDB.v as a reading of backupdb.py (hand-written; differential execution on every run); SQLite "
                   "behaves as finite maps with the declared keys (PRIMARY KEY/UNIQUE/AUTOINCREMENT) -- hypothesis, exercised not proved; "
                   "abspath_expanduser_unicode is not modelled (the model receives the normalised absolute path); caps are bytes as "
                   "tahoe_backup.py passes them (str caps would be stored as TEXT and are not exercised); SHA-256 collision freedom is "
                   "an explicit alternative in the theorem, not assumed.  tahoe_backup.py itself is exercised, not modelled."),
    "technique": "Coq proof (all histories) over a hand-written executable model + differential run vs implementation on SQLite + reference oracle",
    "design_ref": "8/C42",
    "trusted_base": ["Model/BackupDB.v transcription of scripts/backupdb.py (validated by differential execution on every run)",
                     "SQLite tables = finite maps keyed by their PRIMARY KEY",
                     "translator harness/translate/hashutil.py (backupdb_dirhash)"],
    "assumptions": ["SQLite implements the schema's key constraints (one row per PRIMARY KEY, UNIQUE filecap, AUTOINCREMENT ids never reused)",
                    "directories are recorded through DirectoryResult.did_create, as tahoe_backup.py does (no_raw_create)",
                    "integer-second stat fields (what s[stat.ST_MTIME] yields) and byte-string caps"],
}

IMPORTS = ["Lib.Hex", "Model.BackupDB"]
DAY = 24 * 60 * 60
MONTH = 30 * DAY


# =============================================================================
# environment substitution
# =============================================================================
class _Clock(object):
    def __init__(self):
        self.now = 0

    def time(self):
        return self.now


class _Rand(object):
    def __init__(self):
        self.rnd = 0

    def random(self):
        return self.rnd / 65536.0


class _OS(object):
    """`os` as seen by backupdb.py: stat() is answered from the scripted table."""

    def __init__(self, table):
        self._table = table
        self.path = os.path

    def stat(self, path):
        st = self._table.get(path)
        if st is None:
            raise FileNotFoundError(2, "No such file or directory", path)
        size, mtime, ctime = st
        return os.stat_result((0o100644, 1, 1, 1, 0, 0, size, mtime, mtime, ctime))

    def __getattr__(self, name):
        return getattr(os, name)


_INTERN = None     # per-history table: byte string -> let-bound name (elaborating each literal once keeps coqc fast)


def B(b):
    b = bytes(b)
    if _INTERN is None:
        return T.bytes_(b)
    name = _INTERN.get(b)
    if name is None:
        name = _INTERN[b] = "b%d_" % len(_INTERN)
    return name


def contents_term(items):
    return T.lst([T.pair(B(n.encode("utf-8")), B(c)) for (n, c) in items])


class Session(object):
    """One history against one SQLite file.  Every method takes the explicit
    environment inputs, records the explicit op (so a history replays alone),
    the Coq op, the expected observation, and applies the reference oracle."""

    def __init__(self, ctx, dbpath, scripted=True, v1_first=False):
        from allmydata.scripts import backupdb
        self.ctx = ctx
        self.mod = backupdb
        self.dbpath = dbpath
        self.scripted = scripted
        self.clock = _Clock()
        self.rand = _Rand()
        self.stat_table = {}
        self.saved = (backupdb.os, backupdb.time, backupdb.random)
        backupdb.time = self.clock
        backupdb.random = self.rand
        if scripted:
            backupdb.os = _OS(self.stat_table)
        self.history = []
        self.coq_ops = []
        self.obs = []          # Coq obs terms, aligned with coq_ops
        self.results = {}      # op index -> FileResult / DirectoryResult
        self.result_info = {}  # op index -> dict
        self.ref_upload = {}   # path -> (cap, size, mtime, ctime)
        self.ref_dirs = {}     # frozenset(items) -> dircap
        self.failures = 0
        self.flags = set()
        self.intern = {}
        global _INTERN
        _INTERN = self.intern
        if os.path.exists(dbpath):
            os.unlink(dbpath)
        if v1_first:
            stderr = io.StringIO()
            sq, db = self.mod.get_db(dbpath, stderr, (backupdb.SCHEMA_v1, 1), just_create=True, dbname="backupdb")
            db.close()
            self.history.append({"op": "created_as_v1"})
        self.bdb = self._open()

    def _open(self):
        stderr = io.StringIO()
        bdb = self.mod.get_backupdb(self.dbpath, stderr)
        if bdb is None:
            raise RuntimeError("get_backupdb failed: " + stderr.getvalue())
        bdb.connection.execute("PRAGMA synchronous=OFF")      # scratch file: no fsync per commit
        return bdb

    def close(self):
        try:
            self.bdb.connection.close()
        except Exception:
            pass
        self.mod.os, self.mod.time, self.mod.random = self.saved

    def _emit(self, op, coq, obs):
        self.history.append(op)
        if coq is not None:
            self.coq_ops.append(coq)
            self.obs.append(obs)
        return len(self.history) - 1

    # ---- operations -----------------------------------------------------------
    def reopen(self):
        self.bdb.connection.close()
        self.bdb = self._open()
        for r in self.results.values():     # result objects of the previous process are re-bound to the re-opened database
            r.bdb = self.bdb
        self._emit({"op": "reopen"}, None, None)

    def check_file(self, path, ts, stat, now, rnd, alias=None):
        """path: canonical absolute path (what the database stores); alias: the
        spelling handed to check_file (normalises to path)."""
        self.clock.now = now
        self.rand.rnd = rnd
        if self.scripted:
            if stat is None:
                self.stat_table.pop(path, None)
            else:
                self.stat_table[path] = tuple(stat)
        op = {"op": "check_file", "path": path, "alias": alias, "ts": ts, "stat": stat, "now": now, "rnd": rnd}
        try:
            r = self.bdb.check_file(alias or path, ts)
        except OSError:
            ix = self._emit(op, None, None)
            self.result_info[ix] = {"error": "OSError"}
            return ix
        was = r.was_uploaded()
        cap = None if was is False else was
        info = {"cap": cap, "should_check": bool(r.should_check()), "path": r.path, "mtime": r.mtime, "ctime": r.ctime, "size": r.size}
        size, mtime, ctime = stat
        coq = "OCheckFile %s %s %s %s %s %s %s" % (B(path.encode("utf-8")), T.boolean(ts), T.N(size), T.N(mtime), T.N(ctime), T.N(now), T.N(rnd))
        obs = "ObsFile %s %s %s %s %s %s" % (T.opt(B(cap)) if cap is not None else "None", T.boolean(info["should_check"]),
                                             B(r.path.encode("utf-8")), T.N(r.mtime), T.N(r.ctime), T.N(r.size))
        ix = self._emit(op, coq, obs)
        self.results[ix] = r
        self.result_info[ix] = info
        # ---- direct oracle: the rule of the property -------------------------
        if cap is not None:
            self.flags.add("file-reuse")
            rec = self.ref_upload.get(path)
            why = None
            if not ts:
                why = "untrusted-timestamps"
            elif rec is None:
                why = "no-upload-record"
            elif rec[1] != size:
                why = "size-changed"
            elif rec[2] != mtime:
                why = "mtime-changed"
            elif rec[3] != ctime:
                why = "ctime-changed"
            elif rec[0] != cap:
                why = "wrong-cap"
            if why:
                self.failures += 1
                self.ctx.oracle_fail("file-cap-reused:" + why,
                                     "check_file(%r, use_timestamps=%s) hands back %r although %s (current stat size/mtime/ctime=%r, "
                                     "most recent upload record %r)" % (path, ts, cap, why, tuple(stat), rec),
                                     case={"history": self.history[:ix + 1]}, expected="was_uploaded() == False",
                                     observed={"cap": cap.hex(), "stat": list(stat), "record": None if rec is None else [rec[0].hex()] + list(rec[1:])})
        else:
            rec = self.ref_upload.get(path)
            if rec is not None and (not ts or (rec[1], rec[2], rec[3]) != (size, mtime, ctime)):
                self.flags.add("file-refused")
        return ix

    def _record_upload(self, cap, path, mtime, ctime, size):
        self.ref_upload[path] = (cap, size, mtime, ctime)

    def did_upload(self, rix, cap, now):
        self.clock.now = now
        r = self.results[rix]
        r.did_upload(cap)
        info = self.result_info[rix]
        self._record_upload(cap, info["path"], info["mtime"], info["ctime"], info["size"])
        coq = "ODidUpload %s %s %s %s %s %s" % (B(cap), B(info["path"].encode("utf-8")), T.N(info["mtime"]), T.N(info["ctime"]), T.N(info["size"]), T.N(now))
        return self._emit({"op": "did_upload", "r": rix, "cap": cap.hex(), "now": now}, coq, "ObsNone")

    def raw_did_upload(self, cap, path, mtime, ctime, size, now):
        self.clock.now = now
        self.bdb.did_upload_file(cap, path, mtime, ctime, size)
        self._record_upload(cap, path, mtime, ctime, size)
        coq = "ODidUpload %s %s %s %s %s %s" % (B(cap), B(path.encode("utf-8")), T.N(mtime), T.N(ctime), T.N(size), T.N(now))
        return self._emit({"op": "raw_did_upload", "cap": cap.hex(), "path": path, "mtime": mtime, "ctime": ctime, "size": size, "now": now}, coq, "ObsNone")

    def did_check_healthy_file(self, rix, now):
        self.clock.now = now
        r = self.results[rix]
        r.did_check_healthy({"results": {"healthy": True}})
        cap = self.result_info[rix]["cap"]
        coq = "ODidCheckFileHealthy %s %s" % (B(cap), T.N(now))
        return self._emit({"op": "did_check_healthy_file", "r": rix, "now": now}, coq, "ObsNone")

    def raw_did_check_file_healthy(self, cap, now):
        self.clock.now = now
        self.bdb.did_check_file_healthy(cap, {"results": {"healthy": True}})
        coq = "ODidCheckFileHealthy %s %s" % (B(cap), T.N(now))
        return self._emit({"op": "raw_did_check_file_healthy", "cap": cap.hex(), "now": now}, coq, "ObsNone")

    def check_dir(self, items, now, rnd):
        """items: list of (name: str, cap: bytes) in dict insertion order."""
        self.clock.now = now
        self.rand.rnd = rnd
        contents = {}
        for n, c in items:
            contents[n] = c
        items = list(contents.items())
        r = self.bdb.check_directory(contents)
        was = r.was_created()
        cap = None if was is False else was
        info = {"cap": cap, "should_check": bool(r.should_check()), "dirhash": r.dirhash, "items": items}
        coq = "OCheckDir %s %s %s" % (contents_term(items), T.N(now), T.N(rnd))
        obs = "ObsDir %s %s %s" % (B(r.dirhash), T.opt(B(cap)) if cap is not None else "None", T.boolean(info["should_check"]))
        ix = self._emit({"op": "check_dir", "items": [[n, c.hex()] for n, c in items], "now": now, "rnd": rnd}, coq, obs)
        self.results[ix] = r
        self.result_info[ix] = info
        self.flags.add("dir-op")
        key = frozenset(items)
        if cap is not None:
            self.flags.add("dir-reuse")
            want = self.ref_dirs.get(key)
            if want != cap:
                self.failures += 1
                self.ctx.oracle_fail("dircap-reused-for-different-contents",
                                     "check_directory(%r) hands back %r; the dircap most recently recorded for exactly these contents is %r"
                                     % (items, cap, want), case={"history": self.history[:ix + 1]},
                                     expected=None if want is None else want.hex(), observed=cap.hex())
        return ix

    def did_create(self, rix, dircap, now):
        self.clock.now = now
        r = self.results[rix]
        r.did_create(dircap)
        items = self.result_info[rix]["items"]
        self.ref_dirs[frozenset(items)] = dircap
        coq = "ODidCreateDir %s %s %s" % (B(dircap), contents_term(items), T.N(now))
        return self._emit({"op": "did_create", "r": rix, "dircap": dircap.hex(), "now": now}, coq, "ObsNone")

    def raw_did_create(self, dircap, dirhash, now):
        self.clock.now = now
        self.bdb.did_create_directory(dircap, dirhash)
        coq = "ODidCreateDirRaw %s %s %s" % (B(dircap), B(dirhash), T.N(now))
        return self._emit({"op": "raw_did_create", "dircap": dircap.hex(), "dirhash": dirhash.hex(), "now": now}, coq, "ObsNone")

    def did_check_healthy_dir(self, rix, now):
        self.clock.now = now
        r = self.results[rix]
        r.did_check_healthy({"results": {"healthy": True}})
        cap = self.result_info[rix]["cap"]
        coq = "ODidCheckDirHealthy %s %s" % (B(cap), T.N(now))
        return self._emit({"op": "did_check_healthy_dir", "r": rix, "now": now}, coq, "ObsNone")

    # ---- replay of an explicit history ------------------------------------------
    def apply(self, op):
        k = op["op"]
        if k == "reopen":
            self.reopen()
        elif k == "created_as_v1":
            pass
        elif k == "check_file":
            self.check_file(op["path"], op["ts"], op["stat"], op["now"], op["rnd"], alias=op.get("alias"))
        elif k == "did_upload":
            self.did_upload(op["r"], bytes.fromhex(op["cap"]), op["now"])
        elif k == "raw_did_upload":
            self.raw_did_upload(bytes.fromhex(op["cap"]), op["path"], op["mtime"], op["ctime"], op["size"], op["now"])
        elif k == "did_check_healthy_file":
            self.did_check_healthy_file(op["r"], op["now"])
        elif k == "raw_did_check_file_healthy":
            self.raw_did_check_file_healthy(bytes.fromhex(op["cap"]), op["now"])
        elif k == "check_dir":
            self.check_dir([(n, bytes.fromhex(c)) for n, c in op["items"]], op["now"], op["rnd"])
        elif k == "did_create":
            self.did_create(op["r"], bytes.fromhex(op["dircap"]), op["now"])
        elif k == "raw_did_create":
            self.raw_did_create(bytes.fromhex(op["dircap"]), bytes.fromhex(op["dirhash"]), op["now"])
        elif k == "did_check_healthy_dir":
            self.did_check_healthy_dir(op["r"], op["now"])
        else:
            raise ValueError(k)

    # ---- table dump ---------------------------------------------------------------
    def dump(self):
        c = self.bdb.connection.cursor()
        lf = [(to_b(p), (s, m, ct, f)) for (p, s, m, ct, f) in c.execute("SELECT path,size,mtime,ctime,fileid FROM local_files")]
        cp = [(f, to_b(cap)) for (f, cap) in c.execute("SELECT fileid,filecap FROM caps")]
        lu = [(f, (u, k)) for (f, u, k) in c.execute("SELECT fileid,last_uploaded,last_checked FROM last_upload")]
        dr = [(to_b(h), (to_b(dc), u, k)) for (h, dc, u, k) in c.execute("SELECT dirhash,dircap,last_uploaded,last_checked FROM directories")]
        return lf, cp, lu, dr

    def terms(self):
        """(full-history term, list of prefix terms for localisation)"""
        ops = T.lst(self.coq_ops)
        obs = T.lst(self.obs)
        lf, cp, lu, dr = self.last_dump = self.dump()
        t_lf = T.lst([T.pair(B(p), "(%s, %s, %s, %s)" % (T.N(s), T.N(m), T.N(c), T.N(f))) for p, (s, m, c, f) in lf])
        t_cp = T.lst([T.pair(T.N(f), B(cap)) for f, cap in cp])
        t_lu = T.lst([T.pair(T.N(f), T.pair(T.N(u), T.N(k))) for f, (u, k) in lu])
        t_dr = T.lst([T.pair(B(h), "(%s, %s, %s)" % (B(dc), T.N(u), T.N(k))) for h, (dc, u, k) in dr])
        full = self.lets() + "history_matches %s %s %s %s %s %s" % (ops, obs, t_lf, t_cp, t_lu, t_dr)
        return full

    def lets(self):
        return "".join("let %s := %s in " % (name, T.bytes_(b)) for b, name in sorted(self.intern.items(), key=lambda kv: int(kv[1][1:-1])))

    def prefix_terms(self):
        out = []
        lets = self.lets()
        for n in range(1, len(self.coq_ops) + 1):
            out.append(lets + "obs_list_eqb (run_obs real_dirkey empty_db %s) %s" % (T.lst(self.coq_ops[:n]), T.lst(self.obs[:n])))
        return out


def to_b(x):
    if isinstance(x, bytes):
        return x
    return x.encode("utf-8")


# =============================================================================
# history generator (scripted environment)
# =============================================================================
NAMES = ["a", "b", "ab", "f1", "f2", "d", "1:a,", "été", "日本", "a,1:b", "z" * 11]
JUMPS = [0, 0, 1, 1, 5, 60, DAY, DAY, 10 * DAY, MONTH - 1, MONTH, MONTH + 1, MONTH + MONTH // 2, 2 * MONTH - 1, 2 * MONTH, 2 * MONTH + 1]
RNDS = [0, 0, 1, 16384, 32767, 32768, 49152, 65535, 65535]


def ns(b):
    return b"%d:" % len(b) + b + b","


def filecap(content_id):
    return b"URI:CHK:" + hashlib.sha256(b"content-%d" % content_id).hexdigest()[:24].encode()


def dircap_for(n):
    return b"URI:DIR2-CHK:" + hashlib.sha256(b"dir-%d" % n).hexdigest()[:24].encode()


def gen_history(ctx, r, s, length, profile):
    """Drive Session `s` with a seeded history.  Virtual file system: path ->
    [size, mtime, ctime, content_id]."""
    base = r.choice(["/b", "/b/é", "/home/u/Documents and Settings"])
    files = {}
    now = 1000000 + r.randrange(1000)
    next_content = [0]
    ndirs = [0]
    pending = []      # (result index, content id at check time) of checks not yet followed by did_upload
    dir_results = []  # result indices of check_dir
    dir_pool = []     # item lists used so far
    created_pool = []  # item lists recorded with did_create

    def new_content():
        next_content[0] += 1
        return next_content[0]

    def fresh_path():
        return base + "/" + r.choice(["f%d" % r.randrange(6), "sub/g%d" % r.randrange(3), "ü%d" % r.randrange(2),
                                      "README", "readme", "Makefile", "makefile", "sub/Notes.TXT", "sub/notes.txt"])

    def case_twin(p):
        """the path spelled with the ASCII case of its last component exchanged (README/readme): another file"""
        d, b = p.rsplit("/", 1)
        return d + "/" + b.swapcase()

    def stat_of(p):
        f = files.get(p)
        return None if f is None else [f[0], f[1], f[2]]

    def alias_of(p):
        if r.random() < 0.15:
            d, b = p.rsplit("/", 1)
            return r.choice([d + "/./" + b, d + "//" + b, d + "/x/../" + b])
        return None

    def tick():
        nonlocal now
        now += r.choice(JUMPS)
        return now

    def backup_file(p, ts=True):
        """what BackerUpper.upload/check_backupdb_file do for one file"""
        ix = s.check_file(p, ts, stat_of(p), tick(), r.choice(RNDS), alias=alias_of(p))
        info = s.result_info[ix]
        if "error" in info:
            return
        cid = files[p][3]
        if info["cap"] is None:
            if r.random() < 0.12:
                pending.append((ix, cid))        # upload still running: did_upload comes later
            else:
                s.did_upload(ix, filecap(cid), tick())
        elif info["should_check"]:
            if r.random() < 0.6:
                s.did_check_healthy_file(ix, tick())
            else:
                s.did_upload(ix, filecap(cid), tick())

    def snapshot_dir():
        """what BackerUpper.upload_directory/check_backupdb_directory do"""
        k = r.random()
        big = [it for it in created_pool if len(it) >= 2]
        if big and k < 0.15:
            # two adjacent entries (in sorted order) of a RECORDED dict folded into one: equal hash input under
            # any encoding that is not prefix-free in both fields
            srt = sorted(r.choice(big), key=lambda e: e[0].encode("utf-8"))
            j = r.randrange(len(srt) - 1)
            (n0, c0), (n1, c1) = srt[j], srt[j + 1]
            n0b, n1b = n0.encode("utf-8"), n1.encode("utf-8")
            items = list(srt)
            try:
                folded = r.choice([
                    (n0, c0 + ns(n1b) + ns(c1)), (n0, c0 + ns(n1b) + c1), (n0, c0 + n1b + c1), (n0, c0 + n1b + ns(c1)),
                    ((n0b + ns(c0) + n1b).decode("utf-8"), c1), ((n0b + c0 + n1b).decode("utf-8"), c1),
                    ((n0b + c0 + ns(n1b)).decode("utf-8"), c1),
                ])
                items = srt[:j] + [folded] + srt[j + 2:]
            except UnicodeDecodeError:
                pass
        elif dir_pool and k < 0.5:
            items = list(r.choice(dir_pool))
            m = r.random()
            if m < 0.3:
                r.shuffle(items)                 # same dict, another insertion order
            elif m < 0.5 and items:
                j = r.randrange(len(items))      # one cap changed
                items[j] = (items[j][0], filecap(new_content()))
            elif m < 0.6 and items:
                items.pop(r.randrange(len(items)))
            elif m < 0.7:
                nm = r.choice(NAMES)
                if nm not in [n for n, _ in items]:
                    items.append((nm, filecap(r.randrange(1, 6))))
            elif m < 0.8 and len(items) >= 2:
                (n0, c0), (n1, c1) = items[0], items[1]   # names swap caps
                items[0], items[1] = (n0, c1), (n1, c0)
        else:
            nn = r.choice([0, 1, 2, 2, 3, 4])
            names = r.sample(NAMES, nn)
            items = [(n, filecap(r.randrange(1, 6)) if r.random() < 0.8 else dircap_for(r.randrange(3))) for n in names]
            if r.random() < 0.2:
                # netstring-ambiguity probes: {"a": X, "b": Y} against {"a": X + netstring-looking tail}
                items = r.choice([
                    [("a", b"1:b,"), ("b", b"c")],
                    [("a", b"1:b,1:c,")],
                    [("a,1:b", b"c")],
                    [("a", b""), ("", b"a")],
                    [("", b"")],
                ])
        dir_pool.append(tuple(items))
        ix = s.check_dir(items, tick(), r.choice(RNDS))
        dir_results.append(ix)
        info = s.result_info[ix]
        if info["cap"] is None:
            if r.random() < 0.9:
                ndirs[0] += 1
                s.did_create(ix, dircap_for(ndirs[0]), tick())
                created_pool.append(tuple(items))
        elif info["should_check"]:
            if r.random() < 0.6:
                s.did_check_healthy_dir(ix, tick())
            else:
                ndirs[0] += 1
                s.did_create(ix, dircap_for(ndirs[0]), tick())

    weights = {
        "files": [("create", 3), ("case_twin", 2), ("backup", 9), ("backup_all", 2), ("change_size", 3), ("change_same_size", 2), ("touch_mtime", 2),
                  ("touch_ctime", 2), ("restore_stat", 1), ("swap_times", 2), ("rename", 2), ("delete", 1), ("late_upload", 2), ("no_ts", 1),
                  ("raw", 1), ("reopen", 1), ("dir", 1)],
        "dirs": [("create", 1), ("backup", 2), ("dir", 9), ("raw_dir", 1), ("reopen", 1), ("change_size", 1)],
        "mixed": [("create", 3), ("case_twin", 1), ("backup", 7), ("backup_all", 1), ("change_size", 2), ("change_same_size", 1), ("touch_mtime", 1),
                  ("touch_ctime", 1), ("restore_stat", 1), ("swap_times", 1), ("rename", 1), ("late_upload", 1), ("no_ts", 1), ("raw", 1),
                  ("reopen", 1), ("dir", 6), ("raw_dir", 1)],
    }[profile]
    bag = [k for k, w in weights for _ in range(w)]
    old_stats = {}
    for _ in range(length):
        k = r.choice(bag)
        paths = sorted(files)
        if k == "create" or (not paths and k not in ("dir", "raw_dir", "reopen", "raw")):
            p = fresh_path()
            t = tick()
            files[p] = [r.choice([0, 1, 10, 4096, 2 ** 32 + 5]), t - r.choice([0, 5, 1000]), t, new_content()]
        elif k == "case_twin":
            # a second file whose path differs only in ASCII case, with the same size, mtime and ctime, other contents;
            # both are backed up: neither may be offered the other's cap
            p = r.choice(paths)
            q = case_twin(p)
            if q != p:
                files[q] = [files[p][0], files[p][1], files[p][2], new_content()]
                first, second = (p, q) if r.random() < 0.5 else (q, p)
                backup_file(first)
                backup_file(second)
                backup_file(first)
        elif k == "backup":
            backup_file(r.choice(paths))
        elif k == "backup_all":
            for p in paths:
                backup_file(p)
        elif k == "no_ts":
            backup_file(r.choice(paths), ts=False)
        elif k == "change_size":
            p = r.choice(paths)
            old_stats[p] = list(files[p])
            t = tick()
            files[p] = [max(0, files[p][0] + r.choice([1, 1, 100, -1, -1])) if files[p][0] else 1,
                        t if r.random() < 0.7 else files[p][1], t if r.random() < 0.7 else files[p][2], new_content()]
        elif k == "change_same_size":
            p = r.choice(paths)
            old_stats[p] = list(files[p])
            t = tick()
            files[p] = [files[p][0], max(t, files[p][1] + 1), max(t, files[p][2] + 1), new_content()]
        elif k == "touch_mtime":
            p = r.choice(paths)
            old_stats[p] = list(files[p])
            files[p][1] += r.choice([1, -1, 3600]) if files[p][1] > 0 else 1
        elif k == "touch_ctime":
            p = r.choice(paths)
            old_stats[p] = list(files[p])
            files[p][2] += r.choice([1, 1, 86400])
        elif k == "restore_stat":
            p = r.choice(paths)
            if p in old_stats:
                files[p] = old_stats.pop(p)[:3] + [new_content()]    # same stat as before, other content
        elif k == "swap_times":
            p = r.choice(paths)
            old_stats[p] = list(files[p])
            files[p] = [files[p][0], files[p][2], files[p][1], new_content()]    # mtime and ctime exchanged, other content
        elif k == "rename":
            p = r.choice(paths)
            q = fresh_path()
            if q != p:
                if q in files and r.random() < 0.5:
                    files[p], files[q] = files[q], files[p]           # swap two files
                else:
                    files[q] = files.pop(p)
                    if r.random() < 0.5:
                        files[q][2] = tick()
        elif k == "delete":
            p = r.choice(paths)
            del files[p]
            if r.random() < 0.5:
                s.check_file(p, True, None, tick(), 0)
        elif k == "late_upload":
            if pending:
                ix, cid = pending.pop(r.randrange(len(pending)))
                s.did_upload(ix, filecap(cid), tick())
        elif k == "raw":
            m = r.random()
            if m < 0.3:
                s.raw_did_check_file_healthy(filecap(r.randrange(1, 40)), tick())
            elif m < 0.5 and paths:
                p = r.choice(paths)
                s.raw_did_upload(b"", p, files[p][1], files[p][2], files[p][0], tick())      # empty cap: falsy
            elif paths:
                p = r.choice(paths)
                s.raw_did_upload(filecap(r.randrange(1, 6)), p, files[p][1] + r.choice([0, 0, 1]), files[p][2], files[p][0] + r.choice([0, 0, 1]), tick())
        elif k == "reopen":
            s.reopen()
        elif k == "dir":
            snapshot_dir()
        elif k == "raw_dir":
            m = r.random()
            if m < 0.5:
                s.raw_did_create(dircap_for(r.randrange(4)), b"raw-key-%d" % r.randrange(3), tick())
            elif dir_results:
                ix = r.choice(dir_results)
                if s.result_info[ix]["cap"] is not None:
                    s.did_check_healthy_dir(ix, tick())
    # a final pass over everything, so the end state is observed through the API too
    for p in sorted(files):
        s.check_file(p, True, stat_of(p), tick(), r.choice(RNDS))
    for items in dir_pool[-3:]:
        s.check_dir(list(items), tick(), r.choice(RNDS))


# =============================================================================
# run
# =============================================================================
def one_history(ctx, i, kind, length, scratch):
    r = ctx.rng("hist", kind, i)
    dbpath = os.path.join(scratch, "%s-%d.sqlite" % (kind, i))
    s = Session(ctx, dbpath, scripted=True, v1_first=(r.random() < 0.1))
    try:
        gen_history(ctx, r, s, length, kind)
        term = s.terms()
        return s, term
    finally:
        s.close()


def hand_histories():
    """Fixed histories at the edges (explicit ops, replayed through Session.apply)."""
    A, Bc = filecap(1).hex(), filecap(2).hex()
    p = "/b/f"
    H = []
    # exact boundaries of should_check around 1 and 2 months, rnd at the comparison edge
    h = [{"op": "raw_did_upload", "cap": A, "path": p, "mtime": 5, "ctime": 6, "size": 7, "now": 1000}]
    for dt in (0, MONTH - 1, MONTH, MONTH + 1, MONTH + MONTH // 2, MONTH + MONTH // 2 + 1, 2 * MONTH - 1, 2 * MONTH, 2 * MONTH + 1, 3 * MONTH):
        for rnd in (0, 1, 32767, 32768, 32769, 65535):
            h.append({"op": "check_file", "path": p, "ts": True, "stat": [7, 5, 6], "now": 1000 + dt, "rnd": rnd})
    H.append(h)
    # clock going backwards
    H.append([{"op": "raw_did_upload", "cap": A, "path": p, "mtime": 5, "ctime": 6, "size": 7, "now": 10 * MONTH},
              {"op": "check_file", "path": p, "ts": True, "stat": [7, 5, 6], "now": 0, "rnd": 0},
              {"op": "check_file", "path": p, "ts": True, "stat": [7, 5, 6], "now": 13 * MONTH, "rnd": 65535}])
    # each stat field alone, then restored; forgotten after a refusal
    h = [{"op": "raw_did_upload", "cap": A, "path": p, "mtime": 5, "ctime": 6, "size": 7, "now": 1}]
    for st in ([7, 5, 6], [8, 5, 6], [7, 5, 6]):
        h.append({"op": "check_file", "path": p, "ts": True, "stat": st, "now": 2, "rnd": 0})
    h.append({"op": "raw_did_upload", "cap": Bc, "path": p, "mtime": 5, "ctime": 6, "size": 7, "now": 3})
    for st in ([7, 4, 6], [7, 5, 6]):
        h.append({"op": "check_file", "path": p, "ts": True, "stat": st, "now": 4, "rnd": 0})
    h.append({"op": "raw_did_upload", "cap": A, "path": p, "mtime": 5, "ctime": 6, "size": 7, "now": 5})
    for st in ([7, 5, 7], [7, 5, 6]):
        h.append({"op": "check_file", "path": p, "ts": True, "stat": st, "now": 6, "rnd": 0})
    h.append({"op": "raw_did_upload", "cap": A, "path": p, "mtime": 5, "ctime": 6, "size": 7, "now": 7})
    h.append({"op": "check_file", "path": p, "ts": False, "stat": [7, 5, 6], "now": 8, "rnd": 0})
    h.append({"op": "check_file", "path": p, "ts": True, "stat": [7, 5, 6], "now": 9, "rnd": 0})
    H.append(h)
    # two files whose paths differ only in ASCII case, equal size/mtime/ctime, different contents
    H.append([{"op": "raw_did_upload", "cap": A, "path": "/b/README", "mtime": 5, "ctime": 6, "size": 7, "now": 1},
              {"op": "raw_did_upload", "cap": Bc, "path": "/b/readme", "mtime": 5, "ctime": 6, "size": 7, "now": 2},
              {"op": "check_file", "path": "/b/README", "ts": True, "stat": [7, 5, 6], "now": 3, "rnd": 0},
              {"op": "check_file", "path": "/b/readme", "ts": True, "stat": [7, 5, 6], "now": 3, "rnd": 0},
              {"op": "check_file", "path": "/b/Readme", "ts": True, "stat": [7, 5, 6], "now": 3, "rnd": 0},
              {"op": "check_file", "path": "/b/readme", "ts": True, "stat": [8, 5, 6], "now": 4, "rnd": 0},
              {"op": "check_file", "path": "/b/README", "ts": True, "stat": [7, 5, 6], "now": 5, "rnd": 0}])
    # the same cap for two paths, one path re-uploaded with another cap; ids in caps are shared
    H.append([{"op": "raw_did_upload", "cap": A, "path": "/b/x", "mtime": 1, "ctime": 1, "size": 1, "now": 1},
              {"op": "raw_did_upload", "cap": A, "path": "/b/y", "mtime": 2, "ctime": 2, "size": 2, "now": 2},
              {"op": "raw_did_upload", "cap": Bc, "path": "/b/x", "mtime": 1, "ctime": 1, "size": 1, "now": 3},
              {"op": "raw_did_upload", "cap": A, "path": "/b/z", "mtime": 1, "ctime": 1, "size": 1, "now": 4},
              {"op": "check_file", "path": "/b/x", "ts": True, "stat": [1, 1, 1], "now": 5, "rnd": 0},
              {"op": "check_file", "path": "/b/y", "ts": True, "stat": [2, 2, 2], "now": 5, "rnd": 0},
              {"op": "check_file", "path": "/b/z", "ts": True, "stat": [1, 1, 1], "now": 5, "rnd": 0},
              {"op": "raw_did_check_file_healthy", "cap": filecap(9).hex(), "now": 6},
              {"op": "raw_did_upload", "cap": filecap(9).hex(), "path": "/b/w", "mtime": 1, "ctime": 1, "size": 1, "now": 7},
              {"op": "check_file", "path": "/b/w", "ts": True, "stat": [1, 1, 1], "now": 8, "rnd": 0}])
    # directories: order, one-cap change, netstring ambiguity, replace dircap, check-healthy on shared dircap
    d1, d2 = dircap_for(1).hex(), dircap_for(2).hex()
    H.append([{"op": "check_dir", "items": [["a", A], ["b", Bc]], "now": 1, "rnd": 0},
              {"op": "did_create", "r": 0, "dircap": d1, "now": 2},
              {"op": "check_dir", "items": [["b", Bc], ["a", A]], "now": 3, "rnd": 0},
              {"op": "check_dir", "items": [["a", Bc], ["b", A]], "now": 3, "rnd": 0},
              {"op": "check_dir", "items": [["a", A]], "now": 3, "rnd": 0},
              {"op": "check_dir", "items": [["a", A], ["b", Bc], ["c", A]], "now": 3, "rnd": 0},
              {"op": "check_dir", "items": [["a", (b"x" + b"1:b,").hex()]], "now": 3, "rnd": 0},
              {"op": "check_dir", "items": [], "now": 3, "rnd": 0},
              {"op": "did_create", "r": 7, "dircap": d1, "now": 4},
              {"op": "check_dir", "items": [], "now": 5 + 3 * MONTH, "rnd": 65535},
              {"op": "did_check_healthy_dir", "r": 9, "now": 6 + 3 * MONTH},
              {"op": "check_dir", "items": [], "now": 7 + 3 * MONTH, "rnd": 0},
              {"op": "check_dir", "items": [["b", Bc], ["a", A]], "now": 7 + 3 * MONTH, "rnd": 0},
              {"op": "did_create", "r": 12, "dircap": d2, "now": 8 + 3 * MONTH},
              {"op": "check_dir", "items": [["a", A], ["b", Bc]], "now": 9 + 3 * MONTH, "rnd": 0}])
    return H


def run(ctx):
    from allmydata.scripts import backupdb
    ctx.correspondence("backupdb-histories-vs-model")
    ctx.correspondence("backerupper-end-to-end")
    scratch = env.subdir("c42-%d-%d" % (ctx.seed, int(ctx.search)))
    consts = (backupdb.DAY, backupdb.MONTH, backupdb.BackupDB_v2.NO_CHECK_BEFORE, backupdb.BackupDB_v2.ALWAYS_CHECK_AFTER)
    if consts != (DAY, MONTH, MONTH, 2 * MONTH):
        ctx.mismatch("constants", "DAY/MONTH/NO_CHECK_BEFORE/ALWAYS_CHECK_AFTER = %r, the model has %r" % (consts, (DAY, MONTH, MONTH, 2 * MONTH)),
                     correspondence="backupdb-histories-vs-model")
    sessions = []
    terms = []

    # corpus + fixed histories
    fixed = hand_histories()
    cdir = os.path.join(env.CORPUS, ID)
    if os.path.isdir(cdir):
        for fn in sorted(os.listdir(cdir)):
            if fn.endswith(".json"):
                fixed.append(json.load(open(os.path.join(cdir, fn)))["history"])
    for j, hist in enumerate(fixed):
        s = Session(ctx, os.path.join(scratch, "fixed-%d.sqlite" % j), scripted=True,
                    v1_first=bool(hist and hist[0].get("op") == "created_as_v1"))
        try:
            for op in hist:
                s.apply(op)
            terms.append(s.terms())
        finally:
            s.close()
        sessions.append(("fixed", j, s))
        ctx.case(("fixed", j) if "file-reuse" in s.flags or "dir-reuse" in s.flags else None, kind="fixed")

    n = ctx.n(100, 800)
    for i in range(n):
        kind = ["mixed", "files", "dirs", "mixed"][i % 4]
        r0 = ctx.rng("len", i)
        length = r0.choice([5, 12, 25, 45] if not (ctx.tier == "thorough" or ctx.search) else [5, 12, 25, 45, 80, 120])
        s, term = one_history(ctx, i, kind, length, scratch)
        sessions.append((kind, i, s))
        terms.append(term)
        nontrivial = ("file-reuse" in s.flags and "file-refused" in s.flags) if kind == "files" else \
                     ("dir-reuse" in s.flags) if kind == "dirs" else \
                     ("file-reuse" in s.flags and "file-refused" in s.flags and "dir-reuse" in s.flags)
        ctx.case(json.dumps(s.history, sort_keys=True) if nontrivial else None, kind=kind)
        for f in sorted(s.flags):
            ctx.count("reached:" + f)
        ctx.count("ops", len(s.history))
        if i < 2:
            ctx.sample({"kind": kind, "history_head": s.history[:8], "ops": len(s.history)})

    real_file_histories(ctx, scratch, sessions, terms)

    bad = ctx.coq_check(IMPORTS, terms, tag="c42hist", shard=25)
    for nth, ix in enumerate(bad):
        kind, i, s = sessions[ix]
        if nth >= 2:
            ctx.mismatch("model-vs-backupdb", "model and BackupDB_v2 differ on history %s-%d" % (kind, i),
                         case={"history": s.history, "kind": kind, "index": i}, correspondence="backupdb-histories-vs-model")
            continue
        # localise (first two only): first prefix on which the observations differ (none: the table dump differs)
        pre = s.prefix_terms()
        pbad = ctx.coq_check(IMPORTS, pre, tag="c42loc", shard=60) if pre else []
        first = pbad[0] if pbad else None
        what = ("model and BackupDB_v2 differ at operation %d (%s)" % (first, s.coq_ops[first][:200])) if first is not None else \
               "observations agree but the SQLite tables differ from the model's maps at the end of the history"
        ctx.mismatch("model-vs-backupdb", what, case={"history": s.history, "kind": kind, "index": i},
                     expected=("model obs: see replay" if first is None else None),
                     observed=(s.obs[first] if first is not None else repr(s.last_dump)[:1500]),
                     correspondence="backupdb-histories-vs-model")
    ctx.trace(len(terms) - len(bad))

    end_to_end(ctx, scratch)


# =============================================================================
# histories on real files with the real os.stat
# =============================================================================
def real_file_histories(ctx, scratch, sessions, terms):
    n = ctx.n(6, 30)
    for i in range(n):
        r = ctx.rng("real", i)
        root = os.path.join(scratch, "real-%d" % i)
        os.makedirs(root)
        s = Session(ctx, os.path.join(scratch, "real-%d.sqlite" % i), scripted=False)
        try:
            now = 2000000
            paths = []
            contents = {}

            def st(p):
                x = os.stat(p)
                return [x.st_size, int(x.st_mtime), int(x.st_ctime)]

            for step in range(r.choice([8, 16, 24])):
                now += r.choice([1, 60, DAY])
                k = r.choice(["create", "backup", "backup", "backup", "grow", "rewrite", "utime", "rename"])
                if k == "create" or not paths:
                    p = os.path.join(root, "f%d" % len(paths))
                    data = b"x" * r.randrange(0, 50)
                    open(p, "wb").write(data)
                    os.utime(p, (1000 + step, 1000 + step))
                    paths.append(p)
                    contents[p] = hashlib.sha256(data).digest()
                elif k == "backup":
                    p = r.choice(paths)
                    ix = s.check_file(p, True, st(p), now, r.choice(RNDS))
                    info = s.result_info[ix]
                    if info["cap"] is None:
                        s.did_upload(ix, b"URI:CHK:" + contents[p].hex()[:20].encode(), now + 1)
                    elif info["should_check"]:
                        s.did_check_healthy_file(ix, now + 1)
                elif k == "grow":
                    p = r.choice(paths)
                    data = open(p, "rb").read() + b"y"
                    open(p, "wb").write(data)
                    contents[p] = hashlib.sha256(data).digest()
                elif k == "rewrite":
                    p = r.choice(paths)
                    old = os.stat(p)
                    data = bytes(r.getrandbits(8) for _ in range(old.st_size))
                    open(p, "wb").write(data)
                    os.utime(p, (int(old.st_mtime) + 1, int(old.st_mtime) + 1))
                    contents[p] = hashlib.sha256(data).digest()
                elif k == "utime":
                    p = r.choice(paths)
                    os.utime(p, (5000 + step, 5000 + step))
                elif k == "rename":
                    p = r.choice(paths)
                    q = p + "r"
                    os.rename(p, q)
                    paths[paths.index(p)] = q
                    contents[q] = contents.pop(p)
            for p in paths:
                s.check_file(p, True, st(p), now + 5, 0)
            terms.append(s.terms())
        finally:
            s.close()
        sessions.append(("real-files", i, s))
        ctx.case(json.dumps(s.history, sort_keys=True) if "file-reuse" in s.flags else None, kind="real-files")


# =============================================================================
# end to end: the real BackerUpper loop over real trees, HTTP layer replaced
# =============================================================================
class _Resp(object):
    def __init__(self, status, body):
        self.status = status
        self._body = body

    def read(self):
        return self._body


class _Options(dict):
    pass


E2E_BASENAMES = ["Makefile", "README", "__init__.py", "a.txt", "b.txt"]
E2E_DIRS = ["", "src/", "src/lib/", "docs/", "src/docs/", "src/lib/deep/"]


def e2e_story():
    """A project tree whose files share basenames across levels; between backups only ONE file changes, mostly the
    shallower one of two namesakes (the directory above it must then be re-created, not re-used)."""
    def w(rel, text):
        return {"write": rel, "data": text.encode().hex()}
    bk = {"backup": {"dt": 60, "rnd": 0, "ignore_ts": False}}
    return [w("Makefile", "all: v1"), w("README", "top v1"), w("src/Makefile", "src v1"), w("src/main.c", "int main;"),
            w("src/lib/Makefile", "lib v1"), w("src/lib/util.c", "util"), w("docs/README", "docs v1"), w("docs/guide/README", "guide v1"), bk,
            bk,
            w("Makefile", "all: v2"), bk,
            w("docs/README", "docs v2"), bk,
            w("src/Makefile", "src v2 longer"), bk,
            w("src/lib/README", "new file"), bk,
            w("src/README", "shallower namesake created"), bk,
            {"delete": "src/README"}, bk,
            {"delete": "Makefile"}, bk,
            w("Makefile", "all: v3 back again"), w("src/lib/Makefile", "lib v2 changed too"), bk]


def e2e_random_script(r):
    script = []
    disk = {}

    def rel():
        return r.choice(E2E_DIRS) + r.choice(E2E_BASENAMES)

    def data():
        return bytes(r.getrandbits(8) for _ in range(r.choice([0, 3, 40]))).hex()

    for _ in range(r.choice([4, 7, 10])):
        p = rel()
        disk[p] = True
        script.append({"write": p, "data": data()})
    for run_no in range(r.choice([3, 4, 6])):
        if run_no:
            paths = sorted(disk)
            # files that have a namesake deeper below their own directory
            shadowed = [p for p in paths if any(q != p and q.startswith(os.path.dirname(p) + "/" if os.path.dirname(p) else "") and
                                                os.path.basename(q) == os.path.basename(p) and q.count("/") > p.count("/") for q in paths)]
            nchanges = r.choice([1, 1, 1, 2, 4])
            for _ in range(nchanges):
                k = r.random()
                if k < 0.55 and paths:
                    p = r.choice(shadowed) if shadowed and r.random() < 0.7 else r.choice(paths)
                    script.append({"write": p, "data": data() + "%02x" % (run_no + 1)})
                elif k < 0.75:
                    p = rel()
                    disk[p] = True
                    script.append({"write": p, "data": data()})
                elif k < 0.9 and len(paths) > 1:
                    p = r.choice(shadowed) if shadowed and r.random() < 0.5 else r.choice(paths)
                    if p in disk:
                        del disk[p]
                        script.append({"delete": p})
                elif paths:
                    p = r.choice(paths)
                    q = rel()
                    if p in disk and q not in disk:
                        del disk[p]
                        disk[q] = True
                        script.append({"rename": [p, q]})
        script.append({"backup": {"dt": r.choice([60, DAY, MONTH + 5, 2 * MONTH + 5]), "rnd": r.choice(RNDS), "ignore_ts": r.random() < 0.1}})
    return script


def run_e2e_script(ctx, script, order, root, dbpath, label):
    """The real collect_backup_targets / run_backup / BackerUpper.upload / upload_directory / BackupProgress over a real
    tree and a real BackupDB; only do_http is a content-addressed stand-in.  Oracles after every backup: a directory cap
    is re-used only for exactly the name->cap contents the directory has now; the snapshot equals the tree."""
    from allmydata.scripts import backupdb, tahoe_backup
    import datetime
    import shutil
    if os.path.exists(root):
        shutil.rmtree(root)
    os.makedirs(root)
    if os.path.exists(dbpath):
        os.unlink(dbpath)
    case = {"e2e_script": script, "order": order, "label": label}
    saved = (tahoe_backup.do_http, backupdb.time, backupdb.random)
    clock = _Clock()
    clock.now = 3000000
    rand = _Rand()
    cap_content = {}        # filecap -> sha256 of the uploaded bytes
    dir_children = {}       # dircap -> {name: cap}
    http_log = []
    failures = 0

    def fake_http(method, url, body=b""):
        if method == "PUT" and url.endswith("/uri"):
            data = body.read() if hasattr(body, "read") else body
            h = hashlib.sha256(data).digest()
            cap = b"URI:CHK:" + h.hex()[:32].encode()
            cap_content[cap] = h
            http_log.append(("PUT", cap))
            return _Resp(200, cap + b"\n")
        if method == "POST" and "t=mkdir-immutable" in url:
            kids = json.loads(body.decode("utf-8"))
            children = {name: v[1]["ro_uri"].encode() if isinstance(v[1]["ro_uri"], str) else v[1]["ro_uri"] for name, v in kids.items()}
            key = hashlib.sha256(repr(sorted(children.items())).encode()).hexdigest()[:32]
            cap = b"URI:DIR2-CHK:" + key.encode()
            dir_children[cap] = children
            http_log.append(("MKDIR", cap))
            return _Resp(200, cap)
        if method == "POST" and "t=check" in url:
            http_log.append(("CHECK", url))
            return _Resp(200, json.dumps({"results": {"healthy": True}}).encode())
        raise AssertionError("unexpected http %s %s" % (method, url))

    listdir = {"sorted": lambda p: sorted(tahoe_backup.listdir_unicode(p)),
               "reversed": lambda p: sorted(tahoe_backup.listdir_unicode(p), reverse=True),
               "os": tahoe_backup.listdir_unicode}[order]
    disk = {}
    stat_seq = [10000]
    run_no = 0
    try:
        tahoe_backup.do_http = fake_http
        backupdb.time = clock
        backupdb.random = rand
        for step_no, step in enumerate(script):
            if "write" in step:
                p = os.path.join(root, step["write"])
                os.makedirs(os.path.dirname(p), exist_ok=True)
                data = bytes.fromhex(step["data"])
                open(p, "wb").write(data)
                disk[step["write"]] = data
                stat_seq[0] += 7
                os.utime(p, (stat_seq[0], stat_seq[0]))
                continue
            if "delete" in step:
                os.unlink(os.path.join(root, step["delete"]))
                del disk[step["delete"]]
                prune_empty_dirs(root)
                continue
            if "rename" in step:
                a, b = step["rename"]
                os.makedirs(os.path.dirname(os.path.join(root, b)), exist_ok=True)
                os.rename(os.path.join(root, a), os.path.join(root, b))
                disk[b] = disk.pop(a)
                prune_empty_dirs(root)
                continue
            bk = step["backup"]
            clock.now += bk["dt"]
            rand.rnd = bk["rnd"]
            options = _Options({"ignore-timestamps": bk["ignore_ts"], "node-url": "http://127.0.0.1:1/", "verbose": False, "quiet": True})
            options.stdout = io.StringIO()
            options.stderr = io.StringIO()
            bu = tahoe_backup.BackerUpper(options)
            bu.verbosity = 0
            bu.backupdb = backupdb.get_backupdb(dbpath, options.stderr)
            bu.backupdb.connection.execute("PRAGMA synchronous=OFF")
            here = dict(case, upto_step=step_no, run=run_no)

            def upload_directory(path, compare_contents, create_contents, bu=bu, here=here):
                created, dircap = bu.upload_directory(path, compare_contents, create_contents)
                if not created:
                    now_contents = {name: v[1] for name, v in create_contents.items()}
                    if dir_children.get(dircap) != now_contents:
                        old = dir_children.get(dircap) or {}
                        diff = sorted(n for n in set(old) | set(now_contents) if old.get(n) != now_contents.get(n))
                        ctx.oracle_fail("e2e-dircap-reused-for-different-contents",
                                        "%s run %d (%s listing): directory cap %r is re-used for %s although its name->cap contents differ in %r"
                                        % (label, here["run"], order, dircap, os.path.relpath(path, root), diff), case=here,
                                        expected={n: c.decode() for n, c in sorted(now_contents.items())},
                                        observed={n: c.decode() for n, c in sorted(old.items())})
                return created, dircap

            targets = list(tahoe_backup.collect_backup_targets(root, listdir, lambda ch: ch))
            before = len(http_log)
            completed = tahoe_backup.run_backup(warn=bu.warn, upload_file=bu.upload, upload_directory=upload_directory,
                                                targets=targets, start_timestamp=datetime.datetime.now(), stdout=options.stdout)
            bu.backupdb.connection.close()
            # ---- oracle: the snapshot holds exactly the tree, every file with a cap of its CURRENT content
            snap = {}

            def walk(dcap, prefix):
                for name, cap in dir_children[dcap].items():
                    if cap in dir_children:
                        walk(cap, prefix + name + "/")
                    else:
                        snap[prefix + name] = cap
            ok = True
            if completed.dircap not in dir_children:
                ok = False
                ctx.oracle_fail("e2e-unknown-dircap", "run_backup returned a dircap that was never created: %r" % (completed.dircap,), case=here)
            else:
                walk(completed.dircap, "")
                if set(snap) != set(disk):
                    ok = False
                    ctx.oracle_fail("e2e-snapshot-wrong-file-set", "%s run %d (%s listing): snapshot lists %r, the tree holds %r"
                                    % (label, run_no, order, sorted(snap), sorted(disk)), case=here, expected=sorted(disk), observed=sorted(snap))
                for rel, cap in sorted(snap.items()):
                    want = hashlib.sha256(disk.get(rel, b"?")).digest()
                    if rel in disk and cap_content.get(cap) != want:
                        ok = False
                        ctx.oracle_fail("e2e-stale-cap-in-snapshot",
                                        "%s run %d (%s listing): the snapshot holds cap %r for %s, which is not the cap of the file's current content"
                                        % (label, run_no, order, cap, rel), case=dict(here, file=rel),
                                        expected="cap of the current content", observed=cap.decode())
            reused = completed._files_reused
            ctx.case(("e2e", order, json.dumps(script[:step_no + 1], sort_keys=True)) if reused and completed._files_created else None, kind="e2e-run")
            ctx.count("e2e:files-reused", reused)
            ctx.count("e2e:files-uploaded", completed._files_created)
            ctx.count("e2e:dirs-reused", completed._directories_reused)
            ctx.count("e2e:dirs-created", completed._directories_created)
            ctx.count("e2e:http-calls", len(http_log) - before)
            if ok:
                ctx.trace(1)
            else:
                failures += 1
            run_no += 1
    finally:
        tahoe_backup.do_http, backupdb.time, backupdb.random = saved
    return failures


def prune_empty_dirs(root):
    for d, subdirs, files in os.walk(root, topdown=False):
        if d != root and not os.listdir(d):
            os.rmdir(d)


def end_to_end(ctx, scratch):
    scripts = [("story", e2e_story())]
    for i in range(ctx.n(5, 40)):
        scripts.append(("tree-%d" % i, e2e_random_script(ctx.rng("e2e", i))))
    for j, (label, script) in enumerate(scripts):
        for order in ("sorted", "reversed", "os"):
            run_e2e_script(ctx, script, order, os.path.join(scratch, "tree-%d-%s" % (j, order)),
                           os.path.join(scratch, "e2e-%d-%s.sqlite" % (j, order)), label)


# =============================================================================
# replay
# =============================================================================
def replay(ctx, rec):
    case = rec.get("case") or {}
    hist = case.get("history")
    scratch = env.subdir("c42-replay")
    if case.get("e2e_script"):
        script = case["e2e_script"][:case.get("upto_step", len(case["e2e_script"])) + 1]
        n = run_e2e_script(ctx, script, case.get("order", "sorted"), os.path.join(scratch, "tree"), os.path.join(scratch, "e2e.sqlite"),
                           case.get("label", "replay"))
        return {"steps": len(script), "order": case.get("order"), "backup_runs_with_oracle_failures": n}
    if not hist:
        return {"note": "record holds neither a history nor an end-to-end script"}
    s = Session(ctx, os.path.join(scratch, "replay.sqlite"), scripted=True,
                v1_first=bool(hist and hist[0].get("op") == "created_as_v1"))
    try:
        for op in hist:
            s.apply(op)
        out = {"observations": [s.result_info.get(i) for i in range(len(s.history)) if i in s.result_info][-6:],
               "tables": s.dump()}
        bad = ctx.coq_check(IMPORTS, [s.terms()], tag="c42replay")
        out["model_agrees"] = not bad
    finally:
        s.close()
    return out
