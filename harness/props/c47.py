"""C47  A successful mutable publish is recoverable."""
import struct

from core import term as T

ID = "C47"
GEN = ["mutpins"]
RULE = ("unit cases: 1-8 writers over <= 6 share numbers and <= 5 servers, k 1..4, each writer answered by a connection error, a failed test "
        "vector, or a successful write, with 0-2 extra reported shares (some carrying our checkstring), answers in random order; non-trivial = "
        "at least one error or surprise among the answers; grid cases: 1..12 servers, SDMF/MDMF, creation and update, write calls failing on "
        "random servers")
META = {
    "title": "A successful mutable publish is recoverable",
    "level_text": ("Theorems in Coq over a model of Publish's success bookkeeping, for every order of server answers: success implies acknowledged "
                   "writes for at least k distinct share numbers and no unexpected version (no failed test vector, no surprise share); fewer than k "
                   "share numbers with a non-failing writer is an error; surprised always yields UncoordinatedWriteError.  The model is compared with "
                   "the real Publish._connection_problem/_got_write_answer/_push/_failure on random answer sequences; publishes with injected write "
                   "failures are run on a real grid with the property's rule as oracle."),
    "level_note": ("core (partial): share encoding, the writers' queued test vectors and the storage server's test-and-set (C24) are not part of this model; "
                   "the scheduler orders are exercised on the grid, not proved.  A dropped (never answered) write is outside the model: Publish has no "
                   "timeout of its own."),
    "technique": "Coq proof by induction over the answer sequence of a Publish bookkeeping model + differential run vs the real methods + grid fault runs",
    "design_ref": "8/C47",
    "trusted_base": [],
    "assumptions": ["every writer receives exactly one answer or error (hypothesis `covered`)"],
}
IMPORTS = ["Model.Publish"]

OURS = struct.pack(">BQ32s16s", 0, 7, b"R" * 32, b"I" * 16)


def other_checkstring(r):
    if r.random() < 0.5:
        return struct.pack(">BQ32s16s", 0, r.randrange(1, 9), bytes([r.randrange(65, 70)]) * 32, b"J" * 16)
    return struct.pack(">BQ32s", 1, r.randrange(1, 9), bytes([r.randrange(65, 70)]) * 32)


class W(object):
    def __init__(self, shnum, server):
        self.shnum = shnum
        self.server = server

    def __repr__(self):
        return "W(%d,s%d)" % (self.shnum, self.server.i)


class Srv(object):
    def __init__(self, i):
        self.i = i

    def get_name(self):
        return b"s%d" % self.i


class Status(object):
    def __init__(self):
        self.timings = {}

    def __getattr__(self, name):
        return lambda *a, **kw: None


def _mk_errors():
    from twisted.internet import error as tie
    from foolscap.api import DeadReferenceError, RemoteException
    from twisted.python.failure import Failure

    def remote():
        try:
            raise ValueError("server-side error")
        except ValueError:
            return RemoteException(Failure())
    out = [lambda: RuntimeError("boom"), lambda: DeadReferenceError("gone"), remote, lambda: tie.ConnectionLost("lost"),
           lambda: tie.ConnectionDone("done"), lambda: tie.TimeoutError("timeout"), lambda: OSError(28, "No space left on device")]
    try:
        from allmydata.storage.http_client import ClientException
        out.append(lambda: ClientException(500, "Internal Server Error", b""))
    except Exception:
        pass
    return out


_WRITE_ERRORS = _mk_errors()


def drive_unit(k, writers, answers):
    """Run the real bookkeeping methods; returns (outcome, placed set of (shnum, server index))."""
    from twisted.internet import defer
    from twisted.python.failure import Failure
    import allmydata.mutable.publish as P
    from allmydata.mutable.servermap import ServerMap
    from allmydata.util.dictutil import DictOfSets
    p = P.Publish.__new__(P.Publish)
    p.writers = DictOfSets()
    for w in writers:
        p.writers.add(w.shnum, w)
    p.required_shares = k
    p.surprised = False
    p._state = P.DONE_STATE
    p.bad_servers = set()
    p._servermap = ServerMap()
    p.versioninfo = (7, b"R" * 32, b"I" * 16, 100, 10, k, 10, b"prefix", ())
    p.placed = set()
    p.goal = set((w.server, w.shnum) for w in writers)
    p._status = Status()
    p._checkstring = OURS
    p.log = lambda *a, **kw: None
    p._update_status = lambda: None
    p._running = True
    p._started = p._started_pushing = 0.0
    p.segment_size = 100
    p._last_failure = None

    class Node(object):
        def set_downloader_hints(self, h):
            pass
    p._node = Node()
    p.done_deferred = defer.Deferred()
    res = []
    p.done_deferred.addBoth(res.append)
    real_eventually = P.eventually
    P.eventually = lambda f, *a, **kw: f(*a, **kw)
    try:
        for w, a in answers:
            if a[0] == "err":
                # wired as Publish.finish_publishing wires every writer: errback _connection_problem, then callback
                # _got_write_answer, the whole thing one member of a DeferredList that swallows what is left over.  The
                # failure is any of the errors a write request can end with, not only foolscap's two
                exc = _WRITE_ERRORS[(len(str(a)) + w.shnum + 7 * w.server.i) % len(_WRITE_ERRORS)]() if len(a) == 1 else a[1]
                d = defer.fail(Failure(exc))
                d.addErrback(p._connection_problem, w)
                d.addCallback(p._got_write_answer, w, 0.0)
                d.addErrback(lambda f: None)
            else:
                _, wrote, rd = a
                p._got_write_answer((wrote, dict((sh, [cs]) for sh, cs in rd)), w, 0.0)
        p._push()
    finally:
        P.eventually = real_eventually
    if not res:
        out = "pending"
    elif res[0] is None:
        out = "Success"
    elif isinstance(res[0], Failure) and res[0].check(P.UncoordinatedWriteError):
        out = "UncoordinatedWrite"
    elif isinstance(res[0], Failure) and res[0].check(P.NotEnoughServersError):
        out = "NotEnoughServers"
    else:
        out = "other:%r" % (res[0],)
    return out, set((sh, s.i) for (s, sh) in p.placed)


def run(ctx):
    ctx.correspondence("publish-bookkeeping-vs-model")
    ctx.correspondence("grid-publish-with-faults")
    servers = [Srv(i) for i in range(6)]
    terms, info = [], []
    n = ctx.n(500, 5000)
    for i in range(n):
        r = ctx.rng("unit", i)
        k = r.choice([1, 2, 2, 3, 3, 4])
        nw = r.randrange(1, 9)
        seen = set()
        writers = []
        for _ in range(nw):
            key = (r.randrange(0, 6), r.randrange(0, 5))
            if key not in seen:
                seen.add(key)
                writers.append(W(key[0], servers[key[1]]))
        answers = []
        quiet = r.random() < 0.35           # a good share of clean runs so that Success is well represented
        for w in writers:
            x = r.random()
            if not quiet and x < 0.18:
                answers.append((w, ("err",)))
            else:
                wrote = quiet or x > 0.30
                rd = [(w.shnum, OURS if wrote else other_checkstring(r))]
                for _ in range(0 if quiet else r.choice([0, 0, 0, 1, 2])):
                    sh = r.randrange(0, 7)
                    if sh != w.shnum and sh not in [q[0] for q in rd]:
                        rd.append((sh, OURS if r.random() < 0.4 else other_checkstring(r)))
                answers.append((w, ("ans", wrote, rd)))
        r.shuffle(answers)
        out, placed = drive_unit(k, writers, answers)
        nerr = sum(1 for _, a in answers if a[0] == "err")
        nbad = sum(1 for _, a in answers if a[0] == "ans" and not a[1])
        case = {"k": k, "writers": [(w.shnum, w.server.i) for w in writers],
                "answers": [[(w.shnum, w.server.i), a[0]] + ([a[1], [(sh, cs == OURS) for sh, cs in a[2]]] if a[0] == "ans" else []) for w, a in answers]}
        ctx.case(repr(case) if (nerr or nbad or any(len(a[2]) > 1 for _, a in answers if a[0] == "ans")) else None, kind="unit:" + out.split(":")[0])
        # ---- direct oracle ----
        acked = set((w.shnum, w.server.i) for w, a in answers if a[0] == "ans" and a[1])
        if out == "Success":
            if len(set(sh for sh, _ in acked)) < k:
                ctx.oracle_fail("publish-success-with-fewer-than-k-acked", "publish reported success with acknowledged writes for only %d distinct share numbers (k=%d)" % (
                    len(set(sh for sh, _ in acked)), k), case=case)
            if nbad:
                ctx.oracle_fail("publish-success-despite-failed-testv", "publish reported success although a test vector failed (another version was met)", case=case)
            # "no unexpected version was encountered": an answer that shows, on that server, a share of ANOTHER version which
            # this publish is not itself writing there, must not end in success (also when the own write was applied)
            mine = set((w.shnum, w.server.i) for w in writers)
            errored = set((w.shnum, w.server.i) for w, a in answers if a[0] == "err")
            for w, a in answers:
                if a[0] == "ans":
                    foreign = [sh for sh, cs in a[2] if sh != w.shnum and cs != OURS and (sh, w.server.i) not in mine]
                    if foreign:
                        ctx.oracle_fail("publish-success-despite-foreign-version", "publish reported success although server %d's answer showed share(s) %r of "
                                        "another version that this publish was not writing there" % (w.server.i, foreign), case=case)
                        break
            if not placed <= acked:
                ctx.oracle_fail("publish-placed-not-acked", "publish recorded shares as placed that no server acknowledged: %r" % sorted(placed - acked), case=case)
        ok_shnums = set(w.shnum for w, a in answers if a[0] != "err")
        if len(ok_shnums) < k and out == "Success":
            ctx.oracle_fail("publish-success-with-fewer-than-k-writers", "fewer than k share numbers had a non-failing writer but publish succeeded", case=case)
        if out not in ("Success", "UncoordinatedWrite", "NotEnoughServers"):
            ctx.mismatch("publish-unexpected-outcome", "real bookkeeping ended with %s" % out, case=case, correspondence="publish-bookkeeping-vs-model")
            continue
        # ---- model ----
        def wt(w):
            return "{| w_shnum := %s; w_server := %s |}" % (T.N(w.shnum), T.N(w.server.i))
        ans_terms = []
        for w, a in answers:
            if a[0] == "err":
                ans_terms.append("(%s, ConnError)" % wt(w))
            else:
                rd = T.lst(["{| r_shnum := %s; r_is_our_checkstring := %s |}" % (T.N(sh), T.boolean(cs == OURS)) for sh, cs in a[2]])
                ans_terms.append("(%s, Answered %s %s)" % (wt(w), T.boolean(a[1]), rd))
        terms.append("outcome_eqb (publish_outcome %s %s %s) %s" % (T.N(k), T.lst([wt(w) for w in writers]), T.lst(ans_terms), out))
        info.append(case)
        if i < 3:
            ctx.sample(case)
    bad = ctx.coq_check(IMPORTS, terms, tag="c47")
    if bad:
        ctx.note("first mismatching unit case: %r" % (info[bad[0]],))
    for ix in bad:
        ctx.mismatch("publish-model-differs", "Publish bookkeeping and Model/Publish.v disagree", case=info[ix], correspondence="publish-bookkeeping-vs-model")
    ctx.trace(len(terms) - len(bad))
    grid_cases(ctx)


def grid_cases(ctx):
    from core import grid as G
    from props.c11 import share_version
    n = ctx.n(12, 80)
    for i in range(n):
        r = ctx.rng("grid", i)
        seed = r.getrandbits(30)
        S = r.choice([1, 2, 3, 4, 5, 6, 8, 10, 12])
        k, N = r.choice([(1, 1), (1, 3), (2, 4), (3, 5), (3, 10), (2, 3)])
        fmt = r.choice(["sdmf", "mdmf"])
        phase = r.choice(["create", "update", "update"])
        nbad = r.randrange(0, S + 1)
        # in every run: both formats, creation and update, with more than N-k of the write requests failing (an error is due)
        FORCED = [("mdmf", "update", 10, (3, 10), 8), ("mdmf", "create", 10, (3, 10), 10), ("sdmf", "update", 10, (3, 10), 8),
                  ("mdmf", "update", 4, (2, 4), 3), ("sdmf", "create", 5, (3, 5), 4)]
        if i < len(FORCED):
            fmt, phase, S, (k, N), nbad = FORCED[i]
        badservers = sorted(r.sample(range(S), nbad))
        action = r.choice(["error", "error", "error_after"]) if i >= len(FORCED) else "error"
        plan = [{"server": s, "method": "slot_testv_and_readv_and_writev", "nth": 0, "count": None, "action": action} for s in badservers]
        case = {"seed": seed, "servers": S, "k": k, "N": N, "format": fmt, "phase": phase, "bad_servers": badservers, "action": action}
        if i in (len(FORCED), len(FORCED) + 1):
            # a share-holding server fails the survey's reads but accepts writes: its share is unknown to the publisher, which
            # places that share number afresh; if that lands on a share that exists, the publish has met a version it did not
            # expect and must not report success after replacing it
            from props.c12 import watch_server_writes, unguarded_overwrites
            fmt2 = "sdmf" if i == len(FORCED) else "mdmf"
            with G.Grid(num_clients=1, num_servers=10, k=3, n=10, happy=1, seed=seed, timeout=240) as g:
                node = g.run(g.create_mutable(b"old contents", version=fmt2))
                holders = sorted(set(sh.server for sh in g.find_shares(node.get_uri())))
                blind = r.choice(holders)
                g.set_faults([{"server": blind, "method": "slot_readv", "nth": 0, "count": 2, "action": "error"}])
                wlog = []
                restore = watch_server_writes(wlog)
                try:
                    out = g.run(g.mutable_overwrite(node, b"new contents blind"), outcome=True)
                finally:
                    restore()
                    g.set_faults([])
                bcase = {"seed": seed, "servers": 10, "k": 3, "N": 10, "format": fmt2, "phase": "update", "server_failing_survey_reads": blind}
                ctx.case((seed, "blind", fmt2), kind="grid:blind-server:%s" % (out.status if out.status != "error" else out.error))
                bad = unguarded_overwrites(wlog)
                if out.status == "ok" and bad:
                    ctx.oracle_fail("grid-publish-success-after-replacing-unseen-share", "publish reported success although it replaced a share it had "
                                    "never seen (server %d failed the survey's reads): %r" % (blind, bad[0]), case=bcase)
                else:
                    ctx.trace(1)
            continue
        with G.Grid(num_clients=1, num_servers=S, k=k, n=N, happy=1, seed=seed, timeout=240) as g:
            node = None
            if phase == "update":
                node = g.run(g.create_mutable(b"old contents", version=fmt), outcome=True)
                if node.status != "ok":
                    continue
                node = node.value
            g.set_faults(plan)
            data = b"new contents %d " % i + b"z" * r.randrange(0, 50)
            if phase == "create":
                out = g.run(g.create_mutable(data, version=fmt), outcome=True)
                if out.status == "ok":
                    node = out.value
            else:
                out = g.run(g.mutable_overwrite(node, data), outcome=True)
            ctx.case((seed, phase, tuple(badservers), action) if badservers else None, kind="grid:%s:%s" % (phase, out.status if out.status != "error" else out.error))
            if out.status in ("hung", "timeout"):
                ctx.oracle_fail("publish-never-finished", "publish %s with failing servers %r: %s" % (phase, badservers, out.status), case=case)
                continue
            g.set_faults([])
            if out.status == "ok":
                shares = g.find_shares(node.get_uri())
                vers = [(sh.server, sh.shnum) + share_version(g, sh) for sh in shares]
                top = max(v[2] for v in vers) if vers else None
                acked = set(v[1] for v in vers if v[2] == top and v[0] not in badservers)
                if len(acked) < k:
                    ctx.oracle_fail("grid-publish-success-fewer-than-k", "publish succeeded but only %d distinct share numbers of the new version sit on servers that acknowledged (k=%d)" % (len(acked), k), case=case)
                    continue
                # With failing servers, shares of the old version stay behind and a k-of-N read that
                # asks only a few servers may legitimately find the old version first (C11 covers which
                # version a read selects); "recoverable" is judged on the acknowledged shares above.
                rd = g.run(g.mutable_read(node), outcome=True)
                if badservers:
                    ctx.trace(1)
                elif rd.status != "ok" or rd.value != data:
                    ctx.oracle_fail("grid-publish-success-not-recoverable", "publish succeeded but a read returns %r" % (rd.value if rd.status == "ok" else rd.error,), case=case,
                                    expected=data, observed=rd.value if rd.status == "ok" else rd.error)
                else:
                    ctx.trace(1)
            else:
                if len(badservers) == 0:
                    ctx.oracle_fail("grid-publish-failed-without-faults", "publish failed with %s although no server failed" % out.error, case=case)
                elif out.error not in ("NotEnoughServersError", "UncoordinatedWriteError", "NotEnoughSharesError"):
                    ctx.count("grid-publish-error-class:" + str(out.error))
                ctx.trace(1)
            ctx.sample(case, limit=8)
