"""C18  Read-only directory access is transitive."""
import base64
import json

from core import term as T
from props import dirnode_common as D

ID = "C18"
GEN = ["hashutil"]
RULE = ("cases: one tree of directories each (depth <= 4; SDMF, MDMF and immutable LIT/CHK directories; children of every cap "
        "kind: immutable and mutable files, write and read caps, unknown future caps with and without ro./imm. prefixes, links to "
        "sub-directories through write caps and through read caps), written by the real node maker and packer into an in-memory "
        "grid, then opened by a SECOND node maker through the root's read cap and walked completely; plus flat directories of up "
        "to 40 children unpacked through a read-only DirectoryNode; distinct = distinct (tree shape, names, caps); non-trivial = "
        "at least one child with a write cap lies below the read-only root")
META = {
    "title": "Read-only directory access is transitive",
    "level_text": ("Theorems in Coq over the executable model of _pack_normalized_children / _unpack_contents / _encrypt_rw_uri / "
                   "_decrypt_rwcapdata / NodeMaker.create_from_cap / UnknownNode: every child unpacked through a read-only dirnode has "
                   "rw_uri = None (for any directory the packer wrote, under a stated coherence condition on uri.py and outside one "
                   "excluded child class, which is a recorded finding); by induction on the path every descendant of a read-only root "
                   "is read-only; the packed bytes are name, read-cap field and metadata in clear plus salt ++ E_key(rwcap) ++ MAC with "
                   "key = H(salt, writekey of the directory) (derivations regenerated from hashutil.py); the read-cap holder's reader is "
                   "a function that never receives the writekey and whose result depends on the clear fields only.  The model is run "
                   "against the real code; every node and every byte string a read-cap holder can obtain from a generated tree is "
                   "searched for the write caps (and writekeys) of all children."),
    "level_note": ("core (partial): AES-CTR and SHA-256d/HMAC are functions without cryptographic assumptions -- the theorems say which "
                   "inputs the bytes depend on, not that the ciphertext hides the write cap (C17 pins the derivations; secrecy rests on "
                   "AES/SHA-256).  The grid is in memory: what a read-cap holder can fetch is the directory plaintext; the RSA "
                   "encrypted-private-key field of real mutable shares is outside the model (it is encrypted under the writekey, C10/C16).  "
                   "Known finding: an unknown child given with an unknown rw cap AND a known write cap in the ro slot is stored with "
                   "that write cap in clear."),
    "technique": "Coq proof over an executable model + differential run against dirnode.py/nodemaker.py/unknown.py + exhaustive search of the read-cap holder's view",
    "design_ref": "8/C18",
    "trusted_base": ["harness/props/dirnode_common.py (in-memory grid, own cap construction, own reader of the packed format)"],
    "assumptions": ["caps_coherent: a write cap and its read cap print canonically and the read cap parses as a read cap (uri.py; C15/C16)",
                    "json.loads(json.dumps m) = m"],
}

IMPORTS = ["Lib.Hex", "Model.Dirnode", "Model.DirnodeLit"]
PREAMBLE = """
Definition view_eqb (a b : smap (node * bytes)) : bool :=
  Nat.eqb (List.length a) (List.length b) &&
  forallb (fun p => list_N_eqb (fst (fst p)) (fst (snd p)) && node_eqb (fst (snd (fst p))) (fst (snd (snd p)))
                    && list_N_eqb (snd (snd (fst p))) (snd (snd (snd p)))) (combine a b).
Definition tbl_fun {A} (tbl : list (bytes * A)) (k : bytes) : option A := assoc_bytes k tbl.
Definition tbl_wk (tbl : list (bytes * bytes)) (k : bytes) : bytes := match assoc_bytes k tbl with Some v => v | None => [] end.
"""

KNOWN_KIND = "c18-unknown-rw-with-known-writecap-in-ro-slot"


def dumps_md(md):
    return json.dumps(md).encode("utf-8")


def unb32(s):
    s = s.upper()
    return base64.b32decode(s + b"=" * (-len(s) % 8))


def secrets_of(rw):
    """Byte strings that would give away the write cap rw."""
    out = [rw]
    parts = rw.split(b":")
    if rw.startswith(b"URI:") and len(parts) >= 4:
        out.append(parts[2])                       # base32 writekey
        try:
            out.append(unb32(parts[2]))            # raw writekey
        except Exception:
            pass
    return [s for s in out if len(s) >= 8]


class Tree(object):
    def __init__(self, ctx, r, nm, tbl):
        self.ctx, self.r, self.nm, self.tbl = ctx, r, nm, tbl
        self.write_caps = set()        # every write cap linked somewhere in the tree
        self.lossy, self.keep = set(), []
        self.bare_secrets = set()      # write caps attached behind a repeated ro. mark: must never show up as a field or cap
        self.dirs = []                 # (node, kind, children spec)
        self.count = 0

    def leaf(self, immutable):
        r = self.r
        for _ in range(20):
            if immutable:
                c = self.tbl.add(D.gen_imm(r, r.choice(["CHK", "LIT", "DIR2-LIT"]))) if r.random() < 0.7 else self.tbl.add(D.gen_other(r))
                w, ro = None, (c.s if c.cls == "imm" else r.choice([b"", D.RO, D.IMM]) + c.s)
                n = self.nm.create_from_cap(w, ro, deep_immutable=True)
            elif r.random() < 0.1:
                # a write cap wrapped in ro.ro. / ro.ro.ro.: accepted as an unknown read-only cap; a reader must never get it bare
                w, ro, label, secret = D.gen_multi_prefixed_caps(r, self.tbl)
                n = self.nm.create_from_cap(w, ro)
                self.ctx.count("multi-prefixed-attach:" + ("refused" if getattr(n, "error", None) is not None else "accepted"))
                if getattr(n, "error", None) is None:
                    self.bare_secrets.add(secret)
                    self.lossy.add(id(n))            # stored as ro.<write cap>: every reader rejects and drops this child
                    self.keep.append(n)
            elif r.random() < 0.15:
                # an attachment the writer's node maker must refuse: prefix ro./imm. in front of a write-capable cap
                w, ro, label, secret = D.gen_contradictory_caps(r, self.tbl)
                n = self.nm.create_from_cap(w, ro)
                self.ctx.count("contradictory-attach:" + ("refused" if getattr(n, "error", None) is not None else "ACCEPTED"))
                if getattr(n, "error", None) is None:
                    self.write_caps.add(secret)      # it went into the tree: no reader may ever see this write cap
            else:
                w, ro, label = D.gen_child_caps(r, self.tbl, allow_odd=False)
                n = self.nm.create_from_cap(w, ro)
            if getattr(n, "error", None) is None and not (immutable and not n.is_allowed_in_immutable_directory()):
                return n
        raise AssertionError("no usable leaf")

    def build(self, depth, kind):
        from allmydata.interfaces import MDMF_VERSION
        r = self.r
        immutable = kind == "imm"
        children = {}
        for _ in range(r.choice([0, 1, 2, 3, 4])):
            children[D.gen_name(r)] = (self.leaf(immutable), D.gen_metadata(r))
        if depth < 4:
            for _ in range(r.choice([0, 1, 1, 2]) if depth < 3 else r.choice([0, 1])):
                sub_kind = "imm" if immutable else r.choice(["sdmf", "sdmf", "mdmf", "imm"])
                sub = self.build(depth + 1, sub_kind)
                if not immutable and sub_kind != "imm" and r.random() < 0.25:
                    sub = self.nm.create_from_cap(sub.get_readonly_uri())       # linked through its read cap
                children[D.gen_name(r) + "d"] = (sub, D.gen_metadata(r))
        # normalisation may merge names: the packer keeps the later one; record what is actually linked
        final = {}
        for namex, v in children.items():
            final[D.nfc(namex)] = v
        for name, (n, md) in final.items():
            rw = n.get_write_uri()
            if rw:
                self.write_caps.add(rw)
        if immutable:
            dn = D.fire(self.nm.create_immutable_directory(children))
        else:
            dn = D.fire(self.nm.create_new_mutable_directory(children, version=MDMF_VERSION if kind == "mdmf" else None))
        # the model's classification of the new directory's caps, from its key material
        if immutable:
            self.tbl.add(D.Cap(dn.get_readonly_uri(), "imm", True, dn.get_readonly_uri(), label="DIR2-imm"))
        else:
            fcap = dn._node.get_cap()
            cw, cr = self.tbl.add_pair(D.mutable_pair_from_keys(fcap.writekey, fcap.fingerprint, "DIR2-MDMF" if kind == "mdmf" else "DIR2"))
            assert (cw.s, cr.s) == (dn.get_write_uri(), dn.get_readonly_uri()), "own cap construction disagrees with uri.py"
        self.count += 1
        self.dirs.append((dn, kind, final))
        self.ctx.count("dir:" + kind)
        return dn


def dir_plaintext(store, dn):
    """The directory plaintext a holder of dn's cap can fetch."""
    from allmydata import uri
    cap = dn._node.get_cap()
    if isinstance(cap, uri.LiteralFileURI):
        return cap.data
    return store[dn._node.get_storage_index()]


def reader_view(store, dn):
    """Every byte string a holder of (read-only) dn derives from the directory: the plaintext, each field, and the
    write-cap field run through the decryption with every key the reader could try."""
    data = dir_plaintext(store, dn)
    out = [data]
    try:
        entries = D.read_packed(data)
    except Exception:
        return out
    cap = dn._node.get_cap()
    cands = [getattr(cap, a) for a in ("readkey", "storage_index", "fingerprint") if isinstance(getattr(cap, a, None), bytes)]
    cands += [dn.get_readonly_uri(), b"", b"\0" * 16]
    for (name, ro, rwc, _, md) in entries:
        out += [name, ro, md]
        if rwc:
            salt, ct = rwc[:16], rwc[16:-32]
            out.append(ct)
            for k in cands:
                out.append(D.aes_ctr(D.rwcap_key(salt, k), ct))
                if len(k) == 16:
                    out.append(D.aes_ctr(k, ct))
    return out


def bare_field_check(ctx, case, data, bare_secrets):
    """No cleartext field of the directory may BE a write cap that the owner attached behind a repeated ro. mark."""
    if not bare_secrets:
        return
    try:
        entries = D.read_packed(data)
    except Exception:
        return
    for (name, ro, rwc, _, md) in entries:
        if ro in bare_secrets:
            ctx.oracle_fail("write-cap-stored-bare-in-read-slot", "entry %r of the directory plaintext holds a bare write cap in its cleartext read-cap field "
                            "(attached as ro.ro.<write cap>)" % (name.decode("utf-8", "replace"),), case=dict(case, entry=name),
                            expected="a field that is not a write cap", observed=ro)


def xor_attack(ctx, case, data, truth):
    """Given only what the read cap decrypts plus ONE known child write cap, no sibling's write cap may come out."""
    if len(truth) < 2:
        return
    ctx.count("xor-attack:directories-with->=2-write-caps")
    for (known, victim, got, why) in D.sibling_recovery(data, truth)[:1]:
        ctx.oracle_fail("sibling-write-cap-recoverable-from-readcap-view",
                        "holding the directory plaintext (read cap) and the write cap of child %r, the write cap of child %r is recovered: %s"
                        % (known.decode("utf-8", "replace"), victim.decode("utf-8", "replace"), why),
                        case=dict(case, known_child=known, known_write_cap=truth[known], victim_child=victim, directory_plaintext=data[:2000]),
                        expected="a keystream of its own for every entry (salt = H(rw_uri))", observed=got or why)


def reader_walk(ctx, case, store, root_ro, secrets, bare_secrets, truth_by_dir, real_dirs):
    """The read-cap holder walks everything below root_ro: nothing reached may be writeable, and no write cap (or
    writekey) of any child may occur in a node or in any byte string obtained from the directory plaintexts."""
    from allmydata.interfaces import IDirectoryNode
    seen_nodes = 0
    stack = [(root_ro, [])]
    while stack:
        node, path = stack.pop()
        seen_nodes += 1
        obs = D.node_obs(node)
        if obs[1] is not None or (obs[0] != "unknown" and not node.is_readonly()):
            ctx.oracle_fail("descendant-of-readonly-root-is-writeable", "node at %r reached from the read-only root has write authority (%r)" % (path, obs[1]),
                            case=dict(case, path=path), expected=None, observed=obs[1])
        strings = [x for x in (obs[1], obs[2], node.get_uri(), repr(node).encode("utf-8", "replace")) if x]
        if any(x in bare_secrets for x in (obs[1], obs[2], node.get_uri())):
            ctx.oracle_fail("bare-write-cap-handed-to-read-cap-holder", "node at %r reached from the read-only root carries the write cap that was attached behind ro.ro." % (path,),
                            case=dict(case, path=path), expected=None, observed=[obs[1], obs[2]])
        if IDirectoryNode.providedBy(node) and node.get_readonly_uri() not in real_dirs:
            ctx.count("dangling-directory-link")          # a random directory cap with nothing behind it on the grid
        elif IDirectoryNode.providedBy(node):
            if getattr(node._node, "get_writekey", lambda: None)() is not None:
                ctx.oracle_fail("readonly-dirnode-has-writekey", "directory at %r reached read-only holds a writekey" % (path,), case=dict(case, path=path))
            strings += reader_view(store, node)
            bare_field_check(ctx, dict(case, path=path), dir_plaintext(store, node), bare_secrets)
            xor_attack(ctx, dict(case, path=path), dir_plaintext(store, node), truth_by_dir.get(node.get_readonly_uri(), {}))
            children = D.fire(node.list())
            for name, (child, md) in children.items():
                strings.append(dumps_md(md))
                stack.append((child, path + [name]))
        for sec in secrets:
            for s_ in strings:
                if sec in s_:
                    ctx.oracle_fail("write-cap-visible-to-read-cap-holder", "a child write cap (or its writekey) occurs in what a read-cap holder obtains at %r" % (path,),
                                    case=dict(case, path=path), expected="absent", observed={"secret": sec, "in": s_[:200]})
                    break
    return seen_nodes


def owner_blacklist_case(ctx, i):
    """The OWNER's gateway has an access.blacklist listing some write-cap children; it re-links them (set_metadata_for,
    rename/move, set_node from a listing).  Afterwards a second client WITHOUT blacklist, holding only the root read
    cap, walks the tree: nothing writeable, no write cap in what it can read -- also for the re-linked entries."""
    import os
    from allmydata.blacklist import Blacklist, ProhibitedNode
    from allmydata.interfaces import IDirectoryNode
    from core import env
    r = ctx.rng("owner-blacklist", i)
    tbl = D.CapTable()
    nm, store = D.make_nodemaker(r)
    t = Tree(ctx, r, nm, tbl)
    root = t.build(2, r.choice(["sdmf", "mdmf"]))
    case = {"stream": "owner-blacklist", "index": i, "dirs": t.count}
    real_dirs = set(dn.get_readonly_uri() for (dn, kind, final) in t.dirs)
    # storage indexes of write-cap children (files and sub-directories), some of them listed by the operator
    cands = {}
    for (dn, kind, final) in t.dirs:
        for name, (n, md) in final.items():
            if n.get_write_uri() and D.node_obs(n)[0] != "unknown" and n.get_storage_index():
                cands[n.get_storage_index()] = n.get_write_uri()
    listed = sorted(si for si in cands if r.random() < 0.6)
    path_bl = os.path.join(env.subdir("c18-blacklist"), "access-%d.blacklist" % i)
    with open(path_bl, "wb") as f:
        for si in listed:
            f.write(D.b32(si) + b" prohibited by the operator\n")
    owner, _ = D.make_nodemaker(ctx.rng("owner-gw", i), store=store, blacklist=Blacklist(path_bl))
    oroot = owner.create_from_cap(root.get_uri())
    relinked = 0
    ops = []
    stack = [oroot]
    dirs_seen = []
    while stack:
        dnode = stack.pop()
        if not (IDirectoryNode.providedBy(dnode) and dnode.get_readonly_uri() in real_dirs and dnode.get_write_uri()):
            continue
        dirs_seen.append(dnode)
        for name, (child, md) in sorted(D.fire(dnode.list()).items()):
            stack.append(child)
            if not isinstance(child, ProhibitedNode) or not child.get_write_uri():
                continue
            op = r.choice(["set_metadata_for", "rename", "move", "set_node-from-listing"])
            if op == "set_metadata_for":
                res = D.outcome(dnode.set_metadata_for(name, {"reviewed": 1}))
            elif op == "rename":
                res = D.outcome(dnode.move_child_to(name, dnode, D.gen_name(r) + "r"))
            elif op == "move":
                res = D.outcome(dnode.move_child_to(name, r.choice(dirs_seen), D.gen_name(r) + "m"))
            else:
                res = D.outcome(dnode.set_node(D.gen_name(r) + "c", child, {"copy": True}))
            ops.append([op, name, res[0] if res[0] == "ok" else res[1]])
            relinked += res[0] == "ok"
            ctx.count("owner-blacklist-relink:" + op)
    case["relinks"] = ops
    case["blacklisted_storage_indexes"] = listed
    secrets = []
    for w in sorted(t.write_caps):
        secrets += secrets_of(w)
    ctx.case(("ob", root.get_uri(), tuple(map(tuple, ops))) if relinked else None, kind="owner-blacklist:%s" % ("relinked" if relinked else "nothing-to-relink"))
    # the blacklist entry is removed again; what was written stays
    open(path_bl, "wb").close()
    reader, _ = D.make_nodemaker(ctx.rng("owner-blacklist-reader", i), store=store)
    reader_walk(ctx, case, store, reader.create_from_cap(root.get_readonly_uri()), secrets, t.bare_secrets, {}, real_dirs)


def big_directory_case(ctx, i):
    """A BIG directory (60-90 children, serialized well over 16 KiB) with real sub-directories, listed on ONE client first
    through its write cap (all nodes kept alive), then through its read cap: nothing handed out may be writeable."""
    from allmydata.interfaces import IDirectoryNode
    r = ctx.rng("big", i)
    tbl = D.CapTable()
    nm, store = D.make_nodemaker(r)
    children = {}
    subdirs = []
    for k in range(r.choice([60, 70, 90])):
        roll = r.random()
        if roll < 0.08:
            sub_children = {}
            for j in range(r.choice([0, 1, 3])):
                cw, cr = tbl.add_pair(D.gen_mutable_pair(r, r.choice(["SSK", "MDMF"])))
                sub_children["f%d" % j] = (nm.create_from_cap(cw.s), {})
            n = D.fire(nm.create_new_mutable_directory(sub_children))
            subdirs.append(n)
        elif roll < 0.75:
            cw, cr = tbl.add_pair(D.gen_mutable_pair(r, r.choice(["SSK", "MDMF", "DIR2", "DIR2-MDMF"])))
            n = nm.create_from_cap(cw.s, r.choice([None, cr.s]))
        else:
            w, ro, label = D.gen_child_caps(r, tbl, allow_odd=False)
            n = nm.create_from_cap(w, ro)
            if getattr(n, "error", None) is not None:
                continue
        children["%s-%03d" % (D.gen_name(r), k)] = (n, D.gen_metadata(r))
    root = D.fire(nm.create_new_mutable_directory(children))
    size = len(store[root._node.get_storage_index()])
    real_dirs = set([root.get_readonly_uri()] + [d_.get_readonly_uri() for d_ in subdirs])
    case = {"stream": "big", "index": i, "children": len(children), "serialized_bytes": size, "root": root.get_uri()}
    n_rw = len([1 for n, md in children.values() if n.get_write_uri()])
    ctx.case(("big", root.get_uri()), kind="big-directory:%d-KiB" % (size // 1024))
    for same_client in (True, False):
        client, _ = D.make_nodemaker(ctx.rng("big-client", i, same_client), store=store)
        alive = []
        if same_client:
            stack = [client.create_from_cap(root.get_uri())]
            while stack:
                node = stack.pop()
                alive.append(node)
                if IDirectoryNode.providedBy(node) and node.get_readonly_uri() in real_dirs:
                    for rep in range(2):                  # listed twice, as a browsing owner does
                        kids = D.fire(node.list())
                    alive.append(kids)
                    stack.extend(c for c, md in kids.values())
        stack = [(client.create_from_cap(root.get_readonly_uri()), [])]
        reached = 0
        while stack:
            node, path = stack.pop()
            reached += 1
            obs = D.node_obs(node)
            if obs[1] is not None or (obs[0] != "unknown" and not node.is_readonly()):
                ctx.oracle_fail("descendant-of-readonly-root-is-writeable",
                                "big directory (%d children, %d bytes) opened through its read cap %s: node at %r has write authority (%r)"
                                % (len(children), size, "on the client that had just listed it through the write cap" if same_client else "on a fresh client",
                                   path, obs[1]), case=dict(case, path=path, same_client=same_client), expected=None, observed=obs[1])
                break
            if IDirectoryNode.providedBy(node) and node.get_readonly_uri() in real_dirs:
                for name, (child, md) in D.fire(node.list()).items():
                    stack.append((child, path + [name]))
        ctx.count("big-directory:nodes-reached-readonly", reached)
    ctx.count("big-directory:children-with-write-cap", n_rw)


def tree_case(ctx, i, terms, info):
    r = ctx.rng("tree", i)
    tbl = D.CapTable()
    nm, store = D.make_nodemaker(r)
    t = Tree(ctx, r, nm, tbl)
    root = t.build(1, r.choice(["sdmf", "sdmf", "mdmf"]))
    case = {"stream": "tree", "index": i, "dirs": t.count}
    secrets = []
    for w in sorted(t.write_caps):
        secrets += secrets_of(w)
    # ---- the read-cap holder: a second client of the same grid, knowing only the root's read cap
    nm2, _ = D.make_nodemaker(ctx.rng("tree-reader", i), store=store)
    root_ro = nm2.create_from_cap(root.get_readonly_uri())
    real_dirs = set(dn.get_readonly_uri() for (dn, kind, final) in t.dirs)
    truth_by_dir = {dn.get_readonly_uri(): {name.encode("utf-8"): n.get_write_uri() for name, (n, md) in final.items() if n.get_write_uri()}
                    for (dn, kind, final) in t.dirs}
    from allmydata.interfaces import IDirectoryNode
    seen_nodes = reader_walk(ctx, case, store, root_ro, secrets, t.bare_secrets, truth_by_dir, real_dirs)
    # ---- ONE client that first walked the tree through the write cap and still holds every node object
    same_client_case(ctx, i, root, real_dirs, case)
    # ---- positive control: the write-cap holder recovers every write cap
    recovered = set()
    stack = [root]
    while stack:
        node = stack.pop()
        if IDirectoryNode.providedBy(node) and node.get_readonly_uri() in real_dirs:
            for name, (child, md) in D.fire(node.list()).items():
                if child.get_write_uri():
                    recovered.add(child.get_write_uri())
                stack.append(child)
    reachable_rw = set()
    stack = [root]
    while stack:
        node = stack.pop()
        for (dn, kind, final) in t.dirs:
            if dn.get_readonly_uri() == node.get_readonly_uri() and node.get_write_uri():
                for name, (n, md) in final.items():
                    if n.get_write_uri():
                        reachable_rw.add(n.get_write_uri())
                    if IDirectoryNode.providedBy(n):
                        stack.append(n)
    if not reachable_rw <= recovered:
        ctx.oracle_fail("write-cap-holder-cannot-recover-child-write-caps", "some child write caps are not recovered through the write cap",
                        case=case, expected=sorted(reachable_rw), observed=sorted(recovered))
    ctx.case(("t", root.get_uri(), tuple(sorted(t.write_caps))) if t.write_caps else None, kind="tree:%d-dirs" % min(t.count, 6))
    ctx.count("nodes-reached-readonly", seen_nodes)
    if i < 2:
        ctx.sample({"dirs": t.count, "write_caps_below_root": len(t.write_caps), "nodes_reached_readonly": seen_nodes})
    # ---- model: walk one path through the read cap (and the same path through the write cap)
    if i < ctx.n(16, 300):
        path_model(ctx, i, r, t, root, root_ro, store, tbl, terms, info, case)


def same_client_case(ctx, i, root, real_dirs, case):
    """The node maker caches nodes; a node made from a write cap must never be handed out for the read cap."""
    from allmydata.interfaces import IDirectoryNode
    nm3, _ = D.make_nodemaker(ctx.rng("tree-same-client", i), store=_store_of(root))
    alive = []
    root_rw = nm3.create_from_cap(root.get_uri())
    stack = [(root_rw, [])]
    while stack:
        node, path = stack.pop()
        alive.append(node)
        if IDirectoryNode.providedBy(node) and node.get_readonly_uri() in real_dirs:
            for name, (child, md) in D.fire(node.list()).items():
                stack.append((child, path + [name]))
    n_rw = len([n for n in alive if n.get_write_uri()])
    # (a) the same tree through the root's read cap, on the same client
    root_ro = nm3.create_from_cap(root.get_readonly_uri())
    stack = [(root_ro, [])]
    reached = 0
    while stack:
        node, path = stack.pop()
        reached += 1
        obs = D.node_obs(node)
        if obs[1] is not None or (obs[0] != "unknown" and not node.is_readonly()):
            ctx.oracle_fail("descendant-of-readonly-root-is-writeable",
                            "same client, after the tree was walked through its write cap and all nodes are still alive: node at %r "
                            "reached from the read-only root has write authority (%r)" % (path, obs[1]),
                            case=dict(case, path=path, same_client=True), expected=None, observed=obs[1])
        if IDirectoryNode.providedBy(node) and node.get_readonly_uri() in real_dirs:
            for name, (child, md) in D.fire(node.list()).items():
                stack.append((child, path + [name]))
    # (b) a read cap opened directly, and the 'no-write' diminishing, while the writeable node is alive
    for node in alive:
        ro = node.get_readonly_uri()
        if not node.get_write_uri() or not ro or D.node_obs(node)[0] == "unknown":
            continue
        direct = nm3.create_from_cap(None, ro)
        dim = root_rw._create_readonly_node(node, "x")
        for what, n2 in (("create_from_cap(None, readcap)", direct), ("_create_readonly_node", dim)):
            if n2.get_write_uri() is not None or not n2.is_readonly():
                ctx.oracle_fail("readcap-opened-on-same-client-is-writeable",
                                "%s returns a writeable node while the node made from the write cap is alive" % what,
                                case=dict(case, readcap=ro, same_client=True), expected=None, observed=n2.get_write_uri())
    ctx.count("same-client-nodes-alive-with-write-cap", n_rw)
    ctx.count("same-client-nodes-reached-readonly", reached)


def _store_of(dn):
    return dn._nodemaker._verif_store


def path_model(ctx, i, r, t, root, root_ro, store, tbl, terms, info, case):
    from allmydata.interfaces import IDirectoryNode
    by_ro = {dn.get_readonly_uri(): (dn, kind, final) for (dn, kind, final) in t.dirs}
    path, node, on_path = [], root, [root]
    while IDirectoryNode.providedBy(node) and node.get_readonly_uri() in by_ro and len(path) < 4:
        final = {k: v for k, v in by_ro[node.get_readonly_uri()][2].items() if id(v[0]) not in t.lossy}
        if not final or (path and r.random() < 0.2):
            break
        name = r.choice(sorted(final))
        path.append(name)
        node = final[name][0]
        on_path.append(node)
    if not path:
        return
    got_ro = D.fire(root_ro.get_child_at_path(path))
    got_rw = D.fire(root.get_child_at_path(path))
    used = set()
    contents, wkof, aes_items = [], [], []
    seen_keys = set()
    for dnode in on_path[:-1]:
        dn, kind, final = by_ro[dnode.get_readonly_uri()]
        data = dir_plaintext(store, dn)
        ro_uri = dn.get_readonly_uri()
        used.add(ro_uri)
        contents.append("(%s, %s)" % (D.B(ro_uri), D.B(data)))
        w = dn.get_write_uri()
        if w:
            used.add(w)
            wk = dn._node.get_writekey()
            wkof.append("(%s, %s)" % (D.B(w), D.B(wk)))
            try:
                D.read_packed(data, wk)
            except AssertionError as e:
                ctx.oracle_fail("rwcap-field-is-not-salt-H(rwcap)-ciphertext-mac", "write-cap field of a packed entry: %s" % (e,),
                                case=dict(case, directory=ro_uri, entries=[[x[0], x[2][:16], x[3]] for x in D.read_packed(data, wk, strict=False)][:8]),
                                expected="salt = mutable_rwcap_salt_hash(rw_uri), then AES-CTR(H(salt, writekey), rw_uri), then HMAC",
                                observed=str(e))
            for (name, rof, rwc, rw, md) in D.read_packed(data, wk, strict=False):
                key = D.rwcap_key(rwc[:16], wk)
                if key not in seen_keys:
                    seen_keys.add(key)
                    aes_items.append("(%s, %s)" % (D.B(key), D.B(D.aes_ctr(key, b"\0" * len(rw or b"")))))
        for name, (n, md) in final.items():
            for x in (n.get_write_uri(), n.get_readonly_uri()):
                if x:
                    used.add(x)
    if sum(len(c) for c in contents) > 16000:
        return
    names = set(path)
    for dnode in on_path[:-1]:
        names.update(n for n in by_ro[dnode.get_readonly_uri()][2])
    lets = ("let cls := %s in let nrm := (fun x : bytes => x) in let aes := aes_tbl [%s] in "
            "let contents := tbl_fun [%s] in let wkof := tbl_wk [%s] in "
            % (tbl.coq(used), "; ".join(aes_items), "; ".join(contents), "; ".join(wkof)))
    pth = "[%s]" % "; ".join(D.B(p.encode("utf-8")) for p in path)
    t1 = lets + ("match walk cls nrm bytes loads_raw aes contents wkof %s %s with Some n => node_eqb n %s | None => false end"
                 % (D.coq_node(D.node_obs(root_ro)), pth, D.coq_node(D.node_obs(got_ro))))
    terms.append(t1)
    info.append(dict(case, path=path, via="read cap"))
    if len(path) <= 2 and i % 4 == 0:
        t2 = lets + ("match walk cls nrm bytes loads_raw aes contents wkof %s %s with Some n => node_eqb n %s | None => false end"
                     % (D.coq_node(D.node_obs(root)), pth, D.coq_node(D.node_obs(got_rw))))
        terms.append(t2)
        info.append(dict(case, path=path, via="write cap"))


def flat_case(ctx, i, terms, info):
    """One directory unpacked through a read-only DirectoryNode."""
    from allmydata import dirnode
    r = ctx.rng("flat", i)
    tbl = D.CapTable()
    nm, store = D.make_nodemaker(r)
    wk, fp = D.rb(r, 16), D.rb(r, 32)
    dn = D.dir_from_writekey(nm, wk, fp, mdmf=r.random() < 0.3)
    n_kids = r.choice([1, 2, 3, 4, 4, 8, 20, 40])
    kids = {}
    spec = []
    extra_secrets = []
    bare_secrets, multi_names = set(), set()
    for _ in range(n_kids):
        multi = False
        if r.random() < 0.08:
            w, ro, label, secret = D.gen_multi_prefixed_caps(r, tbl)
            n = nm.create_from_cap(w, ro)
            ctx.count("multi-prefixed-attach:" + ("refused" if getattr(n, "error", None) is not None else "accepted"))
            multi = getattr(n, "error", None) is None
            if multi:
                bare_secrets.add(secret)
        elif r.random() < 0.12:
            w, ro, label, secret = D.gen_contradictory_caps(r, tbl)
            n = nm.create_from_cap(w, ro)
            ctx.count("contradictory-attach:" + ("refused" if getattr(n, "error", None) is not None else "ACCEPTED"))
            if getattr(n, "error", None) is None:
                extra_secrets += secrets_of(secret)
        else:
            w, ro, label = D.gen_child_caps(r, tbl, allow_odd=False)
            n = nm.create_from_cap(w, ro)
        if getattr(n, "error", None) is not None:
            continue
        name = D.nfc(D.gen_name(r))
        md = D.gen_metadata(r)
        kids[name] = (n, md)
        multi_names.discard(name)
        if multi:
            multi_names.add(name)
        spec = [s for s in spec if s[0] != name] + [(name, w, ro, label, md)]
        ctx.count("child:" + label)
    packed = dirnode.pack_children(kids, wk)
    nm2, _ = D.make_nodemaker(ctx.rng("flat-reader", i), store={})
    dnro = nm2.create_from_cap(dn.get_readonly_uri())
    children = dnro._unpack_contents(packed)
    case = {"stream": "flat", "index": i, "kids": [[s[0], s[1], s[2], s[3]] for s in spec]}
    have_rw = [name for name, (n, md) in kids.items() if n.get_write_uri()]
    ctx.case(("f", tuple((s[0], s[1], s[2]) for s in spec)) if have_rw else None, kind="flat:%s" % ("<=4" if len(kids) <= 4 else ">4"))
    # a child attached as ro.ro.<write cap> is stored as ro.<write cap>, which a reader rejects and drops: tolerated
    if set(children) | multi_names != set(kids) or not set(children) <= set(kids):
        ctx.oracle_fail("readonly-listing-loses-children", "children differ when the directory is read through its read cap", case=case,
                        expected=sorted(kids), observed=sorted(children))
    secrets = list(extra_secrets)
    for name in have_rw:
        secrets += secrets_of(kids[name][0].get_write_uri())
    for name, (n, md) in children.items():
        obs = D.node_obs(n)
        if obs[1] is not None or (obs[0] != "unknown" and not n.is_readonly()):
            ctx.oracle_fail("child-of-readonly-dirnode-is-writeable", "child %r unpacked through a read-only dirnode has write authority" % (name,),
                            case=case, expected=None, observed=obs[1])
        if name in kids:
            o0 = D.node_obs(kids[name][0])
            if md != kids[name][1] or (o0[0] != "unknown" and (obs[0], obs[2]) != (o0[0], o0[2])):
                ctx.oracle_fail("readonly-listing-child-differs", "child %r changes kind, read cap or metadata when read through the read cap" % (name,),
                                case=case, expected=[o0, kids[name][1]], observed=[obs, md])
    store[dn._node.get_storage_index()] = packed
    bare_field_check(ctx, case, packed, bare_secrets)
    for name, (n, md) in children.items():
        if any(x in bare_secrets for x in (n.get_write_uri(), n.get_readonly_uri(), n.get_uri())):
            ctx.oracle_fail("bare-write-cap-handed-to-read-cap-holder", "child %r unpacked through the read cap carries the write cap attached behind ro.ro." % (name,),
                            case=case, expected=None, observed=[n.get_write_uri(), n.get_readonly_uri()])
    xor_attack(ctx, case, packed, {name.encode("utf-8"): kids[name][0].get_write_uri() for name in have_rw})
    view = reader_view(store, dnro)
    for sec in secrets:
        if any(sec in v for v in view):
            ctx.oracle_fail("write-cap-visible-to-read-cap-holder", "a child write cap occurs in the bytes a read-cap holder obtains", case=case,
                            expected="absent", observed=sec)
    if len(spec) <= 4 and i < ctx.n(36, 500):
        used = set()
        for s in spec:
            used.update(x for x in s[1:3] if x)
        exp = "[%s]" % "; ".join("(%s, (%s, %s))" % (D.B(name.encode("utf-8")), D.coq_node(D.node_obs(children[name][0])), D.B(dumps_md(children[name][1])))
                                for name in sorted(children, key=lambda s: s.encode("utf-8")))
        kidl = "[%s]" % "; ".join("create_from_cap cls false %s %s" % (T.opt(D.B(s[1]) if s[1] is not None else None),
                                                                       T.opt(D.B(s[2]) if s[2] is not None else None))
                                for s in spec if not s[3].startswith("multi-prefixed"))
        t = ("let cls := %s in forallb (fun n => stableb cls n && ro_slot_okb cls n) %s && "
             "match unpack_contents cls (fun x => x) bytes loads_raw (fun _ d => d) false true [] %s with inr ch => view_eqb (view bytes ch) %s | inl _ => false end"
             % (tbl.coq(used), kidl, D.B(packed), exp))
        terms.append(t)
        info.append(case)


def known_finding_witness(ctx):
    """Props/C18.v ro_unpack_has_no_rw_refuted, replayed on the implementation."""
    import random
    from allmydata import dirnode
    r = random.Random(18)
    tbl = D.CapTable()
    nm, store = D.make_nodemaker(r)
    wk, fp = D.rb(r, 16), D.rb(r, 32)
    dn = D.dir_from_writekey(nm, wk, fp)
    cw, cr = D.gen_mutable_pair(r, "SSK")
    child = dn._create_and_validate_node(b"future:w", cw.s, "x")      # what set_uri / set_children do with (rw, ro) from a caller
    packed = dirnode.pack_children({"x": (child, {})}, wk)
    nm2, _ = D.make_nodemaker(r, store={})
    dnro = nm2.create_from_cap(dn.get_readonly_uri())
    got = dnro._unpack_contents(packed)["x"][0]
    ctx.case(("witness", cw.s), kind="known-finding-witness")
    if got.get_write_uri() is not None:
        ctx.oracle_fail(KNOWN_KIND, "a child given as (rw = unknown cap, ro = known WRITE cap) is accepted, its write cap is stored in clear in the "
                        "read-cap field, and a read-only reader of the directory gets a writeable node for it",
                        case={"rw": b"future:w", "ro": cw.s}, expected=None, observed=got.get_write_uri())
    else:
        ctx.note("the recorded witness of the known finding no longer yields a write cap (repaired?): remove the known_findings entry and the precondition")


def run(ctx):
    ctx.correspondence("walk-model-vs-directorynode")
    ctx.correspondence("readonly-unpack-model-vs-dirnode")
    terms, info = [], []
    for i in range(ctx.n(120, 1200)):
        tree_case(ctx, i, terms, info)
    nwalk = len(terms)
    for i in range(ctx.n(150, 1500)):
        flat_case(ctx, i, terms, info)
    for i in range(ctx.n(36, 500)):
        owner_blacklist_case(ctx, i)
    for i in range(ctx.n(2, 12)):
        big_directory_case(ctx, i)
    known_finding_witness(ctx)
    bad = ctx.coq_check(IMPORTS, terms, preamble=PREAMBLE, tag="c18", shard=max(8, (len(terms) + 6) // 7))
    for ix in bad:
        if ix < nwalk:
            ctx.mismatch("model-vs-impl:walk", "Coq model of get_child_at_path over the grid and the implementation differ", case=info[ix],
                         correspondence="walk-model-vs-directorynode")
        else:
            ctx.mismatch("model-vs-impl:readonly-unpack", "Coq model of the read-only unpack (or of the child predicates) and dirnode.py differ",
                         case=info[ix], correspondence="readonly-unpack-model-vs-dirnode")
    ctx.trace(len(terms) - len(bad))
    ctx.note("%d paths / read-only listings compared with the Coq model" % len(terms))


def replay(ctx, rec):
    case = rec.get("case") or {}
    terms, info = [], []
    if case.get("stream") == "tree":
        tree_case(ctx, case["index"], terms, info)
    elif case.get("stream") == "flat":
        flat_case(ctx, case["index"], terms, info)
    elif case.get("stream") == "big":
        big_directory_case(ctx, case["index"])
    elif case.get("stream") == "owner-blacklist":
        owner_blacklist_case(ctx, case["index"])
    elif rec.get("kind") == KNOWN_KIND:
        known_finding_witness(ctx)
        return {"witness re-executed": True, "failures": len(ctx.failures)}
    else:
        return {"note": "record carries no generated case"}
    bad = ctx.coq_check(IMPORTS, terms, preamble=PREAMBLE, tag="c18replay")
    for ix in bad:
        ctx.mismatch("model-vs-impl", "model and implementation differ", case=info[ix])
    return {"re-executed": case.get("stream"), "index": case.get("index"), "failures": len(ctx.failures)}
