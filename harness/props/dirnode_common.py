"""Shared machinery of the directory properties C18, C19, C20.

* real NodeMaker / DirectoryNode / UnknownNode objects from /repo, with the
  storage grid replaced by an in-memory table (MemNodeMaker): the mutable file
  behind a directory is a real MutableFileNode whose download/modify touch a
  dict, so every line of dirnode.py, unknown.py and nodemaker.create_from_cap
  runs unmodified;
* cap strings of every kind built from raw key material WITHOUT uri.py (own
  base32, own hashlib derivations), together with the classification the Coq
  model's `classify` table needs;
* an independent reader of the packed directory format (own netstring parser,
  hashlib key derivation, AES-CTR from `cryptography` directly);
* rendering of names, nodes, metadata and operations as Coq terms for
  Model/Dirnode.v.
"""
import base64
import hashlib
import json
import unicodedata

from core import term as T

def B(b):
    """Bytes as a Coq term: (pb [chunks of 7 bytes as primitive integers] bytes-in-last-chunk), Model/DirnodeLit.v."""
    b = bytes(b)
    chunks = [b[i:i + 7] for i in range(0, len(b), 7)]
    return "(pb [%s] %d%%nat)" % ("; ".join("0x%s%%uint63" % c.hex() for c in chunks), len(chunks[-1]) if chunks else 0)


RO = b"ro."
IMM = b"imm."


# --------------------------------------------------------------------------
# independent primitives
# --------------------------------------------------------------------------
def b32(b):
    return base64.b32encode(b).rstrip(b"=").lower()


def ns(b):
    return b"%d:" % len(b) + b + b","


def _d(b):
    return hashlib.sha256(hashlib.sha256(b).digest()).digest()


def tagged(tag, val, n=None):
    r = _d(ns(tag) + val)
    return r[:n] if n else r


def tagged_pair(tag, a, b, n=None):
    r = _d(ns(tag) + ns(a) + ns(b))
    return r[:n] if n else r


def ssk_readkey(writekey):
    return tagged(b"allmydata_mutable_writekey_to_readkey_v1", writekey, 16)


def rwcap_salt(rw):
    return tagged(b"allmydata_dirnode_child_rwcap_to_salt_v1", rw, 16)


def rwcap_key(salt, writekey):
    return tagged_pair(b"allmydata_mutable_writekey_and_salt_to_dirnode_child_capkey_v1", salt, writekey, 16)


def hmac_sha256_tahoe(tag, data):
    ikey = bytes(c ^ 0x36 for c in tag)
    okey = bytes(c ^ 0x5c for c in tag)
    return hashlib.sha256(okey + hashlib.sha256(ikey + data).digest()).digest()


def aes_ctr(key, data):
    from cryptography.hazmat.backends import default_backend
    from cryptography.hazmat.primitives.ciphers import Cipher, algorithms, modes
    c = Cipher(algorithms.AES(key), modes.CTR(b"\0" * 16), backend=default_backend()).encryptor()
    return c.update(data) + c.finalize()


def parse_netstrings(data, count=None):
    """Strict netstring reader (canonical decimal lengths)."""
    out = []
    pos = 0
    while pos < len(data) and (count is None or len(out) < count):
        colon = data.index(b":", pos)
        num = data[pos:colon]
        if not num.isdigit() or (len(num) > 1 and num[:1] == b"0"):
            raise ValueError("non-canonical length %r" % num)
        n = int(num)
        s = data[colon + 1:colon + 1 + n]
        if len(s) != n or data[colon + 1 + n:colon + 2 + n] != b",":
            raise ValueError("bad netstring")
        out.append(s)
        pos = colon + 2 + n
    return out, pos


def read_packed(data, writekey=None, strict=True):
    """Independent reader of the directory format: list of
    (name_utf8, ro_field, rwcapdata, rw_plain or None, metadata_bytes).
    strict: assert the documented shape of the write-cap field (callers turn the AssertionError into an oracle failure)."""
    entries, pos = parse_netstrings(data)
    assert pos == len(data)
    out = []
    for e in entries:
        (name, ro, rwc, md), p = parse_netstrings(e, 4)
        assert p == len(e), "trailing bytes in entry"
        rw = None
        if writekey is not None and rwc:
            salt, ct, mac = rwc[:16], rwc[16:-32], rwc[-32:]
            key = rwcap_key(salt, writekey)
            rw = aes_ctr(key, ct)
            if strict:
                assert len(rwc) >= 48, "rwcapdata shorter than salt+mac"
                assert mac == hmac_sha256_tahoe(key, salt + ct), "rwcapdata MAC"
                assert salt == rwcap_salt(rw), "salt is not H(rwcap)"
        out.append((name, ro, rwc, rw, md))
    return out


def xor_bytes(a, b):
    n = min(len(a), len(b))
    return bytes(x ^ y for x, y in zip(a[:n], b[:n]))


def sibling_recovery(data, truth):
    """The attacker of C18: holds the directory plaintext `data` (what a read cap decrypts) and knows the write cap of
    ONE child; truth = {name_utf8: write cap} is used to pick that child and to recognise a success.  Returns a list of
    (known_name, victim_name, recovered_prefix, why) -- empty when every entry is encrypted under its own keystream."""
    out = []
    ents = [(name, rwc[:16], rwc[16:-32]) for (name, ro, rwc, _, md) in read_packed(data) if len(rwc) > 48 and name in truth]
    for (ni, salt_i, ct_i) in ents:
        rw_i = truth[ni]
        if len(rw_i) != len(ct_i):
            continue
        ks = xor_bytes(ct_i, rw_i)                 # keystream of entry i, from the one known write cap
        for (nj, salt_j, ct_j) in ents:
            rw_j = truth[nj]
            if nj == ni or rw_j == rw_i:
                continue
            cand = xor_bytes(ct_j, ks)
            if len(cand) >= 8 and cand == rw_j[:len(cand)]:
                out.append((ni, nj, cand, "XOR with the known sibling's keystream"))
            elif salt_i == salt_j:
                out.append((ni, nj, b"", "two different write caps stored under the same salt (same AES-CTR key and keystream)"))
    return out


# --------------------------------------------------------------------------
# caps of every kind, with the classification the model needs
# --------------------------------------------------------------------------
class Cap(object):
    """An unprefixed cap string with what from_string/create_from_cap should
    make of it.  cls in: write, read, imm, bad-w, bad-m, bad-n, futw, futm, other."""

    def __init__(self, s, cls, isdir=False, canon=None, ro=None, writekey=None, label=""):
        self.s = s
        self.cls = cls
        self.isdir = isdir
        self.canon = canon if canon is not None else s
        self.ro = ro
        self.writekey = writekey
        self.label = label or cls

    def coq_class(self):
        d = T.boolean(self.isdir)
        if self.cls == "write":
            return "KWrite %s %s %s" % (d, B(self.canon), B(self.ro))
        if self.cls == "read":
            return "KRead %s %s" % (d, B(self.canon))
        if self.cls == "imm":
            return "KImm %s %s" % (d, B(self.canon))
        return {"bad-w": "KBad GWrite", "bad-m": "KBad GMutable", "bad-n": "KBad GNone",
                "futw": "KFutureW", "futm": "KFutureM", "other": "KOther"}[self.cls]


def rb(r, n):
    return bytes(r.getrandbits(8) for _ in range(n))


def gen_mutable_pair(r, flavour):
    """(write Cap, read Cap) of one mutable object; flavour in SSK, MDMF, DIR2, DIR2-MDMF."""
    return mutable_pair_from_keys(rb(r, 16), rb(r, 32), flavour)


def mutable_pair_from_keys(wk, fp, flavour):
    rk = ssk_readkey(wk)
    wpre, rpre, isdir = {
        "SSK": (b"URI:SSK:", b"URI:SSK-RO:", False),
        "MDMF": (b"URI:MDMF:", b"URI:MDMF-RO:", False),
        "DIR2": (b"URI:DIR2:", b"URI:DIR2-RO:", True),
        "DIR2-MDMF": (b"URI:DIR2-MDMF:", b"URI:DIR2-MDMF-RO:", True),
    }[flavour]
    w = wpre + b32(wk) + b":" + b32(fp)
    ro = rpre + b32(rk) + b":" + b32(fp)
    cw = Cap(w, "write", isdir, w, ro, writekey=wk, label=flavour)
    cr = Cap(ro, "read", isdir, ro, label=flavour + "-RO")
    return cw, cr


def gen_imm(r, flavour):
    """flavour in CHK, LIT, DIR2-CHK, DIR2-LIT."""
    if flavour in ("CHK", "DIR2-CHK"):
        k = r.choice([1, 3, 3, 25])
        n = r.choice([x for x in (1, 10, 10, 100, 255) if x >= k])
        size = r.choice([56, 1000, 2 ** 32 + 5, r.getrandbits(20) + 56])
        body = b32(rb(r, 16)) + b":" + b32(rb(r, 32)) + b":%d:%d:%d" % (k, n, size)
        pre = b"URI:CHK:" if flavour == "CHK" else b"URI:DIR2-CHK:"
    else:
        body = b32(rb(r, r.choice([0, 1, 5, 20, 55])))
        pre = b"URI:LIT:" if flavour == "LIT" else b"URI:DIR2-LIT:"
    s = pre + body
    return Cap(s, "imm", flavour.startswith("DIR2"), s, label=flavour)


FUTURE_BODIES = [b"x-tahoe-crazy://I_am_from_the_future_rw.", b"lafs://from_the_future", b"x-tahoe-crazy-readonly://ro.",
                 b"URI:FUTURE:abc:def", b"future", b"f", b"URI:", b"\xe2\x98\x83cap", b"a b", b"9:x,"]
VERIFIER_PREFIXES = [b"URI:SSK-Verifier:", b"URI:MDMF-Verifier:", b"URI:DIR2-Verifier:", b"URI:DIR2-MDMF-Verifier:"]


def gen_other(r):
    if r.random() < 0.12:
        # verify caps parse, but no node class exists for them: UnknownNode without error
        return Cap(r.choice(VERIFIER_PREFIXES) + b32(rb(r, 16)) + b":" + b32(rb(r, 32)), "other", label="verify-cap")
    s = r.choice(FUTURE_BODIES)
    if r.random() < 0.5:
        s = s + b32(rb(r, r.choice([1, 4, 8])))
    return Cap(s, "other", label="future")


def unique_other(r):
    """An unknown cap that is not a substring of anything else in the case (used in write-cap slots)."""
    c = gen_other(r)
    return Cap(c.s + b"-" + b32(rb(r, 10)), "other", label=c.label)


def gen_bad(r):
    kind = r.choice(["bad-w", "bad-m", "bad-n"])
    pre = {"bad-w": [b"URI:SSK:", b"URI:MDMF:", b"URI:DIR2:", b"URI:DIR2-MDMF:"],
           "bad-m": [b"URI:SSK-RO:", b"URI:MDMF-RO:", b"URI:DIR2-RO:", b"URI:DIR2-MDMF-RO:"],
           "bad-n": [b"URI:CHK:", b"URI:LIT:", b"URI:DIR2-CHK:", b"URI:DIR2-LIT:"] + VERIFIER_PREFIXES}[kind]
    p = r.choice(pre)
    body = r.choice([b"bad", b"", b"!!", b32(rb(r, 3)) + b":x", b"1"])
    if p in (b"URI:LIT:", b"URI:DIR2-LIT:") and body in (b"", b"bad"):
        body = b"!!"          # "" and "bad" are valid base32 bodies of a LIT cap
    return Cap(p + body, kind, label="malformed-known")


def gen_fut(r):
    if r.random() < 0.5:
        return Cap(b"x-tahoe-future-test-writeable:" + b32(rb(r, 8)), "futw", label="future-test-writeable")
    return Cap(b"x-tahoe-future-test-mutable:" + b32(rb(r, 8)), "futm", label="future-test-mutable")


class CapTable(object):
    """All caps used in one case: gives the model its `classify` table."""

    def __init__(self):
        self.by_s = {}

    def add(self, cap):
        self.by_s.setdefault(cap.s, cap)
        return cap

    def add_pair(self, pair):
        for c in pair:
            self.add(c)
        return pair

    def coq(self, used=None):
        """The model's classify table; `used`: cap strings (possibly prefixed) that occur in the case --
        the table is then restricted to them, their canonical forms and their read caps."""
        caps = [c for c in self.by_s.values() if c.cls != "other"]
        if used is not None:
            want = set()
            for u in used:
                if not u:
                    continue
                want.add(u)
                body = u
                while body.startswith(IMM) or body.startswith(RO):      # every suffix left by removing alleged marks
                    body = body[len(IMM):] if body.startswith(IMM) else body[len(RO):]
                    want.add(body)
            grow = True
            while grow:
                grow = False
                for c in caps:
                    if c.s in want:
                        for x in (c.canon, c.ro):
                            if x is not None and x not in want:
                                want.add(x)
                                grow = True
            caps = [c for c in caps if c.s in want]
        items = ["(%s, %s)" % (B(c.s), c.coq_class()) for c in caps]
        return "(classify_tbl [%s])" % "; ".join(items)

    def classify(self, s):
        return self.by_s.get(s)


def gen_child_caps(r, tbl, allow_odd=True, known_writecap_in_ro_slot=False):
    """One (writecap, readcap) argument pair for create_from_cap, drawn over
    every cap kind.  Returns (w, r, label)."""
    roll = r.random()
    flav_m = r.choice(["SSK", "MDMF", "DIR2", "DIR2-MDMF"])
    flav_i = r.choice(["CHK", "LIT", "DIR2-CHK", "DIR2-LIT"])
    if roll < 0.16:
        cw, cr = tbl.add_pair(gen_mutable_pair(r, flav_m))
        return cw.s, r.choice([None, cr.s, cr.s]), "rw-" + flav_m
    if roll < 0.28:
        cw, cr = tbl.add_pair(gen_mutable_pair(r, flav_m))
        return None, cr.s, "ro-" + flav_m
    if roll < 0.42:
        c = tbl.add(gen_imm(r, flav_i))
        return r.choice([(None, c.s), (None, c.s), (c.s, None), (c.s, c.s)]) + ("imm-" + flav_i,)
    if roll < 0.50:
        # known caps behind alleged prefixes
        if r.random() < 0.5:
            c = tbl.add(gen_imm(r, flav_i))
            return None, r.choice([RO, IMM]) + c.s, "prefixed-imm"
        cw, cr = tbl.add_pair(gen_mutable_pair(r, flav_m))
        return None, r.choice([RO + cr.s, RO + cr.s, IMM + cr.s, RO + cw.s]), "prefixed-mutable"
    if roll < 0.66:
        c = tbl.add(gen_other(r))
        pre = r.choice([b"", b"", RO, IMM])
        return None, pre + c.s, "unknown-ro" + ("" if not pre else "-" + pre.decode().strip("."))
    if roll < 0.78:
        cw = tbl.add(unique_other(r))
        cr = tbl.add(gen_other(r))
        pre = r.choice([b"", b"", RO])
        return cw.s, pre + cr.s, "unknown-rw+ro"
    if roll < 0.81:
        c = tbl.add(gen_other(r))
        pre = r.choice([b"", RO, IMM])
        return pre + c.s, None, "unknown-single-rw-slot"
    if roll < 0.84:
        # unknown write cap next to a KNOWN cap in the read-cap slot
        cw = tbl.add(unique_other(r))
        if r.random() < 0.6:
            ci = tbl.add(gen_imm(r, flav_i))
            return cw.s, r.choice([ci.s, RO + ci.s]), "unknown-rw+known-imm-ro"
        kw, kr = tbl.add_pair(gen_mutable_pair(r, flav_m))
        if known_writecap_in_ro_slot and r.random() < 0.5:
            return cw.s, kw.s, "unknown-rw+known-WRITECAP-in-ro-slot"
        return cw.s, r.choice([kr.s, RO + kr.s]), "unknown-rw+known-readcap-ro"
    if roll < 0.90:
        c = tbl.add(gen_fut(r))
        c2 = tbl.add(gen_fut(r))
        pre = r.choice([b"", RO, IMM])
        return r.choice([(None, pre + c.s), (c.s, pre + c2.s), (c.s, None)]) + ("future-test",)
    if roll < 0.94 and allow_odd:
        c = tbl.add(gen_bad(r))
        o = tbl.add(gen_other(r))
        return r.choice([(None, c.s), (c.s, None), (c.s, o.s), (o.s, c.s), (None, RO + c.s)]) + ("malformed-known",)
    if roll < 0.97:
        return r.choice([(None, None), (b"", b""), (b"", None)]) + ("empty",)
    # MDMF with extension hints: accepted, printed without them (non-canonical input)
    cw, cr = gen_mutable_pair(r, "MDMF")
    ext = b":3:131073"
    tbl.add(cw)
    tbl.add(cr)
    tbl.add(Cap(cw.s + ext, "write", False, cw.s, cr.s, writekey=cw.writekey, label="MDMF+hints"))
    tbl.add(Cap(cr.s + ext, "read", False, cr.s, label="MDMF-RO+hints"))
    return r.choice([(cw.s + ext, None), (None, cr.s + ext)]) + ("mdmf-hints",)


def gen_contradictory_caps(r, tbl):
    """A child whose read-cap part carries an alleged ro./imm. prefix in front of a WRITE-capable cap (known write cap
    or the future-test writeable cap), given as an (rw, ro) pair or as a single cap in either slot.  The node maker must
    refuse it (error node) or at least never let the write cap reach a reader.  Returns (w, ro, label, write_cap)."""
    if r.random() < 0.65:
        cw, cr = tbl.add_pair(gen_mutable_pair(r, r.choice(["SSK", "MDMF", "DIR2", "DIR2-MDMF"])))
        secret = cw.s
    else:
        c = tbl.add(Cap(b"x-tahoe-future-test-writeable:" + b32(rb(r, 10)), "futw", label="future-test-writeable"))
        secret = c.s
    pre = r.choice([RO, RO, IMM])
    shape = r.choice(["pair-unknown-rw", "pair-unknown-rw", "single-in-rw-slot", "single-in-ro-slot", "pair-same"])
    if shape == "pair-unknown-rw":
        w, ro = tbl.add(unique_other(r)).s, pre + secret
    elif shape == "single-in-rw-slot":
        w, ro = pre + secret, None
    elif shape == "single-in-ro-slot":
        w, ro = None, pre + secret
    else:
        w, ro = pre + secret, pre + secret
    return w, ro, "contradictory:%s:%s" % (pre.decode().strip("."), shape), secret


def gen_multi_prefixed_caps(r, tbl):
    """A WRITE-capable cap wrapped in the alleged-read-only mark more than once (ro.ro.X, ro.ro.ro.X), in either slot.  uri.from_string removes one mark and sees an unknown cap, so the node maker accepts it;
    the packer removes one mark, and the reader of the directory must NOT end up with the bare write cap.
    Returns (w, ro, label, bare_write_cap)."""
    if r.random() < 0.75:
        cw, cr = tbl.add_pair(gen_mutable_pair(r, r.choice(["SSK", "MDMF", "DIR2", "DIR2-MDMF"])))
        secret = cw.s
    else:
        secret = tbl.add(Cap(b"x-tahoe-future-test-writeable:" + b32(rb(r, 10)), "futw", label="future-test-writeable")).s
    wrapped = RO * r.choice([2, 2, 3]) + secret
    shape = r.choice(["ro-slot", "ro-slot", "rw-slot"])
    if shape == "ro-slot":
        w, ro = None, wrapped
    else:
        w, ro = wrapped, None
    return w, ro, "multi-prefixed:" + shape, secret


def gen_edge_whitespace_caps(r, tbl):
    """Unknown-format caps with CR, LF, CRLF or TAB at either edge (and inside): every byte must survive a directory.
    (A trailing SPACE is the one thing _unpack_contents is documented to strip; not generated here.)
    Returns (w, ro, label)."""
    def body():
        c = gen_other(r)
        while c.label == "verify-cap":
            c = gen_other(r)
        core = c.s + b"-" + b32(rb(r, 6))
        if r.random() < 0.3:
            core = core[:3] + r.choice([b"\n", b"\r\n", b"\t"]) + core[3:]
        lead, trail = r.choice([b"", b"\n", b"\r", b"\r\n", b"\t"]), r.choice([b"", b"\n", b"\r", b"\r\n", b"\t", b"\n\n"])
        if not lead and not trail:
            trail = b"\n"
        return lead + core + trail
    shape = r.choice(["ro-slot", "ro-slot", "rw+ro", "rw-slot-prefixed"])
    if shape == "ro-slot":
        return None, r.choice([b"", RO, IMM]) + body(), "edge-ws:ro-slot"
    if shape == "rw+ro":
        return body(), r.choice([b"", RO]) + body(), "edge-ws:rw+ro"
    return r.choice([RO, IMM]) + body(), None, "edge-ws:rw-slot-prefixed"


def expected_edge_caps(w, ro, immutable_dir=False):
    """What an UnknownNode made from the caps of gen_edge_whitespace_caps must report (own reading of unknown.py):
    mutable context -> (rw, ro with an ro. mark unless already marked); after an immutable directory -> (None, imm.+body)."""
    if ro is None:
        w, ro = None, w                      # a single marked cap in the write slot is the read cap
    if immutable_dir:
        body = ro[len(IMM):] if ro.startswith(IMM) else (ro[len(RO):] if ro.startswith(RO) else ro)
        return None, IMM + body
    return w, (ro if ro.startswith(RO) or ro.startswith(IMM) else RO + ro)


def gen_outside_caps(r, tbl):
    """Caps outside the round-trip well-formedness: trailing spaces, nested or bare alleged prefixes."""
    c = gen_other(r)
    while c.label == "verify-cap":        # a verify cap followed by a space is a malformed known cap, not an unknown one
        c = gen_other(r)
    tbl.add(c)
    kind = r.choice(["trailing-space", "nested-prefix", "bare-prefix", "space-only"])
    if kind == "trailing-space":
        return r.choice([(None, c.s + b" "), (None, RO + c.s + b"  "), (c.s + b" ", c.s)]) + ("outside:trailing-space",)
    if kind == "nested-prefix":
        return None, r.choice([RO + RO, RO + IMM, IMM + RO]) + c.s, "outside:nested-prefix"
    if kind == "bare-prefix":
        return None, r.choice([RO, IMM]), "outside:bare-prefix"
    return r.choice([(None, b" "), (b"  ", None)]) + ("outside:space-only",)


def strip_prefix_expected(ro, deep_immutable):
    """Own reading of unknown.strip_prefix_for_ro."""
    if ro.startswith(IMM):
        return ro[len(IMM):] if deep_immutable else ro
    if ro.startswith(RO):
        return ro[len(RO):]
    return ro


# --------------------------------------------------------------------------
# names and metadata
# --------------------------------------------------------------------------
NFC_CHANGING = ["é", "Å", "Å", "ọ̈", "ẛ̣", "Ω", "豈", "ñ",
                "क़", "̈́", "가", "q̣̇", "Ą́"]
PLAIN = ["a", "b", "file", "dir", "A", "z", "0", " ", "a b", "a/b", "é", "Å", "Ω", "中文", "\U0001f600",
         "", ".", "..", "x" * 40, "ñ", "con:,", "7:abcdefg,", "\x00", "a\x00", "nul\x00\x00", ",", ":", "3:abc", "\n", "tab\t "]


def gen_name(r):
    roll = r.random()
    if roll < 0.35:
        return r.choice(PLAIN)
    if roll < 0.7:
        return r.choice(NFC_CHANGING) + r.choice(["", "", "x", "1"])
    if roll < 0.8:
        # the NFC form of a changing name: collides with it after normalisation
        return unicodedata.normalize("NFC", r.choice(NFC_CHANGING))
    return "".join(r.choice(PLAIN + NFC_CHANGING) for _ in range(r.randrange(1, 4)))


def nfc(s):
    return unicodedata.normalize("NFC", s)


def gen_json(r, depth=0, ascii_only=False):
    roll = r.random()
    if depth >= 3 or roll < 0.45:
        return r.choice([None, True, False, 0, 1, -7, 2 ** 40, "", "s", "no", "é中" if not ascii_only else "e", 12345,
                         1.5 if not ascii_only else 15, "a\"b\\c\n" if not ascii_only else "abc"])
    if roll < 0.7:
        return [gen_json(r, depth + 1, ascii_only) for _ in range(r.randrange(0, 4))]
    return {r.choice(["k", "a", "b", "ctime", "mtime", "x y", "ü" if not ascii_only else "u", "tahoe", ""]): gen_json(r, depth + 1, ascii_only)
            for _ in range(r.randrange(0, 4))}


def gen_metadata(r, ascii_only=False, allow_tahoe=True):
    """A metadata dict as a caller may pass it."""
    md = {}
    for _ in range(r.choice([0, 0, 1, 2, 3])):
        k = r.choice(["ctime", "mtime", "k", "a", "nested", "no-write", "x y", "ü" if not ascii_only else "u"])
        if k == "no-write":
            md[k] = r.choice([True, False, 0, 1, "", "yes", None])
        elif k in ("ctime", "mtime"):
            md[k] = r.choice([5, 1000, 1246663897, 0])
        else:
            md[k] = gen_json(r, 1, ascii_only)
    if allow_tahoe and r.random() < 0.25:
        md["tahoe"] = r.choice([{"linkcrtime": 3, "linkmotime": 4}, {"linkmotime": 9}, {}, {"linkcrtime": 77, "other": [1]}, 5, "junk", None])
    return md


def jval(x, sort=False):
    """Python JSON value -> Coq jval term (ints only; floats are not rendered)."""
    if x is None:
        return "JNull"
    if x is True:
        return "(JBool true)"
    if x is False:
        return "(JBool false)"
    if isinstance(x, int):
        return "(JNum %s)" % T.Z(x)
    if isinstance(x, str):
        return "(JStr %s)" % B(x.encode("utf-8"))
    if isinstance(x, (list, tuple)):
        return "(JArr [%s])" % "; ".join(jval(v, sort) for v in x)
    if isinstance(x, dict):
        return "(JObj %s)" % jobj(x, sort)
    raise TypeError("not renderable as jval: %r" % (x,))


def jobj(d, sort=False):
    items = list(d.items())
    if sort:
        items.sort(key=lambda kv: kv[0].encode("utf-8"))
    return "[%s]" % "; ".join("(%s, %s)" % (B(k.encode("utf-8")), jval(v, sort)) for k, v in items)


def has_float(x):
    if isinstance(x, float):
        return True
    if isinstance(x, dict):
        return any(has_float(v) for v in x.values())
    if isinstance(x, (list, tuple)):
        return any(has_float(v) for v in x)
    return False


def canon_json(x):
    return json.dumps(x, sort_keys=True)


# --------------------------------------------------------------------------
# nodes
# --------------------------------------------------------------------------
ERRS = {"BadURIError": "EBadURI", "MustBeDeepImmutableError": "EMustBeDeepImmutable",
        "MustBeReadonlyError": "EMustBeReadonly", "MustNotBeUnknownRWError": "EMustNotBeUnknownRW"}


def node_obs(n):
    """Canonical observables of a node, as dirnode.py sees them."""
    from allmydata.interfaces import IDirectoryNode, IFileNode
    from allmydata.unknown import UnknownNode
    if isinstance(n, UnknownNode):
        kind = "unknown"
        mut = False
        err = type(n.error).__name__ if n.error is not None else None
    else:
        kind = "dir" if IDirectoryNode.providedBy(n) else ("file" if IFileNode.providedBy(n) else "other")
        mut = bool(n.is_mutable())
        err = None
    return (kind, n.get_write_uri(), n.get_readonly_uri(), mut, err)


def coq_node(obs):
    kind, rw, ro, mut, err = obs
    return "{| n_kind := %s; n_rw := %s; n_ro := %s; n_mut := %s; n_err := %s |}" % (
        {"file": "NFile", "dir": "NDir", "unknown": "NUnknown"}[kind],
        T.opt(B(rw) if rw is not None else None), T.opt(B(ro) if ro is not None else None),
        T.boolean(mut), T.opt(ERRS[err] if err else None))


def coq_cfc(cls_name, deep_imm, w, r):
    return "(create_from_cap %s %s %s %s)" % (cls_name, T.boolean(deep_imm),
                                             T.opt(B(w) if w is not None else None),
                                             T.opt(B(r) if r is not None else None))


def expected_allowed_in_immutable(obs):
    kind, rw, ro, mut, err = obs
    if kind == "unknown":
        return err is None and not rw
    return not mut


# --------------------------------------------------------------------------
# the in-memory grid
# --------------------------------------------------------------------------
def make_nodemaker(seed_rng, store=None, blacklist=None):
    """A real NodeMaker whose mutable/immutable file nodes keep their contents
    in a dict (storage index -> bytes).  Returns (nodemaker, store).  Passing an
    existing store gives a second, independent client of the same grid."""
    from twisted.internet import defer
    from allmydata import uri
    from allmydata.immutable.filenode import ImmutableFileNode
    from allmydata.mutable.filenode import MutableFileNode
    from allmydata.mutable.publish import MutableData
    from allmydata.interfaces import IMutableUploadable
    from allmydata.nodemaker import NodeMaker

    if store is None:
        store = {}

    class MemMutableFileNode(MutableFileNode):
        def download_best_version(self, progress=None):
            return defer.succeed(store[self.get_storage_index()])

        def get_size_of_best_version(self):
            return defer.succeed(len(store[self.get_storage_index()]))

        def get_size(self):
            return len(store.get(self.get_storage_index(), b""))

        def modify(self, modifier, backoffer=None):
            # MutableFileVersion.modify: obtain, apply modifier(old, servermap, first_time), publish if changed
            assert not self.is_readonly()
            try:
                old = store[self.get_storage_index()]
                new = modifier(old, None, True)
                if new is not None and new != old:
                    assert isinstance(new, bytes)
                    store[self.get_storage_index()] = new
            except Exception:
                return defer.fail()
            return defer.succeed(None)

        def overwrite(self, new_contents):
            store[self.get_storage_index()] = b"".join(new_contents.read(new_contents.get_size()))
            return defer.succeed(None)

    class MemImmutableFileNode(ImmutableFileNode):
        def read(self, consumer, offset=0, size=None):
            data = store[self.get_storage_index()]
            consumer.write(data[offset:] if size is None else data[offset:offset + size])
            return defer.succeed(consumer)

        def get_size(self):
            return self.u.get_size()

    class Results(object):
        def __init__(self, u):
            self.u = u

        def get_uri(self):
            return self.u

    class MemUploader(object):
        """hold=True: uploads stay in flight (their Deferreds do not fire) until release()."""
        hold = False

        def __init__(self):
            self.pending = []
            self.last_uri = None

        def release(self):
            pending, self.pending = self.pending, []
            for d, res in pending:
                d.callback(res)

        def upload(self, uploadable, reactor=None):
            data = uploadable._data if hasattr(uploadable, "_data") else None
            if data is None:
                f = uploadable._filehandle
                f.seek(0)
                data = f.read()
            if len(data) <= 55:
                u = uri.LiteralFileURI(data)
            else:
                key = tagged(b"verif-mem-uploader-key", data, 16)
                u = uri.CHKFileURI(key, tagged(b"verif-mem-uploader-ueb", data), 3, 10, len(data))
                store[u.get_storage_index()] = data
            self.last_uri = u.to_string()
            if self.hold:
                d = defer.Deferred()
                self.pending.append((d, Results(u.to_string())))
                return d
            return defer.succeed(Results(u.to_string()))

    class Secrets(object):
        def get_convergence_secret(self):
            return b"c" * 32

    class MemNodeMaker(NodeMaker):
        def _create_mutable(self, cap):
            n = MemMutableFileNode(self.storage_broker, self.secret_holder, self.default_encoding_parameters, self.history)
            return n.init_from_cap(cap)

        def _create_immutable(self, cap):
            return MemImmutableFileNode(cap, self.storage_broker, self.secret_holder, self.terminator, self.history)

        def create_mutable_file(self, contents=None, version=None, keypair=None):
            from allmydata.interfaces import MDMF_VERSION
            wk, fp = rb(seed_rng, 16), rb(seed_rng, 32)
            cap = (uri.WriteableMDMFFileURI if version == MDMF_VERSION else uri.WriteableSSKFileURI)(wk, fp)
            n = self._create_mutable(cap)
            if contents is None:
                data = b""
            elif IMutableUploadable.providedBy(contents):
                data = b"".join(contents.read(contents.get_size()))
            else:
                c = contents(n)
                data = b"".join(c.read(c.get_size())) if IMutableUploadable.providedBy(c) else c
            store[n.get_storage_index()] = data
            return defer.succeed(n)

    nm = MemNodeMaker(None, Secrets(), None, MemUploader(), None, {"k": 3, "n": 10, "max_segment_size": 131072}, None, None,
                      blacklist=blacklist)
    nm._verif_store = store
    return nm, store


def fire(d):
    """Result of an already-fired Deferred, or raise its failure."""
    out = []
    d.addBoth(out.append)
    assert out, "Deferred did not fire synchronously"
    from twisted.python.failure import Failure
    if isinstance(out[0], Failure):
        out[0].raiseException()
    return out[0]


def outcome(d):
    """('ok', value) or ('err', ExceptionClassName) of a fired Deferred."""
    try:
        return ("ok", fire(d))
    except Exception as e:  # noqa
        return ("err", type(e).__name__)


def dir_from_writekey(nm, wk, fp, mdmf=False):
    """An empty mutable directory with the given key material, opened read-write."""
    from allmydata import uri
    u = (uri.MDMFDirectoryURI(uri.WriteableMDMFFileURI(wk, fp)) if mdmf else uri.DirectoryURI(uri.WriteableSSKFileURI(wk, fp)))
    dn = nm.create_from_cap(u.to_string())
    return dn


class StepClock(object):
    """Stands in for the `time` module inside allmydata.dirnode."""

    def __init__(self):
        self.now = 1000

    def time(self):
        return self.now


DERR = {"ExistingChildError": "EExists", "NoSuchChildError": "ENoSuchChild", "ChildOfWrongTypeError": "EWrongType",
        "NotWriteableError": "ENotWriteable", "MustBeDeepImmutableError": "EDeepImmutable"}


def coq_derr(name, from_node=False):
    if name in ERRS and (from_node or name != "MustBeDeepImmutableError"):
        return "(ECap %s)" % ERRS[name]
    return DERR.get(name, "EMalformed")
