"""C17  Key and secret derivations match the specification."""
import hashlib

from core import env
from core import term as T

ID = "C17"
GEN = ["hashutil"]
RULE = ("cases: (derivation, inputs) with inputs drawn from the seeded PRNG at the documented lengths and at odd "
        "lengths (0, 1, 15..33, 55, 56, 64, 119, 120 bytes: SHA-256 padding boundaries); distinct = distinct "
        "(derivation, inputs); all are non-trivial (every case reaches a digest)")
META = {
    "title": "Key and secret derivations match the specification",
    "level_text": ("Theorems in Coq: each derivation function of hashutil.py, translated to Gallina on every run, equals the "
                   "hand-written specification (tagged SHA-256d over netstrings) for ALL inputs; tags are pairwise distinct; "
                   "composed lease/mutable chains equal the specified chains.  The executable spec (with a Coq SHA-256) is "
                   "run against the real functions and call sites, and against an independent hashlib oracle."),
    "level_note": ("Trusted: the ast->Gallina translator for hashutil.py (fail-closed), the AST pins of _SHA256d_Hasher/hmac/_xor "
                   "(hand-modelled), the Coq SHA-256/SHA-1 programs (validated against hashlib on every run, not proved), "
                   "Model/HashSpec.v as a reading of docs/specifications.  No cryptographic property is claimed."),
    "technique": "Coq proof (impl = spec by computation, all inputs) over a model regenerated from source + differential run vs implementation",
    "design_ref": "8/C17",
    "trusted_base": ["translator harness/translate/hashutil.py", "Lib/SHA256.v validated against hashlib"],
    "assumptions": ["Model/HashSpec.v transcribes docs/specifications/{file-encoding,lease,mutable,dirnodes}.rst faithfully"],
}

IMPORTS = ["Lib.Hex", "Lib.SHA256", "Model.HashSpec"]


# ---- independent oracle: hashlib only --------------------------------------
def _ns(b):
    return b"%d:" % len(b) + b + b","


def _d(b):
    return hashlib.sha256(hashlib.sha256(b).digest()).digest()


def _tag(tag, val, n=None):
    r = _d(_ns(tag) + val)
    return r[:n] if n else r


def _pair(tag, a, b, n=None):
    r = _d(_ns(tag) + _ns(a) + _ns(b))
    return r[:n] if n else r


def derivations():
    """name -> (arity spec, oracle, implementation callable, Coq spec name)."""
    from allmydata.util import hashutil as H
    B = "b"   # bytes arg
    return {
        "storage_index_hash": ([B], lambda k: _tag(b"allmydata_immutable_key_to_storage_index_v1", k, 16), H.storage_index_hash, "spec_storage_index"),
        "block_hash": ([B], lambda d: _tag(b"allmydata_encoded_subshare_v1", d), H.block_hash, "spec_block_hash"),
        "uri_extension_hash": ([B], lambda d: _tag(b"allmydata_uri_extension_v1", d), H.uri_extension_hash, "spec_uri_extension_hash"),
        "plaintext_hash": ([B], lambda d: _tag(b"allmydata_plaintext_v1", d), H.plaintext_hash, "spec_plaintext_hash"),
        "crypttext_hash": ([B], lambda d: _tag(b"allmydata_crypttext_v1", d), H.crypttext_hash, "spec_crypttext_hash"),
        "crypttext_segment_hash": ([B], lambda d: _tag(b"allmydata_crypttext_segment_v1", d), H.crypttext_segment_hash, "spec_crypttext_segment_hash"),
        "plaintext_segment_hash": ([B], lambda d: _tag(b"allmydata_plaintext_segment_v1", d), H.plaintext_segment_hash, "spec_plaintext_segment_hash"),
        "my_renewal_secret_hash": ([B], lambda s: _tag(s, b"allmydata_client_renewal_secret_v1"), H.my_renewal_secret_hash, "spec_client_renewal_secret"),
        "my_cancel_secret_hash": ([B], lambda s: _tag(s, b"allmydata_client_cancel_secret_v1"), H.my_cancel_secret_hash, "spec_client_cancel_secret"),
        "file_renewal_secret_hash": ([B, B], lambda a, b: _pair(b"allmydata_file_renewal_secret_v1", a, b), H.file_renewal_secret_hash, "spec_file_renewal_secret"),
        "file_cancel_secret_hash": ([B, B], lambda a, b: _pair(b"allmydata_file_cancel_secret_v1", a, b), H.file_cancel_secret_hash, "spec_file_cancel_secret"),
        "bucket_renewal_secret_hash": ([B, "peer"], lambda a, b: _pair(b"allmydata_bucket_renewal_secret_v1", a, b), H.bucket_renewal_secret_hash, "spec_bucket_renewal_secret"),
        "bucket_cancel_secret_hash": ([B, "peer"], lambda a, b: _pair(b"allmydata_bucket_cancel_secret_v1", a, b), H.bucket_cancel_secret_hash, "spec_bucket_cancel_secret"),
        "mutable_rwcap_key_hash": ([B, B], lambda iv, wk: _pair(b"allmydata_mutable_writekey_and_salt_to_dirnode_child_capkey_v1", iv, wk, 16), H.mutable_rwcap_key_hash, "spec_dirnode_child_key"),
        "mutable_rwcap_salt_hash": ([B], lambda w: _tag(b"allmydata_dirnode_child_rwcap_to_salt_v1", w, 16), H.mutable_rwcap_salt_hash, "spec_dirnode_child_salt"),
        "ssk_writekey_hash": ([B], lambda p: _tag(b"allmydata_mutable_privkey_to_writekey_v1", p, 16), H.ssk_writekey_hash, "spec_writekey"),
        "ssk_write_enabler_master_hash": ([B], lambda w: _tag(b"allmydata_mutable_writekey_to_write_enabler_master_v1", w), H.ssk_write_enabler_master_hash, "spec_write_enabler_master"),
        "ssk_write_enabler_hash": ([B, "peer"], lambda w, p: _pair(b"allmydata_mutable_write_enabler_master_and_nodeid_to_write_enabler_v1", _tag(b"allmydata_mutable_writekey_to_write_enabler_master_v1", w), p), H.ssk_write_enabler_hash, "spec_write_enabler"),
        "ssk_pubkey_fingerprint_hash": ([B], lambda p: _tag(b"allmydata_mutable_pubkey_to_fingerprint_v1", p), H.ssk_pubkey_fingerprint_hash, "spec_fingerprint"),
        "ssk_readkey_hash": ([B], lambda w: _tag(b"allmydata_mutable_writekey_to_readkey_v1", w, 16), H.ssk_readkey_hash, "spec_readkey"),
        "ssk_readkey_data_hash": ([B, B], lambda iv, rk: _pair(b"allmydata_mutable_readkey_to_datakey_v1", iv, rk, 16), H.ssk_readkey_data_hash, "spec_datakey"),
        "ssk_storage_index_hash": ([B], lambda r: _tag(b"allmydata_mutable_readkey_to_storage_index_v1", r, 16), H.ssk_storage_index_hash, "spec_mutable_storage_index"),
        "backupdb_dirhash": ([B], lambda c: _tag(b"allmydata_backupdb_dirhash_v1", c), H.backupdb_dirhash, "spec_backupdb_dirhash"),
        "permute_server_hash": ([B, B], lambda a, b: hashlib.sha1(a + b).digest(), H.permute_server_hash, "spec_permuted_position"),
    }


LENS = [0, 1, 15, 16, 17, 20, 31, 32, 33, 55, 56, 64, 119, 120]


def rbytes(r, n=None):
    if n is None:
        n = r.choice(LENS + [16, 16, 32, 32, 20])
    return bytes(r.getrandbits(8) for _ in range(n))


def run(ctx):
    from allmydata.util import hashutil as H
    ctx.correspondence("hashutil-functions-vs-spec-model")
    ctx.correspondence("call-sites-vs-spec-chains")
    ds = derivations()
    names = sorted(ds)
    terms = []
    info = []
    n = ctx.n(240, 2400)
    for i in range(n):
        r = ctx.rng("fn", i)
        name = names[i % len(names)]
        arity, oracle, impl, spec = ds[name]
        args = [rbytes(r, 20) if a == "peer" else rbytes(r) for a in arity]
        got = impl(*args)
        want = oracle(*args)
        ctx.case((name, tuple(args)), kind=name)
        if got != want:
            ctx.oracle_fail("derivation-differs-from-spec:" + name,
                            "%s%r = %s but the specification gives %s" % (name, tuple(a.hex() for a in args), got.hex(), want.hex()),
                            case={"fn": name, "args": [a.hex() for a in args]}, expected=want.hex(), observed=got.hex())
        terms.append("list_N_eqb (%s %s) %s" % (spec, " ".join(T.bytes_(a) for a in args), T.bytes_(got)))
        info.append((name, args, got))
        if i < 3:
            ctx.sample({"fn": name, "args": [a.hex() for a in args], "digest": got.hex()})

    # convergent key: parameters, chunked hasher use
    nconv = ctx.n(60, 600)
    for i in range(nconv):
        r = ctx.rng("conv", i)
        k = r.choice([1, 1, 2, 3, 3, 16, 100, 255, 256])
        nn = r.choice([x for x in [1, 2, 3, 10, 16, 100, 255, 256] if x >= k])
        seg = r.choice([1, 3, 100, 1024, 128 * 1024, 131073, 2 ** 32, 2 ** 40 + 7, r.getrandbits(48)])
        secret = rbytes(r, r.choice([0, 1, 16, 32, 32, 32]))
        data = rbytes(r, r.choice([0, 1, 55, 56, 57, 200]))
        got = H.convergence_hash(k, nn, seg, data, secret)
        tag = b"allmydata_immutable_content_to_key_with_added_secret_v1+" + _ns(secret) + _ns(b"%d,%d,%d" % (k, nn, seg))
        want = _tag(tag, data, 16)
        ctx.case(("conv", k, nn, seg, secret, data), kind="convergence_hash")
        if got != want:
            ctx.oracle_fail("derivation-differs-from-spec:convergence_hash",
                            "convergence_hash(k=%d,n=%d,segsize=%d) = %s, specification gives %s" % (k, nn, seg, got.hex(), want.hex()),
                            case={"k": k, "n": nn, "segsize": seg, "secret": secret.hex(), "data": data.hex()},
                            expected=want.hex(), observed=got.hex())
        # hasher fed in two chunks must agree too
        h = H.convergence_hasher(k, nn, seg, secret)
        cut = r.randrange(len(data) + 1)
        h.update(data[:cut])
        h.update(data[cut:])
        if h.digest() != want:
            ctx.oracle_fail("derivation-differs-from-spec:convergence_hasher",
                            "convergence_hasher fed in two chunks gives %s, specification %s" % (h.digest().hex(), want.hex()),
                            case={"k": k, "n": nn, "segsize": seg, "cut": cut}, expected=want.hex(), observed=h.digest().hex())
        terms.append("list_N_eqb (spec_convergence_key %s %s %s %s %s) %s" % (T.N(k), T.N(nn), T.N(seg), T.bytes_(data), T.bytes_(secret), T.bytes_(got)))
        info.append(("convergence_hash", (k, nn, seg, data, secret), got))
    # parameter guard
    for (k, nn) in [(0, 1), (1, 0), (2, 1), (257, 257), (1, 257), (1, 1), (256, 256), (3, 10)]:
        try:
            H._convergence_hasher_tag(k, nn, 1024, b"s")
            ok = True
        except ValueError:
            ok = False
        want = (1 <= k <= nn <= 256)
        ctx.case(("guard", k, nn), kind="convergence_guard")
        if ok != want:
            ctx.oracle_fail("convergence-parameter-guard", "_convergence_hasher_tag(k=%d,n=%d) accepted=%s, specified=%s" % (k, nn, ok, want),
                            case={"k": k, "n": nn}, expected=want, observed=ok)
        terms.append("Bool.eqb (spec_convergence_params_ok %s %s) %s" % (T.N(k), T.N(nn), T.boolean(ok)))
        info.append(("guard", (k, nn), ok))

    # large inputs and streaming use (direct oracle only: the Coq SHA-256 is not run on 1 MB): every data-hashing
    # function and its hasher object, at sizes around the powers of two where a chunked implementation would cut
    BIG = [65535, 65536, 65537, 131072, 131073, 262143, 262144, 262145, 300000, 393217, 524287, 524288, 524289,
           786433, 900000, 1048576, 1048593]
    big_fns = [("block_hash", b"allmydata_encoded_subshare_v1", H.block_hash, H.block_hasher),
               ("uri_extension_hash", b"allmydata_uri_extension_v1", H.uri_extension_hash, H.uri_extension_hasher),
               ("plaintext_hash", b"allmydata_plaintext_v1", H.plaintext_hash, H.plaintext_hasher),
               ("crypttext_hash", b"allmydata_crypttext_v1", H.crypttext_hash, H.crypttext_hasher),
               ("crypttext_segment_hash", b"allmydata_crypttext_segment_v1", H.crypttext_segment_hash, H.crypttext_segment_hasher),
               ("plaintext_segment_hash", b"allmydata_plaintext_segment_v1", H.plaintext_segment_hash, H.plaintext_segment_hasher)]
    rb = ctx.rng("big", 0)
    blob = bytes(rb.getrandbits(8) for _ in range(4096)) * 257      # 1 MiB + 4 KiB of non-periodic-at-block-size data
    blob = bytes((b + (i >> 12)) & 0xff for i, b in enumerate(blob))
    for bi in range(ctx.n(24, 120)):
        r = ctx.rng("bigcase", bi)
        name, tag, fn, mk = big_fns[bi % len(big_fns)]
        size = BIG[(bi // len(big_fns) + ctx.seed) % len(BIG)] if bi < 3 * len(big_fns) else r.choice(BIG) + r.choice([0, 0, 1, -1, 7, -4096])
        off = r.randrange(0, len(blob) - size)
        data = blob[off:off + size]
        want = _tag(tag, data)
        ctx.case(("big", name, size, off), kind="large:" + name)
        got = fn(data)
        if got != want:
            ctx.oracle_fail("derivation-differs-from-spec:" + name, "%s of %d bytes = %s but the specification gives %s (input: blob[%d:%d])" % (
                name, size, got.hex(), want.hex(), off, off + size), case={"fn": name, "size": size, "offset": off, "blob_seed": ctx.seed},
                expected=want.hex(), observed=got.hex())
        # the last byte must matter (a hasher that drops a tail would not notice)
        if size and fn(data[:-1] + bytes([data[-1] ^ 1])) == got:
            ctx.oracle_fail("hash-ignores-input-tail:" + name, "%s of %d bytes does not change when the last byte changes" % (name, size),
                            case={"fn": name, "size": size, "offset": off, "blob_seed": ctx.seed})
        h = mk()
        cuts = sorted(r.randrange(size + 1) for _ in range(r.choice([0, 1, 2, 5])))
        prev = 0
        for c in cuts + [size]:
            h.update(data[prev:c])
            prev = c
        if h.digest() != want:
            ctx.oracle_fail("derivation-differs-from-spec:" + name + "er", "%ser fed %d bytes in pieces cut at %r gives %s, specification %s" % (
                name, size, cuts, h.digest().hex(), want.hex()), case={"fn": name + "er", "size": size, "offset": off, "cuts": cuts, "blob_seed": ctx.seed},
                expected=want.hex(), observed=h.digest().hex())

    bad = ctx.coq_check(IMPORTS, terms, tag="c17fn")
    for ix in bad:
        name, args, got = info[ix]
        ctx.mismatch("spec-model-vs-impl:" + name, "Coq specification model and hashutil.%s differ" % name,
                     case={"fn": name, "args": repr(args)}, observed=repr(got), correspondence="hashutil-functions-vs-spec-model")
    ctx.trace(len(terms) - len(bad))

    call_sites(ctx)
    dirnode_grid_cases(ctx)
    lease_grid_cases(ctx)


def _netstrings(data):
    out, pos = [], 0
    while pos < len(data):
        colon = data.index(b":", pos)
        n = int(data[pos:colon])
        out.append(data[colon + 1:colon + 1 + n])
        assert data[colon + 1 + n:colon + 2 + n] == b","
        pos = colon + 2 + n
    return out


def lease_grid_cases(ctx):
    """Lease secrets as they are actually STORED by the servers: after uploads and re-uploads of the same file by the same
    client -- with some share holders meanwhile (almost) full or read-only, so that they are only asked to renew -- every
    lease on every share carries bucket_renewal/cancel_secret(file secret(client secret, SI), that server's id)."""
    try:
        from core import grid as G
    except Exception as e:
        ctx.note("lease grid part skipped: %s" % e)
        return
    import os
    from allmydata import uri
    from allmydata.util import base32
    from allmydata.storage.shares import get_share_file
    for i in range(ctx.n(1, 4)):
        r = ctx.rng("leasegrid", i)
        seed = r.getrandbits(30)
        with G.Grid(num_clients=2, num_servers=6, k=2, n=6, happy=3, seed=seed, timeout=180) as g:
            c = g.client(0)
            holders_secrets = []
            for cl in (0, 1):
                with open(os.path.join(g.client(cl).config.get_config_path("private"), "secret"), "rb") as f:
                    ls_ = base32.a2b(f.read().strip())
                holders_secrets.append((_tag(ls_, b"allmydata_client_renewal_secret_v1"), _tag(ls_, b"allmydata_client_cancel_secret_v1")))
            crs, ccs = holders_secrets[0]
            data = bytes(r.getrandbits(8) for _ in range(r.choice([300, 5000])))
            conv = b"c17-convergence-%d" % i
            cap = g.run(g.upload(data, convergence=conv))
            si = uri.from_string(cap).get_storage_index()

            def check(when):
                n_ = 0
                for j in range(6):
                    ss = g.server(j)
                    want_r = _pair(b"allmydata_bucket_renewal_secret_v1", _pair(b"allmydata_file_renewal_secret_v1", crs, si), ss.my_nodeid)
                    want_c = _pair(b"allmydata_bucket_cancel_secret_v1", _pair(b"allmydata_file_cancel_secret_v1", ccs, si), ss.my_nodeid)
                    for shnum, fn in ss.get_shares(si):
                        for ln, lease in enumerate(get_share_file(fn).get_leases()):
                            n_ += 1
                            ctx.case(("lease", seed, when, j, shnum, ln), kind="stored-lease-secrets")
                            if not lease.is_renew_secret(want_r) or not lease.is_cancel_secret(want_c):
                                ctx.oracle_fail("call-site:stored-lease-secrets", "%s: lease %d on share %d of server %d does not carry the renewal/cancel secrets the "
                                                "specification derives for this client, file and server" % (when, ln, shnum, j),
                                                case={"seed": seed, "when": when, "server": j, "share": shnum, "lease": ln})
                return n_
            check("first upload")
            holders = [j for j in range(6) if list(g.server(j).get_shares(si))]
            r.shuffle(holders)
            for j in holders[:r.choice([1, 2, 3])]:
                ss = g.server(j)
                if r.random() < 0.5:
                    ss.get_available_space = lambda: 500          # room for a lease record, not for another share
                else:
                    ss.readonly_storage = True
                for w in g._wrappers(j):
                    w.version = ss.get_version()
            out = g.run(g.upload(data, convergence=conv), outcome=True)
            if out.status == "ok" and out.value == cap:
                check("second upload of the same file, some holders full or read-only")
            else:
                ctx.count("lease-grid-second-upload:%s" % (out.error or "other cap"))
            # another client adds its own lease through check --add-lease (and verify): every lease now on disk must carry
            # BOTH secrets of ONE of the two clients' chains for this file and server
            from allmydata.monitor import Monitor
            for j in range(6):                      # make room for the new lease records again
                ss = g.server(j)
                ss.__dict__.pop("get_available_space", None)
                ss.readonly_storage = False
                for w in g._wrappers(j):
                    w.version = ss.get_version()
            n1 = g.client(1).create_node_from_uri(cap)
            outc = g.run(n1.check(Monitor(), verify=r.random() < 0.5, add_lease=True), outcome=True)
            if outc.status != "ok":
                ctx.count("lease-grid-add-lease-check:%s" % outc.error)
            else:
                for j in range(6):
                    ss = g.server(j)
                    chains = [(_pair(b"allmydata_bucket_renewal_secret_v1", _pair(b"allmydata_file_renewal_secret_v1", crs_, si), ss.my_nodeid),
                               _pair(b"allmydata_bucket_cancel_secret_v1", _pair(b"allmydata_file_cancel_secret_v1", ccs_, si), ss.my_nodeid))
                              for (crs_, ccs_) in holders_secrets]
                    for shnum, fn in ss.get_shares(si):
                        leases = list(get_share_file(fn).get_leases())
                        for ln, lease in enumerate(leases):
                            ctx.case(("lease2", seed, j, shnum, ln), kind="stored-lease-secrets-after-add-lease")
                            if not any(lease.is_renew_secret(wr) and lease.is_cancel_secret(wc) for (wr, wc) in chains):
                                ctx.oracle_fail("call-site:stored-lease-secrets", "after another client's check with add_lease: lease %d on share %d of server %d carries "
                                                "secrets that are not the renewal AND cancel secret the specification derives for either client" % (ln, shnum, j),
                                                case={"seed": seed, "when": "check add_lease by client 1", "server": j, "share": shnum, "lease": ln,
                                                      "renew_matches": [lease.is_renew_secret(wr) for (wr, _wc) in chains],
                                                      "cancel_matches": [lease.is_cancel_secret(wc) for (_wr, wc) in chains]})
                        if not any(lease.is_renew_secret(chains[1][0]) for lease in leases):
                            ctx.count("lease-grid-no-lease-for-client-1")


def dirnode_grid_cases(ctx):
    """Directories as they are actually STORED: every child write-cap field of a directory written through the real
    DirectoryNode code paths (children given as a plain dict, as the listing of ANOTHER directory, to create_dirnode and
    to create_subdirectory, then edited) must be salt ++ AES-CTR(key(salt, THIS directory's writekey), rwcap) ++ HMAC."""
    try:
        from core import grid as G
    except Exception as e:
        ctx.note("dirnode grid part skipped: %s" % e)
        return
    from allmydata.crypto import aes
    from allmydata.util import hashutil as H
    for i in range(ctx.n(1, 4)):
        r = ctx.rng("dirgrid", i)
        seed = r.getrandbits(30)
        with G.Grid(num_clients=1, num_servers=3, k=1, n=2, happy=1, seed=seed, timeout=120) as g:
            c = g.client(0)
            fmt = r.choice(["sdmf", "mdmf"])
            f1 = g.run(g.create_mutable(b"one", version=fmt))
            sub = g.run(c.create_dirnode())
            a = g.run(c.create_dirnode())
            g.run(a.set_node(u"file", f1))
            g.run(a.set_node(u"sub", sub))
            g.run(a.set_uri(u"lit", b"URI:LIT:krugkidfnzsa", b"URI:LIT:krugkidfnzsa"))
            listing = g.run(a.list())                                   # what DirectoryNode.list() hands out
            plain = dict((nm, (ch, dict(md))) for nm, (ch, md) in listing.items())
            made = {"a": a,
                    "create_dirnode(listing of a)": g.run(c.create_dirnode(initial_children=listing)),
                    "create_dirnode(plain dict)": g.run(c.create_dirnode(initial_children=plain)),
                    "a.create_subdirectory(listing of a)": g.run(a.create_subdirectory(u"copy", initial_children=listing))}
            g.run(made["create_dirnode(listing of a)"].set_node(u"later", f1))
            for how, d in sorted(made.items()):
                raw = g.run(d._node.download_best_version())
                wk = d._node.get_writekey()
                children = g.run(d.list())
                for entry in _netstrings(raw):
                    name, ro_uri, rwcapdata, _md = _netstrings(entry)
                    if not rwcapdata:
                        continue
                    ctx.case(("dirgrid", seed, how, name), kind="stored-dirnode-rwcap")
                    salt, ct, mac = rwcapdata[:16], rwcapdata[16:-32], rwcapdata[-32:]
                    ckey = _pair(b"allmydata_mutable_writekey_and_salt_to_dirnode_child_capkey_v1", salt, wk, 16)
                    plain_cap = aes.decrypt_data(aes.create_decryptor(ckey), ct)
                    want_cap = children[name.decode("utf-8")][0].get_write_uri() or b""      # read-only children: the empty string is encrypted
                    want_salt = _tag(b"allmydata_dirnode_child_rwcap_to_salt_v1", want_cap, 16)
                    if plain_cap != want_cap or salt != want_salt or mac != H.hmac(ckey, salt + ct):
                        ctx.oracle_fail("call-site:stored-dirnode-child-writecap", "directory made by %s stores child %r with a write-cap field that is not "
                                        "salt ++ AES(key(salt, this directory's writekey), rwcap) ++ HMAC as specified (decrypts to %r, the child's write cap "
                                        "is %r)" % (how, name.decode("utf-8"), plain_cap[:40], (want_cap or b"")[:40]),
                                        case={"seed": seed, "made_by": how, "child": name.decode("utf-8"), "format": fmt})


def call_sites(ctx):
    """The composed chains at the call sites named by the property."""
    from allmydata import uri
    from allmydata.client import SecretHolder
    from allmydata.mutable.filenode import MutableFileNode
    terms = []
    info = []
    n = ctx.n(30, 250)
    for i in range(n):
        r = ctx.rng("site", i)
        lease_secret = rbytes(r, 32)
        conv = rbytes(r, 32)
        # edge secrets: whitespace / NUL / 0xff at either end (a call site that "cleans" the
        # binary secret would change these), deterministic for the first cases
        EDGE = [0x09, 0x0a, 0x0b, 0x0c, 0x0d, 0x20, 0x00, 0xff, 0x85, 0xa0]
        if i < 2 * len(EDGE):
            e = bytes([EDGE[i // 2]])
            lease_secret = (e + lease_secret[1:]) if i % 2 == 0 else (lease_secret[:-1] + e)
            conv = (e + conv[1:]) if i % 2 == 0 else (conv[:-1] + e)
        sh = SecretHolder(lease_secret, conv)
        writekey = rbytes(r, 16)
        fp = rbytes(r, 32)
        peer = rbytes(r, 20)
        for cls in (uri.WriteableSSKFileURI, uri.WriteableMDMFFileURI):
            u = cls(writekey, fp)
            rk = _tag(b"allmydata_mutable_writekey_to_readkey_v1", writekey, 16)
            si = _tag(b"allmydata_mutable_readkey_to_storage_index_v1", rk, 16)
            ctx.case(("ssk", cls.__name__, writekey), kind="uri-ssk-chain")
            if (u.readkey, u.storage_index) != (rk, si) or u.get_readonly().readkey != rk or u.get_readonly().storage_index != si \
                    or u.get_verify_cap().storage_index != si:
                ctx.oracle_fail("call-site:uri-ssk-chain", "%s derives readkey/storage index differently from the specification" % cls.__name__,
                                case={"writekey": writekey.hex()}, expected=[rk.hex(), si.hex()], observed=[u.readkey.hex(), u.storage_index.hex()])
            terms.append("list_N_eqb (spec_mutable_storage_index (spec_readkey %s)) %s" % (T.bytes_(writekey), T.bytes_(u.storage_index)))
            info.append(("uri." + cls.__name__, writekey))
        key = rbytes(r, 16)
        chk = uri.CHKFileURI(key, rbytes(r, 32), 3, 10, 1000)
        ctx.case(("chk", key), kind="uri-chk-si")
        want_si = _tag(b"allmydata_immutable_key_to_storage_index_v1", key, 16)
        if chk.get_storage_index() != want_si:
            ctx.oracle_fail("call-site:uri-chk-storage-index", "CHKFileURI storage index differs from specification",
                            case={"key": key.hex()}, expected=want_si.hex(), observed=chk.get_storage_index().hex())
        terms.append("list_N_eqb (spec_storage_index %s) %s" % (T.bytes_(key), T.bytes_(chk.get_storage_index())))
        info.append(("uri.CHKFileURI", key))

        # mutable node: write enabler and per-server lease secrets, asked the way Publish and the servermap updater ask:
        # ONE node, several real NativeStorageServer objects (some sharing the abbreviated name, the nickname, or the
        # first bytes of the tub id), all three secrets per server, then again in another order
        node = MutableFileNode(None, sh, {"k": 3, "n": 10}, None)
        u = (uri.WriteableSSKFileURI if i % 2 == 0 else uri.WriteableMDMFFileURI)(writekey, fp)
        node.init_from_cap(u)
        si = u.storage_index
        wem = _tag(b"allmydata_mutable_writekey_to_write_enabler_master_v1", writekey)
        crs = _tag(lease_secret, b"allmydata_client_renewal_secret_v1")
        ccs = _tag(lease_secret, b"allmydata_client_cancel_secret_v1")
        frs = _pair(b"allmydata_file_renewal_secret_v1", crs, si)
        fcs = _pair(b"allmydata_file_cancel_secret_v1", ccs, si)
        key0 = rbytes(r, 32)
        servers = [(_real_server(key0, peer, "alpha"), peer)]
        p2 = rbytes(r, 20)
        servers.append((_real_server(key0[:5] + rbytes(r, 27), p2, "alpha"), p2))          # same 8-char abbreviated name, same nickname
        p3 = peer[:10] + rbytes(r, 10)
        servers.append((_real_server(rbytes(r, 32), p3, "gamma"), p3))                     # tub id shares a 10-byte prefix
        p4 = rbytes(r, 10) + peer[10:]
        servers.append((_real_server(rbytes(r, 32), p4, ""), p4))                          # tub id shares a 10-byte suffix
        asked = list(servers) + list(reversed(servers))
        r.shuffle(asked)
        asked = list(servers) + asked
        first = None
        for (srv, pid_) in asked:
            got3 = (node.get_write_enabler(srv), node.get_renewal_secret(srv), node.get_cancel_secret(srv))
            want3 = (_pair(b"allmydata_mutable_write_enabler_master_and_nodeid_to_write_enabler_v1", wem, pid_),
                     _pair(b"allmydata_bucket_renewal_secret_v1", frs, pid_), _pair(b"allmydata_bucket_cancel_secret_v1", fcs, pid_))
            if first is None:
                first = got3
            ctx.case(("node", lease_secret, writekey, pid_), kind="mutable-node-secrets")
            for what, got, want in zip(("write-enabler", "renewal-secret", "cancel-secret"), got3, want3):
                if got != want:
                    ctx.oracle_fail("call-site:mutable-node-" + what, "MutableFileNode %s for server %s (tub id %s) differs from the specified chain; "
                                    "the node was asked about %d servers, two of them abbreviated %r" % (
                                        what, srv.get_longname().decode(), pid_.hex(), len(servers), servers[0][0].get_name().decode()),
                                    case={"lease_secret": lease_secret.hex(), "writekey": writekey.hex(), "peer": pid_.hex(),
                                          "asked_order": [q.hex() for (_s, q) in asked]},
                                    expected=want.hex(), observed=got.hex())
        we, rs, cs = first
        terms.append("list_N_eqb (spec_write_enabler %s %s) %s" % (T.bytes_(writekey), T.bytes_(peer), T.bytes_(we)))
        info.append(("MutableFileNode.get_write_enabler", writekey))
        terms.append("list_N_eqb (spec_renewal_secret_chain %s %s %s) %s" % (T.bytes_(lease_secret), T.bytes_(si), T.bytes_(peer), T.bytes_(rs)))
        info.append(("MutableFileNode.get_renewal_secret", lease_secret))
        terms.append("list_N_eqb (spec_cancel_secret_chain %s %s %s) %s" % (T.bytes_(lease_secret), T.bytes_(si), T.bytes_(peer), T.bytes_(cs)))
        info.append(("MutableFileNode.get_cancel_secret", lease_secret))

        # directory child write-cap encryption key (dirnode._encrypt_rw_uri layout: salt ++ crypttext ++ mac)
        from allmydata.dirnode import _encrypt_rw_uri
        from allmydata.util import hashutil as H
        rwcap = b"URI:SSK:" + rbytes(r, 10).hex().encode()
        blob = _encrypt_rw_uri(writekey, rwcap)
        salt = _tag(b"allmydata_dirnode_child_rwcap_to_salt_v1", rwcap, 16)
        ckey = _pair(b"allmydata_mutable_writekey_and_salt_to_dirnode_child_capkey_v1", salt, writekey, 16)
        ctx.case(("dir", writekey, rwcap), kind="dirnode-rwcap-key")
        mac = H.hmac(ckey, blob[:-32])
        if blob[:16] != salt or blob[-32:] != mac or len(blob) != 16 + len(rwcap) + 32:
            ctx.oracle_fail("call-site:dirnode-encrypt-rw-uri", "dirnode child write-cap field is not salt ++ AES(key(salt,writekey), rwcap) ++ HMAC",
                            case={"writekey": writekey.hex(), "rwcap": rwcap.decode()}, expected={"salt": salt.hex()}, observed=blob.hex())
        terms.append("list_N_eqb (spec_dirnode_child_salt %s) %s" % (T.bytes_(rwcap), T.bytes_(blob[:16])))
        info.append(("dirnode._encrypt_rw_uri salt", rwcap))
    bad = ctx.coq_check(IMPORTS, terms, tag="c17site")
    for ix in bad:
        ctx.mismatch("spec-model-vs-call-site:" + info[ix][0], "Coq specification chain and call site %s differ" % info[ix][0],
                     case={"site": info[ix][0], "input": info[ix][1].hex()}, correspondence="call-sites-vs-spec-chains")
    ctx.trace(len(terms) - len(bad))


def _real_server(pubkey32, tubid20, nickname):
    """A real NativeStorageServer built from an introducer announcement: server id 'v0-<base32 key>', the 20-byte tub id
    (what write enablers and lease secrets are bound to) carried by the FURL."""
    from allmydata.node import config_from_string
    from allmydata.storage_client import NativeStorageServer, StorageClientConfig
    from allmydata.util import base32
    furl = "pb://%s@tcp:127.0.0.1:1/swissnum" % base32.b2a(tubid20).decode("ascii")
    ann = {"anonymous-storage-FURL": furl, "nickname": nickname}
    cfg = config_from_string(env.subdir("c17-node"), "", "")
    srv = NativeStorageServer(b"v0-" + base32.b2a(pubkey32), ann, None, {}, cfg, StorageClientConfig())
    assert srv.get_lease_seed() == tubid20 and srv.get_foolscap_write_enabler_seed() == tubid20
    return srv
