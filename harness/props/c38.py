"""C38  On-disk and wire encodings round-trip.

Implementation under test (in-process, /repo working tree):
  allmydata.util.base32 (b2a, a2b), allmydata.util.base62 (b2a, a2b),
  allmydata.util.netstring (netstring, split_netstring),
  allmydata.uri (pack_extension, unpack_extension),
  allmydata.storage.lease / lease_schema (LeaseInfo.to_*/from_*, v1/v2 serializers),
  allmydata.storage.immutable_schema / immutable (header, ShareFile),
  allmydata.storage.mutable_schema / mutable (header, MutableShareFile).
Model: coq/Model/{Base32,Base62,NetstringCodec,Ueb,PyInt,LeaseRec}.v over Gen/CodecConsts.v, Gen/Structs.v.
Direct oracle (independent of the model): decode(encode(x)) == x, and
"accepted implies canonical": whenever a decoder accepts s and returns x, encode(x) == s.
"""
import os
import re
import struct

from core import env
from core import term as T

ID = "C38"
GEN = ["hashutil", "structs", "codecs"]
RULE = ("cases: (codec, operation, input). Valid stream: byte strings of every length 0..70 (base32 classes mod 5, "
        "base62 chunk lengths), all-zero/all-0xff/random contents, integers at field limits (0, 1, 2^31, 2^32-1, 2^32, "
        "2^64-1, 2^64); netstring lists of 0-5 strings; UEB dicts of 0-8 entries. Malformed stream: single-character "
        "substitutions, insertions, deletions, truncations, case changes, padding, non-canonical numerals, negative "
        "lengths, duplicated/reordered entries applied to valid encodings, and short random strings for int(). "
        "Capability strings: 18 cap kinds x markers (none, ro., imm., doubled) x intact/damaged x deep_immutable on/off; whatever uri.from_string leaves undecoded (UnknownURI) must hand back exactly the given text. "
        "distinct_nontrivial = distinct (codec, op, input) on which the decoder ACCEPTS or the encoder succeeds.")
META = {
    "title": "On-disk and wire encodings round-trip",
    "level_text": ("Theorems in Coq over executable models of base32, base62, split_netstring, pack/unpack_extension (with a model of "
                   "Python's int(bytes)), LeaseInfo records and the immutable/mutable container headers (struct formats, sizes, offsets and "
                   "header expressions regenerated from the source on every run): decode(encode x) = x for all x within the stated widths, "
                   "and the strict converse decode s = x -> encode x = s.  Where the faithful model refutes the converse (base32 trailing bits, "
                   "base62 alphabet/overflow/length, non-canonical numerals and negative lengths, duplicate/unsorted/unencodable UEB keys) the "
                   "theorem carries the canonical-form precondition, the encoder's output is proved to satisfy it, a strict reader is proved to "
                   "accept exactly the encoder's image, and `_refuted` witnesses are replayed on the implementation.  Models are run against "
                   "the real functions (and real ShareFile/MutableShareFile files) on every case."),
    "level_note": ("Trusted: translators structs.py/codecs.py (fail-closed), AST pins of the hand-modelled functions, the reading of "
                   "CPython's int(bytes), base64.b32encode/b32decode, bytes.translate and struct (exercised differentially, not proved). "
                   "Not modelled: sys.get_int_max_str_digits (numerals over 4300 digits), blake2b inside the v2 lease serializers "
                   "(checked against nacl in the driver only), file-system behaviour of the containers beyond header and lease bytes."),
    "technique": "Coq proofs over executable codec models regenerated/pinned from source + differential run and direct round-trip/canonicity oracle on the implementation",
    "design_ref": "8/C38",
    "trusted_base": ["translators harness/translate/structs.py, codecs.py", "CPython int(), base64, struct, bytes.translate as modelled"],
    "assumptions": ["byte strings are lists of integers below 256 (bytes_ok)", "length fields have at most 4300 decimal digits"],
}

IMPORTS = ["Lib.Hex", "Lib.Bytes", "Lib.Netstring", "Gen.Structs", "Model.PyResult", "Model.PyInt", "Model.NetstringCodec", "Model.Ueb",
           "Model.Base32", "Model.Base62", "Model.LeaseRec"]

B32 = b"abcdefghijklmnopqrstuvwxyz234567"
B62 = b"0123456789ABCDEFGHIJKLMNOPQRSTUVWXYZabcdefghijklmnopqrstuvwxyz"
LIMITS = [0, 1, 2, 255, 256, 2 ** 16, 2 ** 31 - 1, 2 ** 31, 2 ** 32 - 2, 2 ** 32 - 1, 2 ** 32, 2 ** 32 + 1, 2 ** 63, 2 ** 64 - 1, 2 ** 64]
INT_KEYS = ("size", "segment_size", "num_segments", "needed_shares", "total_shares")


# ---------------------------------------------------------------------------
# helpers
# ---------------------------------------------------------------------------
def err_class(e):
    """Exception -> the model's error enum."""
    if isinstance(e, UnicodeDecodeError):
        return "EUnicode"
    if isinstance(e, struct.error):
        return "EStruct"
    if isinstance(e, AssertionError):
        return "EAssert"
    if isinstance(e, IndexError):
        return "EIndex"
    if isinstance(e, ValueError):
        return "EValue"
    if isinstance(e, TypeError):
        return "EType"
    return "other:" + type(e).__name__


def rbytes(r, n):
    return bytes(r.getrandbits(8) for _ in range(n))


def content(r, n):
    k = r.randrange(6)
    if k == 0:
        return b"\x00" * n
    if k == 1:
        return b"\xff" * n
    if k == 2 and n:
        return b"\x00" * (n - 1) + bytes([r.choice([1, 0x80, 0xff])])
    return rbytes(r, n)


def mutate(r, s, alphabet):
    """One random mutation of an encoding; returns (kind, bytes)."""
    s = bytes(s)
    k = r.randrange(9)
    if k == 0 and s:
        i = r.randrange(len(s))
        return "subst-alpha", s[:i] + bytes([r.choice(alphabet)]) + s[i + 1:]
    if k == 1 and s:
        i = r.randrange(len(s))
        return "subst-any", s[:i] + bytes([r.getrandbits(8)]) + s[i + 1:]
    if k == 2:
        i = r.randrange(len(s) + 1)
        return "insert", s[:i] + bytes([r.choice(alphabet)]) + s[i:]
    if k == 3 and s:
        return "truncate", s[:r.randrange(len(s))]
    if k == 4 and s:
        i = r.randrange(len(s))
        return "delete", s[:i] + s[i + 1:]
    if k == 5:
        return "case", s.swapcase()
    if k == 6:
        return "pad", s + r.choice([b"=", b"==", b"\n", b" ", b"\x00"])
    if k == 7 and s:
        return "last-char", s[:-1] + bytes([r.choice(alphabet)])
    return "append", s + bytes([r.choice(alphabet)])


class Batch(object):
    """Collects Coq boolean terms together with what to report when one is false."""

    def __init__(self, ctx):
        self.ctx = ctx
        self.terms = []
        self.info = []

    def add(self, term, corr, what, case, observed):
        self.terms.append(term)
        self.info.append((corr, what, case, observed))

    def flush(self):
        bad = self.ctx.coq_check(IMPORTS, self.terms, tag="c38")
        for ix in bad:
            corr, what, case, observed = self.info[ix]
            self.ctx.mismatch("model-vs-impl:" + corr, "Coq model and implementation differ: " + what,
                              case=case, observed=observed, correspondence=corr)
        self.ctx.trace(len(self.terms) - len(bad))


def opt_bytes(b):
    return "None" if b is None else "(Some %s)" % T.bytes_(b)


# ---------------------------------------------------------------------------
# base32
# ---------------------------------------------------------------------------
def b32_classify(s):
    if any(c not in B32 for c in s):
        return "base32-a2b-accepts-out-of-alphabet"
    if len(s) % 8 in (1, 3, 6):
        return "base32-a2b-accepts-impossible-length"
    return "base32-a2b-accepts-nonzero-trailing-bits"


def b32_decode_case(ctx, B, s, kind, witness=False):
    from allmydata.util import base32
    try:
        x = base32.a2b(s)
        out = x
    except Exception as e:  # AssertionError from the precondition; binascii.Error would be a mismatch
        out = None
        cls = err_class(e)
        if cls != "EAssert":
            ctx.mismatch("base32-a2b-error-class", "a2b raised %s" % type(e).__name__, case={"codec": "base32", "op": "a2b", "input": s.hex()},
                         observed=cls, correspondence="base32")
    ctx.case(("b32", "a2b", s) if out is not None else None, kind="base32-a2b-" + kind)
    case = {"codec": "base32", "op": "a2b", "input": s.hex(), "mutation": kind}
    if out is not None:
        back = base32.b2a(out)
        if back != s:
            ctx.oracle_fail(b32_classify(s), "base32.a2b(%r) = %s but b2a of that is %r: a non-canonical string is read as a value" % (s, out.hex(), back),
                            case=case, expected="rejection (or b2a(a2b(s)) == s)", observed={"decoded": out.hex(), "reencoded": back.decode("latin-1")})
    elif witness:
        ctx.note("base32 witness %r is now rejected by the implementation" % s)
    B.add("opt_list_N_eqb (b32_a2b %s) %s" % (T.bytes_(s), opt_bytes(out)), "base32", "base32.a2b(%r)" % s, case, None if out is None else out.hex())


def run_base32(ctx, B):
    from allmydata.util import base32
    ctx.correspondence("base32")
    per_len = ctx.n(1, 12)
    valid = []
    for n in range(0, 71):
        for j in range(per_len):
            r = ctx.rng("b32", n, j)
            x = content(r, n)
            e = base32.b2a(x)
            valid.append(e)
            ctx.case(("b32", "b2a", x), kind="base32-b2a")
            try:
                d = base32.a2b(e)
            except Exception as ex:
                d = ("raised", type(ex).__name__)
            if d != x:
                ctx.oracle_fail("base32-roundtrip", "base32.a2b(b2a(x)) != x for a %d-byte string" % n,
                                case={"codec": "base32", "op": "roundtrip", "input": x.hex()}, expected=x.hex(), observed=repr(d))
            B.add("list_N_eqb (b32_b2a %s) %s" % (T.bytes_(x), T.bytes_(e)), "base32", "base32.b2a of %d bytes" % n,
                  {"codec": "base32", "op": "b2a", "input": x.hex()}, e.decode())
            b32_decode_case(ctx, B, e, "valid")
            if n == 5 and j == 0:
                ctx.sample({"codec": "base32", "input": x.hex(), "encoded": e.decode()})
    for i, e in enumerate(valid):
        if e and (i % 2 == 0 or ctx.tier == "thorough"):
            b32_decode_case(ctx, B, e[:-1], "prefix-last-byte")
    for i in range(ctx.n(3, 40)):
        e = ctx.rng("b32p", i).choice([v for v in valid if 8 <= len(v) <= 40])
        for cut in range(len(e)):
            b32_decode_case(ctx, B, e[:cut], "prefix")
    nm = ctx.n(260, 6000)
    for i in range(nm):
        r = ctx.rng("b32m", i)
        kind, s = mutate(r, r.choice(valid), B32)
        if r.randrange(4) == 0:
            kind2, s = mutate(r, s, B32)
            kind += "+" + kind2
        b32_decode_case(ctx, B, s, kind.split("+")[0])
    # the model's refutation witnesses (Proofs/CodecsBase32.v b32_noncanonical_witnesses), replayed
    for s in (b"ac", b"aaai", b"aaaab", b"aaaaaae", b"76", b"aaaaaaaaac"):
        b32_decode_case(ctx, B, s, "refuted-witness", witness=True)


# ---------------------------------------------------------------------------
# base62
# ---------------------------------------------------------------------------
def b62_classify(s):
    from allmydata.util import base62
    if any(c not in B62 for c in s):
        return "base62-a2b-accepts-out-of-alphabet"
    k = base62.num_octets_that_encode_to_this_many_chars(len(s))
    if base62.num_chars_that_this_many_octets_encode_to(k) + (1 if k == 0 else 0) != len(s) and len(base62.b2a(b"\x00" * k)) != len(s):
        return "base62-a2b-accepts-impossible-length"
    v = 0
    for c in s:
        v = v * 62 + B62.index(c)
    if v >= 256 ** k:
        return "base62-a2b-accepts-overflow"
    return "base62-a2b-noncanonical-other"


def b62_decode_case(ctx, B, s, kind):
    from allmydata.util import base62
    case = {"codec": "base62", "op": "a2b", "input": s.hex(), "mutation": kind}
    try:
        out = base62.a2b(s)
    except Exception as e:
        out = None
        ctx.mismatch("base62-a2b-raises", "base62.a2b raised %s (the model never fails)" % type(e).__name__, case=case,
                     observed=type(e).__name__, correspondence="base62")
    ctx.case(("b62", "a2b", s) if out is not None else None, kind="base62-a2b-" + kind)
    if out is not None:
        try:
            back = base62.b2a(out)
        except Exception as e:
            back = ("raised", type(e).__name__)
        if back != s:
            ctx.oracle_fail(b62_classify(s), "base62.a2b(%r) = %s but b2a of that is %r: a malformed string is read as a value" % (s, out.hex(), back),
                            case=case, expected="rejection (or b2a(a2b(s)) == s)", observed={"decoded": out.hex(), "reencoded": repr(back)})
    B.add("opt_list_N_eqb (b62_a2b %s) %s" % (T.bytes_(s), opt_bytes(out)), "base62", "base62.a2b(%r)" % s, case, None if out is None else out.hex())


def run_base62(ctx, B):
    from allmydata.util import base62
    ctx.correspondence("base62")
    per_len = ctx.n(1, 10)
    valid = []
    for n in range(0, 71):
        for j in range(per_len):
            r = ctx.rng("b62", n, j)
            x = content(r, n)
            case = {"codec": "base62", "op": "roundtrip", "input": x.hex()}
            try:
                e = base62.b2a(x)
            except Exception as ex:
                ctx.oracle_fail("base62-encode-fails", "base62.b2a raised %s on a %d-byte string" % (type(ex).__name__, n), case=case, observed=type(ex).__name__)
                ctx.case(None, kind="base62-b2a")
                B.add("opt_list_N_eqb (b62_b2a %s) None" % T.bytes_(x), "base62", "base62.b2a of %d bytes raised" % n, case, "raised")
                continue
            valid.append(e)
            ctx.case(("b62", "b2a", x), kind="base62-b2a")
            d = base62.a2b(e)
            if d != x:
                ctx.oracle_fail("base62-roundtrip", "base62.a2b(b2a(x)) != x for a %d-byte string" % n, case=case, expected=x.hex(), observed=d.hex())
            B.add("opt_list_N_eqb (b62_b2a %s) (Some %s)" % (T.bytes_(x), T.bytes_(e)), "base62", "base62.b2a of %d bytes" % n, case, e.decode())
            b62_decode_case(ctx, B, e, "valid")
            if n == 5 and j == 0:
                ctx.sample({"codec": "base62", "input": x.hex(), "encoded": e.decode()})
    for i, e in enumerate(valid):
        if i % 2 == 1 or ctx.tier == "thorough":
            b62_decode_case(ctx, B, e[:-1], "prefix-last-byte")
    for i in range(ctx.n(2, 30)):
        e = ctx.rng("b62p", i).choice([v for v in valid if 6 <= len(v) <= 40])
        for cut in range(len(e)):
            b62_decode_case(ctx, B, e[:cut], "prefix")
    nm = ctx.n(260, 5000)
    for i in range(nm):
        r = ctx.rng("b62m", i)
        kind, s = mutate(r, r.choice(valid), B62)
        b62_decode_case(ctx, B, s, kind)
    for s in (b"!!", b"\x00\x05", b"a-b", b"zz", b"zzz", b"4C", b"", b"0000", b"00000000"):
        b62_decode_case(ctx, B, s, "refuted-witness")


# ---------------------------------------------------------------------------
# int(bytes)
# ---------------------------------------------------------------------------
INT_ALPHABET = [b"0", b"1", b"2", b"9", b"0", b"7", b"+", b"-", b"_", b" ", b"\t", b"\n", b"\x0b", b"\x0c", b"\r", b"x", b".", b"e",
                b"\x00", b"\xa0", b"\xd9\xa3", b"\x1c", b"a", b","]


def run_pyint(ctx, B):
    ctx.correspondence("python-int")
    n = ctx.n(300, 8000)
    fixed = [b"", b" ", b"+", b"-", b"+3", b"-3", b"- 3", b" +3 ", b"++3", b"0_3", b"_3", b"3_", b"3__0", b"1_2_3", b"+_3", b"00", b"-0",
             b"-00", b"3\x00", b"3 \t\n\x0b\x0c\r", b"1 2", b"0x3", b"0b1", b"\xd9\xa3", b"4294967296", b"18446744073709551616", b"007"]
    for i in range(n + len(fixed)):
        if i < len(fixed):
            s = fixed[i]
        else:
            r = ctx.rng("int", i)
            s = b"".join(r.choice(INT_ALPHABET if r.randrange(3) else INT_ALPHABET[:6]) for _ in range(r.randrange(0, 7)))
        try:
            v = int(s)
        except ValueError:
            v = None
        ctx.case(("int", s) if v is not None else None, kind="int-accept" if v is not None else "int-reject")
        exp = "None" if v is None else "(Some %s)" % T.Z(v)
        B.add("match py_int %s, %s with Some a, Some b => Z.eqb a b | None, None => true | _, _ => false end" % (T.bytes_(s), exp),
              "python-int", "int(%r)" % s, {"codec": "int", "op": "int", "input": s.hex()}, v)


# ---------------------------------------------------------------------------
# netstrings
# ---------------------------------------------------------------------------
def ns_result(fn):
    try:
        els, pos = fn()
        return ("ok", [bytes(e) for e in els], pos)
    except Exception as e:
        return ("err", err_class(e))


def ns_term(data, n, pos, trailer, res):
    t = "None" if trailer is None else "(Some %s)" % T.bytes_(trailer)
    if res[0] == "ok":
        exp = "(Ok (%s, %s))" % (T.lst([T.bytes_(e) for e in res[1]]), T.N(res[2]))
    else:
        exp = "(Err %s)" % res[1]
    return "split_result_eqb (split_netstring %s %s %s %s) %s" % (T.bytes_(data), T.N(n), T.N(pos), t, exp)


def ns_classify(data, numstrings):
    """Why is an accepted netstring sequence not the encoding of what was returned?"""
    pos = 0
    count = 0
    while pos < len(data):
        colon = data.index(b":", pos)
        numeral = data[pos:colon]
        if not re.fullmatch(br"0|[1-9][0-9]*", numeral):
            return "netstring-split-accepts-noncanonical-numeral"
        pos = colon + 1 + int(numeral) + 1
        count += 1
        if count == numstrings:
            break
    return "netstring-split-noncanonical-other"


def ns_case(ctx, B, data, n, pos, trailer, kind, must_reject=False):
    from allmydata.util.netstring import netstring, split_netstring
    res = ns_result(lambda: split_netstring(data, n, pos, trailer))
    case = {"codec": "netstring", "op": "split", "input": data.hex(), "numstrings": n, "position": pos,
            "trailer": None if trailer is None else trailer.hex(), "mutation": kind}
    if res[0] == "err" and res[1].startswith("other"):
        ctx.mismatch("netstring-error-class", "split_netstring raised %s" % res[1], case=case, observed=res[1], correspondence="netstring")
        return
    ctx.case(("ns", data, n, pos, trailer) if res[0] == "ok" else None, kind="netstring-" + kind)
    if res[0] == "ok" and must_reject:
        ctx.oracle_fail("netstring-split-accepts-truncated", "split_netstring(%r, %d, required_trailer=%r) accepted a strict prefix of a valid encoding of %d strings: %r" % (data, n, trailer, n, res),
                        case=case, expected="rejection", observed=repr(res))
    elif res[0] == "ok" and pos == 0:
        # accepted: the consumed bytes must be exactly the encoding of the returned elements
        back = b"".join(netstring(e) for e in res[1])
        consumed = res[2] - (len(trailer) if trailer is not None else 0)
        if consumed > len(data) or back != data[:consumed] or (trailer is not None and data[consumed:] != trailer):
            if len(back) > len(data) and back.startswith(data) or consumed > len(data):
                k = "netstring-split-accepts-truncated"
            else:
                k = ns_classify(data, n)
            ctx.oracle_fail(k, "split_netstring(%r, %d, required_trailer=%r) = (%r, %d) but the encoding of those elements is %r" % (data, n, trailer, res[1], res[2], back),
                            case=case, expected="rejection (or exactly the canonical encoding consumed)",
                            observed={"elements": [e.hex() for e in res[1]], "position": res[2], "reencoded": back.hex()})
    B.add(ns_term(data, n, pos, trailer, res), "netstring", "split_netstring(%r, %d, %d, %r)" % (data, n, pos, trailer), case, repr(res))


def run_netstring(ctx, B):
    from allmydata.util.netstring import netstring, split_netstring
    ctx.correspondence("netstring")
    # every strict prefix of a valid encoding of 1..4 strings is rejected (netstring_unique_decomposition)
    for i in range(ctx.n(4, 120)):
        r = ctx.rng("nsp", i)
        k = 1 + i % 4
        els = [content(r, r.choice([0, 1, 2, 3, 9, 10, 11])) if r.randrange(2) else bytes(r.choice(b"0123456789:,") for _ in range(r.randrange(0, 6))) for _ in range(k)]
        data = b"".join(netstring(e) for e in els)
        for cut in range(len(data)):
            ns_case(ctx, B, data[:cut], k, 0, None if (cut + i) % 2 else b"", "prefix", must_reject=True)
            if ctx.tier == "thorough" or ctx.search:
                ns_case(ctx, B, data[:cut], k, 0, b"" if (cut + i) % 2 else None, "prefix", must_reject=True)
    nv = ctx.n(120, 3000)
    valid = []
    for i in range(nv):
        r = ctx.rng("ns", i)
        k = r.choice([0, 1, 1, 2, 3, 4, 5])
        els = []
        for _ in range(k):
            ln = r.choice([0, 0, 1, 2, 9, 10, 11, 70, r.randrange(0, 71)])
            e = content(r, ln) if r.randrange(3) else bytes(r.choice(b"0123456789:,+- _ab") for _ in range(ln))
            els.append(e)
        data = b"".join(netstring(e) for e in els)
        for e in els:
            if len(valid) < 400:
                valid.append((data, k))
        ctx.case(("ns-enc", tuple(els)), kind="netstring-encode")
        B.add("list_N_eqb (List.concat (map netstring %s)) %s" % (T.lst([T.bytes_(e) for e in els]), T.bytes_(data)), "netstring",
              "netstring() of %d strings" % k, {"codec": "netstring", "op": "encode", "elements": [e.hex() for e in els]}, data.hex())
        res = ns_result(lambda: split_netstring(data, k, 0, b""))
        if res != ("ok", els, len(data)):
            ctx.oracle_fail("netstring-roundtrip", "split_netstring(concatenated netstrings of %d strings, %d, required_trailer=b'') != the strings" % (k, k),
                            case={"codec": "netstring", "op": "roundtrip", "elements": [e.hex() for e in els]}, expected=[e.hex() for e in els], observed=repr(res))
        ns_case(ctx, B, data, k, 0, b"", "valid")
        if 1 <= k <= 4:
            # the encoding short of its final byte (the last comma) must be rejected, with and without a required trailer
            ns_case(ctx, B, data[:-1], k, 0, None, "prefix-last-byte", must_reject=True)
            if i % 4 == 1:
                ns_case(ctx, B, data[:-1], k, 0, b"", "prefix-last-byte", must_reject=True)
        if i < 3:
            ctx.sample({"codec": "netstring", "elements": [e.hex() for e in els], "encoded": data.hex()})
        # other call shapes on the same data: wrong counts, offsets, trailers
        shape = r.randrange(5)
        if shape == 0:
            ns_case(ctx, B, data, max(0, k + r.choice([-1, 1, 2])), 0, r.choice([None, b""]), "wrong-count")
        elif shape == 1:
            tr = rbytes(r, r.randrange(0, 4))
            ns_case(ctx, B, data + tr, k, 0, r.choice([None, tr, tr + b"x", b""]), "trailer")
        elif shape == 2 and data:
            ns_case(ctx, B, data, k, r.randrange(0, len(data) + 2), None, "position")
        elif shape == 3:
            ns_case(ctx, B, data, 0, 0, None, "count-zero")
    nm = ctx.n(200, 6000)
    numerals = [b"+", b"0", b" ", b"\t", b"_", b"-", b"00"]
    for i in range(nm):
        r = ctx.rng("nsm", i)
        data, k = r.choice(valid) if valid else (b"", 0)
        m = r.randrange(4)
        if m == 0 and data:
            # non-canonical numeral: decorate the first length field
            colon = data.index(b":")
            num = data[:colon]
            deco = r.randrange(5)
            if deco == 0:
                num2 = r.choice([b"+", b"0", b" ", b"\t", b"00", b"-", b"\n"]) + num
            elif deco == 1:
                num2 = num + r.choice([b" ", b"\n", b"_", b"\r\n"])
            elif deco == 2 and len(num) > 1:
                num2 = num[:1] + b"_" + num[1:]
            elif deco == 3:
                num2 = b" +" + num + b" "
            else:
                num2 = r.choice(numerals) + num + r.choice([b"", b" "])
            s = num2 + data[colon:]
            kind = "numeral"
        else:
            kind, s = mutate(r, data, b"0123456789:,")
        ns_case(ctx, B, s, k if r.randrange(5) else max(1, k), 0, b"", kind)
    for s in (b"+3:abc,", b"03:abc,", b" 3:abc,", b"3 :abc,", b"1_0:abcdefghij,", b"-0:,"):
        ns_case(ctx, B, s, 1, 0, b"", "refuted-witness")


# ---------------------------------------------------------------------------
# URI extension block
# ---------------------------------------------------------------------------
KEY_RE = re.compile(br"[a-zA-Z_\-]+\n?\Z")
CANON_NAT = re.compile(br"(0|[1-9][0-9]*)\Z")
CANON_INT = re.compile(br"(0|-?[1-9][0-9]*)\Z")


def ueb_classify(data):
    """First departure of an ACCEPTED block from the canonical form (same walk as unpack_extension)."""
    prev = None
    seen = set()
    ints = []
    while data:
        colon = data.index(b":")
        key = data[:colon]
        data = data[colon + 1:]
        colon = data.index(b":")
        number = data[:colon]
        if not CANON_NAT.match(number):
            return "ueb-unpack-accepts-negative-length" if int(number) < 0 else "ueb-unpack-accepts-noncanonical-numeral"
        length = int(number)
        data = data[colon + 1:]
        value = data[:length]
        data = data[length + 1:]
        if not KEY_RE.match(key):
            return "ueb-unpack-accepts-unencodable-key"
        if key in seen:
            return "ueb-unpack-accepts-duplicate-key"
        if prev is not None and key < prev:
            return "ueb-unpack-accepts-unsorted-keys"
        seen.add(key)
        prev = key
        if key.decode("utf-8") in INT_KEYS:
            ints.append(value)
    for v in ints:
        if not CANON_INT.match(v):
            return "ueb-unpack-accepts-noncanonical-int-field"
    return "ueb-unpack-noncanonical-other"


def ueb_dict_term(d):
    items = []
    for k in d:
        kb = k.encode("utf-8") if isinstance(k, str) else k
        v = d[k]
        items.append("(%s, %s)" % (T.bytes_(kb), ("UInt %s" % T.Z(v)) if isinstance(v, int) else ("UBytes %s" % T.bytes_(v))))
    return T.lst(items)


def ueb_decode_case(ctx, B, s, kind, truncated=False):
    from allmydata import uri
    case = {"codec": "ueb", "op": "unpack", "input": s.hex(), "mutation": kind}
    try:
        d = uri.unpack_extension(s)
        res = ("ok", d)
    except Exception as e:
        res = ("err", err_class(e))
    if res[0] == "err" and res[1].startswith("other"):
        ctx.mismatch("ueb-error-class", "unpack_extension raised %s" % res[1], case=case, observed=res[1], correspondence="ueb")
        return
    ctx.case(("ueb", s) if res[0] == "ok" else None, kind="ueb-" + kind)
    if res[0] == "ok":
        try:
            back = uri.pack_extension(res[1])
        except Exception as e:
            back = ("raised", type(e).__name__)
        if back != s:
            k = ueb_classify(s)
            if truncated and k == "ueb-unpack-noncanonical-other":
                k = "ueb-unpack-accepts-truncated"
            ctx.oracle_fail(k, "unpack_extension(%r) = %r but pack_extension of that gives %r" % (s, res[1], back),
                            case=case, expected="rejection (or the canonical encoding)", observed={"decoded": repr(res[1]), "reencoded": repr(back)})
        exp = "(Ok %s)" % ueb_dict_term(res[1])
    else:
        exp = "(Err %s)" % res[1]
    B.add("ueb_result_eqb (ueb_unpack %s) %s" % (T.bytes_(s), exp), "ueb", "unpack_extension(%r)" % s, case, repr(res))


REAL_KEYS = ["codec_name", "codec_params", "tail_codec_params", "size", "segment_size", "num_segments", "needed_shares", "total_shares",
             "crypttext_hash", "crypttext_root_hash", "share_root_hash", "plaintext_hash", "plaintext_root_hash"]


def run_ueb(ctx, B):
    from allmydata import uri
    ctx.correspondence("ueb")
    nv = ctx.n(110, 3000)
    valid = []
    for i in range(nv):
        r = ctx.rng("ueb", i)
        d = {}
        for _ in range(r.choice([0, 1, 2, 3, 5, 8, 13])):
            if r.randrange(4):
                k = r.choice(REAL_KEYS)
            else:
                k = "".join(r.choice("abzAZ_-") for _ in range(r.randrange(1, 6))) + ("\n" if r.randrange(12) == 0 else "")
            if k in INT_KEYS:
                v = r.choice(LIMITS + [r.getrandbits(40), -1, -(2 ** 32)] if r.randrange(6) == 0 else LIMITS + [r.getrandbits(40)])
            else:
                ln = r.choice([0, 1, 3, 32, 32, r.randrange(0, 41)])
                v = content(r, ln) if r.randrange(3) else bytes(r.choice(b"0123456789:,-+ ") for _ in range(ln))
            d[k] = v
        case = {"codec": "ueb", "op": "roundtrip", "dict": {k: (v if isinstance(v, int) else v.hex()) for k, v in d.items()}}
        s = uri.pack_extension(d)
        valid.append(s)
        ctx.case(("ueb-pack", s), kind="ueb-pack")
        B.add("opt_bytes_eqb (ueb_pack %s) (Some %s)" % (ueb_dict_term(d), T.bytes_(s)), "ueb", "pack_extension", case, s.hex())
        # the encoding is a function of the dict, not of its insertion order (its hash is part of the cap)
        items = list(d.items())
        r.shuffle(items)
        if uri.pack_extension(dict(items)) != s or uri.pack_extension(dict(reversed(list(d.items())))) != s:
            ctx.oracle_fail("ueb-pack-depends-on-dict-order", "pack_extension gives different bytes for the same dict built in another order",
                            case=case, expected=s.hex(), observed=uri.pack_extension(dict(items)).hex())
        try:
            d2 = uri.unpack_extension(s)
        except Exception as e:
            d2 = ("raised", type(e).__name__)
        if d2 != d:
            ctx.oracle_fail("ueb-roundtrip", "unpack_extension(pack_extension(d)) != d", case=case, expected=repr(d), observed=repr(d2))
        ueb_decode_case(ctx, B, s, "valid")
        if s and (i % 2 == 0 or ctx.tier == "thorough" or ctx.search):
            ueb_decode_case(ctx, B, s[:-1], "prefix-last-byte", truncated=True)
        if i < ctx.n(4, 60) and 0 < len(s) < 400 and i % 2:
            # every strict prefix: accepted only where it is itself a canonical block (i.e. at an entry boundary)
            for cut in range(len(s)) if len(s) <= 40 else sorted(set(r.randrange(len(s)) for _ in range(40))):
                ueb_decode_case(ctx, B, s[:cut], "prefix", truncated=True)
        if i < 2:
            ctx.sample({"codec": "ueb", "dict": case["dict"], "encoded": s.hex()})
    # pack on keys the regex rejects / values of the other kind (model vs implementation only)
    for i in range(ctx.n(40, 400)):
        r = ctx.rng("uebp", i)
        k = r.choice(["", "a b", "k1", "a:b", "a\n\n", "\n", "size", "codec_name", "é"])
        v = r.choice([b"12", b"x", 7, -3, b""])
        d = {k: v}
        try:
            s = uri.pack_extension(d)
        except AssertionError:
            s = None
        except Exception as e:
            ctx.mismatch("ueb-pack-error-class", "pack_extension raised %s" % type(e).__name__, case={"key": repr(k)}, correspondence="ueb")
            continue
        ctx.case(("ueb-pack1", k, v) if s is not None else None, kind="ueb-pack-odd")
        B.add("opt_bytes_eqb (ueb_pack %s) %s" % (ueb_dict_term(d), opt_bytes(s)), "ueb", "pack_extension({%r: %r})" % (k, v),
              {"codec": "ueb", "op": "pack", "key": repr(k), "value": repr(v)}, None if s is None else s.hex())
    nm = ctx.n(220, 7000)
    for i in range(nm):
        r = ctx.rng("uebm", i)
        s = r.choice(valid)
        m = r.randrange(8)
        kind = "mutate"
        if m == 0 and s:
            # non-canonical length numeral of some entry
            cols = [j for j in range(len(s)) if s[j:j + 1] == b":"]
            if len(cols) >= 2:
                j = cols[1]
                k0 = cols[0]
                num = s[k0 + 1:j]
                num2 = r.choice([b"+" + num, b"0" + num, b" " + num, num + b" ", num[:1] + b"_" + num[1:] if len(num) > 1 else b"0_" + num, b"\t" + num + b"\n", b"-" + num])
                s = s[:k0 + 1] + num2 + s[j:]
                kind = "numeral"
        elif m == 1:
            # two entries: swap / duplicate
            a = uri.pack_extension({"b" * r.randrange(1, 3): rbytes(r, r.randrange(0, 4))})
            b = uri.pack_extension({r.choice(["a", "b", "bb", "c"]): rbytes(r, r.randrange(0, 4))})
            s = r.choice([a + b, b + a, a + a, s + a, a + s])
            kind = "order-dup"
        elif m == 2:
            # negative length crafted so that the assert on ',' passes
            tail = uri.pack_extension({r.choice(["k", "size", "zz"]): r.choice([b"", b"1", b"xy"])})
            junk = rbytes(r, r.randrange(0, 5)).replace(b":", b";")
            s = b"a:-%d:" % (len(tail) + 1) + junk + b"," + tail
            kind = "negative-length"
        elif m == 3:
            k = r.choice([b"size", b"num_segments", b"total_shares"])
            v = r.choice([b" 12", b"+5", b"05", b"-0", b"1_2", b"12 ", b"x", b"", b"--1", b"1.0"])
            s = k + b":%d:" % len(v) + v + b","
            kind = "int-field"
        elif m == 4:
            k = r.choice([b"1", b"", b"a b", b"\xff", b"\xc3\xa9", b"\xc3", b"\xed\xa0\x80", b"\xf4\x90\x80\x80", b"a\n", b"a\n\n", b"\xe2\x82\xac"])
            v = rbytes(r, r.randrange(0, 3))
            s = k + b":%d:" % len(v) + v + b","
            kind = "key"
        else:
            kind, s = mutate(r, s, b"0123456789:,az_-")
        ueb_decode_case(ctx, B, s, kind)
    witnesses = [b"a:+2:XY,", b"a:02:XY,", b"a: 2:XY,", b"a:2 :XY,", b"a:1_0:0123456789,", b"a:-0:,", b"a:-6:XY,k:0:,", b"a:1:x,a:1:y,",
                 b"b:1:x,a:1:y,", b"1:0:,", b":0:,", b"a b:0:,", b"size:3: 12,", b"size:2:+5,", b"size:2:05,", b"size:2:-0,", b"size:3:1_2,"]
    for s in witnesses:
        ueb_decode_case(ctx, B, s, "refuted-witness")


# ---------------------------------------------------------------------------
# lease records
# ---------------------------------------------------------------------------
def lease_term(owner, renew, cancel, exp, nodeid):
    return "(mk_lease %s %s %s %s %s)" % (T.N(owner), T.bytes_(renew), T.bytes_(cancel), T.N(exp), "None" if nodeid is None else "(Some %s)" % T.bytes_(nodeid))


def lease_of(li):
    return (li.owner_num, li.renew_secret, li.cancel_secret, li.get_expiration_time(), li.nodeid)


def run_lease(ctx, B):
    from allmydata.storage.lease import LeaseInfo
    from allmydata.storage import lease_schema
    ctx.correspondence("lease-records")
    n = ctx.n(110, 2500)
    for i in range(n):
        r = ctx.rng("lease", i)
        mutable = bool(i % 2)
        owner = r.choice(LIMITS + [r.getrandbits(32)])
        exp = r.choice(LIMITS + [r.getrandbits(32), 1700000000])
        if r.randrange(5) == 0:
            owner = r.getrandbits(32)
            exp = r.getrandbits(32)
        rl = r.choice([32, 32, 32, 32, 31, 33, 0])
        cl = r.choice([32, 32, 32, 32, 31, 33])
        renew, cancel = content(r, rl), content(r, cl)
        nodeid = content(r, 20) if mutable else None
        li = LeaseInfo(owner_num=owner, renew_secret=renew, cancel_secret=cancel, expiration_time=exp, nodeid=nodeid)
        fits = owner < 2 ** 32 and exp < 2 ** 32 and rl == 32 and cl == 32
        case = {"codec": "lease-mutable" if mutable else "lease-immutable", "op": "roundtrip", "owner_num": owner, "expiration_time": exp,
                "renew_secret": renew.hex(), "cancel_secret": cancel.hex(), "nodeid": None if nodeid is None else nodeid.hex()}
        try:
            data = li.to_mutable_data() if mutable else li.to_immutable_data()
        except struct.error:
            data = None
        ctx.case(("lease", mutable, owner, exp, renew, cancel, nodeid) if data is not None else None, kind="lease-mutable" if mutable else "lease-immutable")
        fn = "lease_to_mutable" if mutable else "lease_to_immutable"
        B.add("opt_list_eqb (%s %s) %s" % (fn, lease_term(owner, renew, cancel, exp, nodeid), opt_bytes(data)), "lease-records",
              "LeaseInfo.to_%s_data" % ("mutable" if mutable else "immutable"), case, None if data is None else data.hex())
        if fits:
            if data is None:
                ctx.oracle_fail("lease-encode-fails", "a lease whose fields fit the record could not be serialised", case=case)
                continue
            back = LeaseInfo.from_mutable_data(data) if mutable else LeaseInfo.from_immutable_data(data)
            if lease_of(back) != lease_of(li) or back != li:
                ctx.oracle_fail("lease-roundtrip", "LeaseInfo.from_%s_data(to_%s_data(l)) != l" % (("mutable",) * 2 if mutable else ("immutable",) * 2),
                                case=case, expected=repr(lease_of(li)), observed=repr(lease_of(back)))
            if len(data) != (li.mutable_size() if mutable else li.immutable_size()):
                ctx.oracle_fail("lease-size", "serialised lease has %d bytes" % len(data), case=case)
            # the schema serializers: v1 is the identity wrapper, v2 hashes the secrets with blake2b
            ser1 = lease_schema.v1_mutable if mutable else lease_schema.v1_immutable
            ser2 = lease_schema.v2_mutable if mutable else lease_schema.v2_immutable
            if ser1.serialize(li) != data or ser1.unserialize(data) != li:
                ctx.oracle_fail("lease-serializer-v1", "the v1 lease serializer is not to_/from_data", case=case)
            h = ser2.unserialize(ser2.serialize(li))
            from nacl.hash import blake2b
            from nacl.encoding import RawEncoder
            hr = blake2b(renew, digest_size=32, encoder=RawEncoder)
            hc = blake2b(cancel, digest_size=32, encoder=RawEncoder)
            want = LeaseInfo(owner_num=owner, renew_secret=hr, cancel_secret=hc, expiration_time=exp, nodeid=nodeid)
            if ser2.serialize(h) != ser2.serialize(li) or h._lease_info != want or not h.is_renew_secret(renew) or (renew != cancel and h.is_renew_secret(cancel)):
                ctx.oracle_fail("lease-serializer-v2", "the v2 (hashed) lease serializer does not round-trip", case=case)
            B.add("opt_list_eqb (%s %s) %s" % (fn, lease_term(owner, hr, hc, exp, nodeid), opt_bytes(ser2.serialize(li))), "lease-records",
                  "v2 lease serializer output", case, ser2.serialize(li).hex())
        if data is not None:
            for wrong, wk in (((data[:-1], "short"), (data + b"\x00", "long"), (data[1:], "short-front")) if (ctx.tier == "thorough" or ctx.search) else ((data[:-1], "short"), (data + b"\x00", "long"))[i % 2:][:1] if i % 2 == 0 or i % 3 == 0 else ()):
                try:
                    lw = LeaseInfo.from_mutable_data(wrong) if mutable else LeaseInfo.from_immutable_data(wrong)
                    gotw = lease_of(lw)
                except struct.error:
                    gotw = None
                ctx.case(None, kind="lease-record-" + wk)
                wcase = {"codec": case["codec"], "op": "decode", "input": wrong.hex(), "mutation": wk}
                if gotw is not None:
                    ctx.oracle_fail("lease-record-accepts-wrong-size", "a %d-byte lease record (valid record, one byte %s) was decoded" % (len(wrong), wk), case=wcase,
                                    expected="struct.error", observed=repr(gotw))
                B.add("opt_lease_eqb (%s %s) %s" % ("lease_from_mutable" if mutable else "lease_from_immutable", T.bytes_(wrong),
                                                     "None" if gotw is None else "(Some %s)" % lease_term(*gotw)), "lease-records",
                      "LeaseInfo.from_*_data of a record one byte %s" % wk, wcase, repr(gotw))
        # decoding arbitrary records of the right and wrong sizes
        size = 92 if mutable else 72
        ln = r.choice([size, size, size, size - 1, size + 1, 0])
        raw = content(r, ln) if r.randrange(2) else (data or b"")[:ln].ljust(ln, b"\x01")
        dcase = {"codec": case["codec"], "op": "decode", "input": raw.hex()}
        try:
            li2 = LeaseInfo.from_mutable_data(raw) if mutable else LeaseInfo.from_immutable_data(raw)
            got = lease_of(li2)
        except struct.error:
            li2, got = None, None
        ctx.case(("lease-dec", mutable, raw) if got is not None else None, kind="lease-decode")
        fnd = "lease_from_mutable" if mutable else "lease_from_immutable"
        B.add("opt_lease_eqb (%s %s) %s" % (fnd, T.bytes_(raw), "None" if got is None else "(Some %s)" % lease_term(*got)), "lease-records",
              "LeaseInfo.from_%s_data of %d bytes" % ("mutable" if mutable else "immutable", ln), dcase, repr(got))
        if li2 is not None:
            again = li2.to_mutable_data() if mutable else li2.to_immutable_data()
            if again != raw:
                ctx.oracle_fail("lease-decode-not-canonical", "a %d-byte record decodes to a lease that serialises differently" % ln, case=dcase,
                                expected=raw.hex(), observed=again.hex())
        if i < 2 and data is not None:
            ctx.sample({"codec": case["codec"], "lease": case, "encoded": data.hex()})


# ---------------------------------------------------------------------------
# container headers (through the schema objects and through real files)
# ---------------------------------------------------------------------------
def run_headers(ctx, B):
    from allmydata.storage import immutable_schema, mutable_schema
    from allmydata.storage.immutable import ShareFile
    from allmydata.storage.mutable import MutableShareFile
    from allmydata.storage.common import UnknownImmutableContainerVersionError, UnknownMutableContainerVersionError
    from allmydata.storage.lease import LeaseInfo
    ctx.correspondence("container-headers")
    d = env.subdir("c38-files")
    ischemas = {s.version: s for s in immutable_schema.ALL_SCHEMAS}
    mschemas = {s.version: s for s in mutable_schema.ALL_SCHEMAS}
    # sizes and offsets the classes compute, against the regenerated layout
    consts = [("immutable_LEASE_SIZE", ShareFile.LEASE_SIZE), ("mutable_LEASE_SIZE", MutableShareFile.LEASE_SIZE),
              ("mutable_HEADER_SIZE", MutableShareFile.HEADER_SIZE), ("mutable_DATA_OFFSET", MutableShareFile.DATA_OFFSET),
              ("mutable_DATA_LENGTH_OFFSET", MutableShareFile.DATA_LENGTH_OFFSET), ("mutable_EXTRA_LEASE_OFFSET", MutableShareFile.EXTRA_LEASE_OFFSET),
              ("mschema_EXTRA_LEASE_OFFSET", mutable_schema._EXTRA_LEASE_OFFSET), ("mschema_HEADER_SIZE", mutable_schema._HEADER_SIZE),
              ("lease_immutable_size", LeaseInfo().immutable_size()), ("lease_mutable_size", LeaseInfo().mutable_size())]
    for name, val in consts:
        ctx.case(("const", name), kind="layout-constant")
        B.add("(%s =? %s)" % (name, T.N(val)), "container-headers", "layout constant %s" % name, {"constant": name}, val)
    for v, sch in sorted(mschemas.items()):
        ctx.case(("magic", v), kind="mutable-magic")
        B.add("list_N_eqb (mut_magic %s) %s" % (T.N(v), T.bytes_(sch._magic)), "container-headers", "mutable magic v%d" % v, {"version": v}, sch._magic.hex())
    n = ctx.n(42, 800)
    for i in range(n):
        r = ctx.rng("hdr", i)
        # ---- immutable: schema.header(max_size) for any size, parse back ----
        v = r.choice(sorted(ischemas))
        max_size = r.choice(LIMITS + [r.getrandbits(20), r.getrandbits(40)])
        case = {"codec": "immutable-header", "op": "header", "version": v, "max_size": max_size}
        try:
            h = ischemas[v].header(max_size)
        except struct.error:
            h = None
        ctx.case(("ih", v, max_size) if h is not None else None, kind="immutable-header")
        B.add("opt_list_eqb (imm_header %s %s) %s" % (T.N(v), T.N(max_size), opt_bytes(h)), "container-headers", "immutable header(%d)" % max_size, case,
              None if h is None else h.hex())
        if h is None:
            ctx.oracle_fail("immutable-header-encode-fails", "immutable_schema header(max_size=%d) raised struct.error" % max_size, case=case)
        else:
            ver, unused, nl = struct.unpack(">LLL", h)
            if (ver, nl) != (v, 0) or len(h) != 12 or (max_size < 2 ** 32 and unused != max_size):
                ctx.oracle_fail("immutable-header-roundtrip", "immutable header does not read back (version, size, 0 leases)", case=case,
                                expected=[v, min(max_size, 2 ** 32 - 1), 0], observed=[ver, unused, nl])
        # ---- immutable: a real file, leases appended, reopened ----
        if i % 3 == 0:
            size = r.choice([0, 1, 5, 100])
            fn = os.path.join(d, "imm-%d" % i)
            sf = ShareFile(fn, max_size=size, create=True, schema=ischemas[v])
            payload = content(r, size)
            sf.write_share_data(0, payload)
            leases = []
            for _ in range(r.choice([0, 1, 2, 5])):
                li = LeaseInfo(owner_num=r.choice([1, 2 ** 32 - 1, r.getrandbits(32)]), renew_secret=rbytes(r, 32), cancel_secret=rbytes(r, 32),
                               expiration_time=r.choice([0, 2 ** 32 - 1, r.getrandbits(32)]), nodeid=None)
                sf.add_lease(li)
                leases.append(li)
            raw = open(fn, "rb").read()
            sf2 = ShareFile(fn)
            got = list(sf2.get_leases())
            fcase = {"codec": "immutable-file", "op": "reopen", "version": v, "size": size, "leases": len(leases)}
            ctx.case(("if", v, size, len(leases), raw), kind="immutable-file")
            ok = sf2._schema.version == v and sf2.get_length() == size and sf2.read_share_data(0, size + 5) == payload and len(got) == len(leases)
            for a, b in zip(got, leases):
                if v == 1:
                    ok = ok and a == b
                else:
                    ok = ok and a.is_renew_secret(b.renew_secret) and a.owner_num == b.owner_num and a.get_expiration_time() == b.get_expiration_time()
            if not ok:
                ctx.oracle_fail("immutable-file-roundtrip", "an immutable share file does not read back its version, data and leases", case=fcase)
            B.add("opt_triple_eqb (imm_header_parse %s) (Some (%s, %s, %s))" % (T.bytes_(raw[:12]), T.N(v), T.N(min(size, 2 ** 32 - 1)), T.N(len(leases))),
                  "container-headers", "header of a real immutable share file", fcase, raw[:12].hex())
            for j, li in enumerate(leases):
                rec = raw[12 + size + 72 * j: 12 + size + 72 * (j + 1)]
                want = ischemas[v].lease_serializer.serialize(li)
                if rec != want:
                    ctx.oracle_fail("immutable-file-lease-offset", "lease %d is not at data_offset + size + %d*LEASE_SIZE" % (j, j), case=fcase)
                B.add("opt_lease_eqb (lease_from_immutable %s) (Some %s)" % (T.bytes_(rec), lease_term(*lease_of(LeaseInfo.from_immutable_data(rec)))),
                      "container-headers", "lease record inside a real immutable share file", fcase, rec.hex())
            # corrupt the version field
            bad = struct.pack(">L", r.choice([0, 3, 2 ** 32 - 1, 256])) + raw[4:]
            fnb = fn + "-bad"
            with open(fnb, "wb") as f:
                f.write(bad)
            try:
                ShareFile(fnb)
                acc = True
            except UnknownImmutableContainerVersionError:
                acc = False
            ctx.case(None, kind="immutable-file-bad-version")
            if acc:
                ctx.oracle_fail("immutable-file-accepts-unknown-version", "ShareFile opened a container with an unknown version number", case=fcase)
            B.add("opt_triple_eqb (imm_header_parse %s) None" % T.bytes_(bad[:12]), "container-headers", "immutable header with unknown version", fcase, bad[:12].hex())
        # ---- random 12-byte immutable headers ----
        rawh = struct.pack(">L", r.choice([0, 1, 2, 3, r.getrandbits(32)])) + rbytes(r, r.choice([8, 8, 8, 7, 9]))
        try:
            if len(rawh) != 12:
                raise struct.error("size")
            ver, unused, nl = struct.unpack(">LLL", rawh)
            parsed = (ver, unused, nl) if immutable_schema.schema_from_version(ver) is not None else None
        except struct.error:
            parsed = None
        ctx.case(("ihp", rawh) if parsed else None, kind="immutable-header-parse")
        B.add("opt_triple_eqb (imm_header_parse %s) %s" % (T.bytes_(rawh), "None" if parsed is None else "(Some (%s, %s, %s))" % tuple(T.N(x) for x in parsed)),
              "container-headers", "parse of a 12-byte immutable header", {"codec": "immutable-header", "op": "parse", "input": rawh.hex()}, repr(parsed))
        # ---- mutable: create a real container, read everything back ----
        mv = r.choice(sorted(mschemas))
        nodeid = content(r, 20)
        we = content(r, 32)
        fn = os.path.join(d, "mut-%d" % i)
        msf = MutableShareFile(fn, schema=mschemas[mv])
        msf.create(nodeid, we)
        raw = open(fn, "rb").read()
        mcase = {"codec": "mutable-header", "op": "create", "version": mv, "nodeid": nodeid.hex(), "write_enabler": we.hex()}
        ctx.case(("mh", mv, nodeid, we), kind="mutable-header")
        B.add("opt_list_eqb (mut_header %s %s %s) (Some %s)" % (T.N(mv), T.bytes_(nodeid), T.bytes_(we), T.bytes_(raw)), "container-headers",
              "bytes of a freshly created mutable container", mcase, raw.hex())
        m2 = MutableShareFile(fn)
        with open(fn, "rb") as f:
            rwe, rnid = m2._read_write_enabler_and_nodeid(f)
            dl = m2._read_data_length(f)
            elo = m2._read_extra_lease_offset(f)
            nel = m2._read_num_extra_leases(f)
        if (m2._schema.version, rwe, rnid, dl, elo, nel, len(raw)) != (mv, we, nodeid, 0, MutableShareFile.DATA_OFFSET, 0, MutableShareFile.DATA_OFFSET + 4):
            ctx.oracle_fail("mutable-header-roundtrip", "a freshly created mutable container does not read back its header fields", case=mcase,
                            expected=[mv, we.hex(), nodeid.hex(), 0, 468, 0, 472], observed=[m2._schema.version, rwe.hex(), rnid.hex(), dl, elo, nel, len(raw)])
        hdr_term = "(Some (mk_mut_hdr %s %s %s %s %s))" % (T.N(mv), T.bytes_(rnid), T.bytes_(rwe), T.N(dl), T.N(elo))
        B.add("opt_mut_hdr_eqb (mut_header_parse %s) %s" % (T.bytes_(raw[:100]), hdr_term), "container-headers", "parse of a real mutable header", mcase, raw[:100].hex())
        # leases in the four header slots and beyond, written through the API, found at the modelled offsets
        if i % 3 == 1:
            k = r.choice([1, 4, 5])
            lls = []
            for j in range(k):
                li = LeaseInfo(owner_num=j + 1, renew_secret=rbytes(r, 32), cancel_secret=rbytes(r, 32), expiration_time=r.choice([1, 2 ** 32 - 1, r.getrandbits(32)]), nodeid=content(r, 20))
                m2.add_lease(10 ** 9, li)
                lls.append(li)
            raw2 = open(fn, "rb").read()
            got = list(m2.get_leases())
            okm = len(got) == k
            for a, b in zip(got, lls):
                okm = okm and (a == b if mv == 1 else (a.is_renew_secret(b.renew_secret) and a.nodeid == b.nodeid and a.get_expiration_time() == b.get_expiration_time()))
            if not okm:
                ctx.oracle_fail("mutable-file-lease-roundtrip", "leases added to a mutable container do not read back", case=mcase)
            ctx.case(("ml", mv, k, raw2), kind="mutable-file-leases")
            for j, li in enumerate(lls):
                off = 100 + 92 * j if j < 4 else 468 + 4 + 92 * (j - 4)
                rec = raw2[off:off + 92]
                if rec != mschemas[mv].lease_serializer.serialize(li):
                    ctx.oracle_fail("mutable-file-lease-offset", "lease %d is not at its documented offset %d" % (j, off), case=mcase)
                B.add("opt_lease_eqb (lease_from_mutable %s) (Some %s)" % (T.bytes_(rec), lease_term(*lease_of(LeaseInfo.from_mutable_data(rec)))),
                      "container-headers", "lease record inside a real mutable container", mcase, rec.hex())
        # corrupted magic / header
        j = r.randrange(0, 40)
        badh = bytearray(raw[:100])
        badh[j] ^= r.choice([1, 0x20, 0xff])
        if r.randrange(4) == 0:
            badh = badh[:r.choice([99, 31, 0])]
        badh = bytes(badh)
        fnb = fn + "-bad"
        with open(fnb, "wb") as f:
            f.write(badh + raw[100:])
        try:
            mb = MutableShareFile(fnb)
            with open(fnb, "rb") as f:
                bwe, bnid = mb._read_write_enabler_and_nodeid(f)
                bdl = mb._read_data_length(f)
                belo = mb._read_extra_lease_offset(f)
            res = (mb._schema.version, bnid, bwe, bdl, belo)
        except (UnknownMutableContainerVersionError, struct.error):
            res = None
        bcase = {"codec": "mutable-header", "op": "parse", "input": badh.hex()}
        ctx.case(("mhb", badh) if res else None, kind="mutable-header-corrupt")
        if res is not None and j < 32 and len(badh) == 100:
            ctx.oracle_fail("mutable-header-accepts-bad-magic", "a container whose magic was altered at byte %d was opened" % j, case=bcase)
        if len(badh) == 100:
            exp = "None" if res is None else "(Some (mk_mut_hdr %s %s %s %s %s))" % (T.N(res[0]), T.bytes_(res[1]), T.bytes_(res[2]), T.N(res[3]), T.N(res[4]))
            B.add("opt_mut_hdr_eqb (mut_header_parse %s) %s" % (T.bytes_(badh), exp), "container-headers", "parse of a corrupted mutable header", bcase, repr(res))
        # a container file cut inside its header (in particular one byte short of it) must not be read as a container
        for cut in ((99, r.randrange(32, 99), 11) if (ctx.tier == "thorough" or ctx.search) else (99, 11) if i % 2 == 0 else ()):
            for codec, whole, hsize in (("mutable-header", raw, 100), ("immutable-header", ischemas[v].header(7) + b"payload", 12)):
                if cut >= hsize:
                    continue
                fnt = fn + "-cut"
                with open(fnt, "wb") as f:
                    f.write(whole[:cut])
                try:
                    if codec == "mutable-header":
                        mt = MutableShareFile(fnt)
                        with open(fnt, "rb") as f:
                            twe, tnid = mt._read_write_enabler_and_nodeid(f)
                            tres = (mt._schema.version, tnid, twe, mt._read_data_length(f), mt._read_extra_lease_offset(f))
                    else:
                        st = ShareFile(fnt)
                        tres = (st._schema.version, st._num_leases)
                except (UnknownMutableContainerVersionError, UnknownImmutableContainerVersionError, struct.error):
                    tres = None
                tcase = {"codec": codec, "op": "parse", "input": whole[:cut].hex(), "mutation": "truncated-to-%d" % cut}
                ctx.case(None, kind=codec + "-truncated")
                if tres is not None:
                    ctx.oracle_fail(codec + "-accepts-truncated", "a container file cut to %d bytes (header size %d) was opened and its header fields read: %r" % (cut, hsize, tres),
                                    case=tcase, expected="rejection", observed=repr(tres))
                if codec == "mutable-header":
                    B.add("opt_mut_hdr_eqb (mut_header_parse %s) None" % T.bytes_(whole[:cut]), "container-headers", "mutable header cut to %d bytes" % cut, tcase, repr(tres))
                else:
                    B.add("opt_triple_eqb (imm_header_parse %s) None" % T.bytes_(whole[:cut]), "container-headers", "immutable header cut to %d bytes" % cut, tcase, repr(tres))
        if i < 1:
            ctx.sample({"codec": "mutable-header", "version": mv, "header": raw[:100].hex()})


def run_recognition(ctx, B):
    """Header recognition: schema_from_header / is_valid_header / MutableShareFile / get_share_file (and the
    immutable counterpart) accept a header only when the complete magic (version field) is there and intact."""
    from allmydata.storage import immutable_schema, mutable_schema
    from allmydata.storage.immutable import ShareFile
    from allmydata.storage.mutable import MutableShareFile
    from allmydata.storage.shares import get_share_file
    from allmydata.storage.common import UnknownImmutableContainerVersionError, UnknownMutableContainerVersionError
    ctx.correspondence("header-recognition")
    d = env.subdir("c38-recog")
    thorough = ctx.tier == "thorough" or ctx.search

    def recognise(data):
        """(schema_from_header version or None, is_valid_header)"""
        sch = mutable_schema.schema_from_header(data)
        return (None if sch is None else sch.version), bool(MutableShareFile.is_valid_header(data))

    def model_term(data, ver):
        return "match mut_schema_from_header mschema_versions %s, %s with Some a, Some b => a =? b | None, None => true | _, _ => false end" % (
            T.bytes_(data), "None" if ver is None else "(Some %s)" % T.N(ver))

    for sch in sorted(mutable_schema.ALL_SCHEMAS, key=lambda x: x.version):
        v = sch.version
        for trial in range(ctx.n(2, 12)):
            r = ctx.rng("recog", v, trial)
            nodeid, we = (b"\x00" * 20, b"\x00" * 32) if trial == 0 else (content(r, 20), content(r, 32))
            header = sch.header(nodeid, we)
            fixed = header[:MutableShareFile.HEADER_SIZE]
            # every proper prefix of the magic is rejected; from the full magic on the header is recognised as ITS version
            for cut in range(0, len(fixed) + 1):
                if cut > 33 and not thorough and cut not in (34, 52, 99, 100):
                    continue
                data = fixed[:cut]
                ver, valid = recognise(data)
                case = {"codec": "mutable-recognition", "op": "schema_from_header", "input": data.hex(), "version": v, "cut": cut}
                ctx.case(("recog", v, data) if ver is not None else None, kind="mutable-recognition-prefix")
                if cut < 32 and (ver is not None or valid):
                    ctx.oracle_fail("mutable-header-accepts-truncated", "the first %d byte(s) %r of a v%d mutable container header were recognised (schema_from_header -> %s, is_valid_header -> %s)" % (
                        cut, data, v, "v%s" % ver if ver is not None else None, valid), case=case, expected="None / False", observed=[ver, valid])
                if cut >= 32 and (ver != v or not valid):
                    ctx.oracle_fail("mutable-header-not-recognised", "a v%d mutable container header (first %d bytes) was recognised as %r" % (v, cut, ver), case=case, expected=v, observed=[ver, valid])
                if trial == 0 or cut in (0, 1, 25, 26, 27, 31, 32):
                    B.add(model_term(data, ver), "header-recognition", "schema_from_header of the first %d bytes of a v%d header" % (cut, v), case, ver)
                # the same through real files: MutableShareFile(filename) and get_share_file(filename)
                if cut < 32 and (trial == 0 or cut in (0, 31)):
                    fn = os.path.join(d, "cut-%d-%d-%d" % (v, trial, cut))
                    with open(fn, "wb") as f:
                        f.write(data)
                    opened = []
                    try:
                        m = MutableShareFile(fn)
                        opened.append("MutableShareFile v%d" % m._schema.version)
                    except UnknownMutableContainerVersionError:
                        pass
                    try:
                        g = get_share_file(fn)
                        if isinstance(g, MutableShareFile):
                            opened.append("get_share_file -> MutableShareFile v%d" % g._schema.version)
                        else:
                            opened.append("get_share_file -> ShareFile v%d" % g._schema.version)
                    except (UnknownMutableContainerVersionError, UnknownImmutableContainerVersionError, struct.error):
                        pass
                    ctx.case(None, kind="mutable-recognition-file")
                    if opened:
                        ctx.oracle_fail("mutable-header-accepts-truncated", "a %d-byte file holding the start of a v%d mutable header was opened as a container: %s" % (cut, v, ", ".join(opened)),
                                        case=dict(case, op="open-file"), expected="Unknown*ContainerVersionError", observed=opened)
            # every single-bit mutation of the magic is rejected (never read as this or another version)
            bits = range(256) if (trial == 0 or thorough) else [r.randrange(256) for _ in range(24)]
            for bit in bits:
                pos = bit // 8
                data = fixed[:pos] + bytes([fixed[pos] ^ (1 << (bit % 8))]) + fixed[pos + 1:]
                if r.randrange(3) == 0:
                    data = data[:32]
                ver, valid = recognise(data)
                case = {"codec": "mutable-recognition", "op": "schema_from_header", "input": data.hex(), "version": v, "flipped_bit": bit}
                ctx.case(None, kind="mutable-recognition-bitflip")
                if ver is not None or valid:
                    ctx.oracle_fail("mutable-header-accepts-bad-magic", "a v%d mutable header with bit %d of the magic flipped was recognised as %r" % (v, bit, ver), case=case,
                                    expected="None / False", observed=[ver, valid])
                if trial == 0 and bit % 8 == 3 or bit in (200, 201, 202):
                    B.add(model_term(data, ver), "header-recognition", "schema_from_header with bit %d of the magic flipped" % bit, case, ver)
    # immutable: is_valid_header looks at the 4-byte version field only
    for sch in sorted(immutable_schema.ALL_SCHEMAS, key=lambda x: x.version):
        v = sch.version
        header = sch.header(ctx.rng("irecog", v).choice([0, 1, 1000, 2 ** 32]))

        def ivalid(data):
            try:
                return bool(ShareFile.is_valid_header(data))
            except struct.error:
                return False
        for cut in range(0, 13):
            data = header[:cut]
            ok = ivalid(data)
            case = {"codec": "immutable-recognition", "op": "is_valid_header", "input": data.hex(), "version": v, "cut": cut}
            ctx.case(("irecog", v, data) if ok else None, kind="immutable-recognition-prefix")
            if cut < 4 and ok:
                ctx.oracle_fail("immutable-header-accepts-truncated", "the first %d byte(s) of a v%d immutable header were accepted by is_valid_header" % (cut, v), case=case)
            if cut >= 4 and not ok:
                ctx.oracle_fail("immutable-header-not-recognised", "is_valid_header rejected the first %d bytes of a v%d immutable header" % (cut, v), case=case)
            if cut == 12:
                B.add("opt_triple_eqb (imm_header_parse %s) (Some (%s, %s, 0))" % (T.bytes_(data), T.N(v), T.N(struct.unpack(">L", data[4:8])[0])),
                      "header-recognition", "immutable header recognised", case, ok)
            if cut < 12:
                fn = os.path.join(d, "icut-%d-%d" % (v, cut))
                with open(fn, "wb") as f:
                    f.write(data)
                try:
                    ShareFile(fn)
                    opened = True
                except (UnknownImmutableContainerVersionError, struct.error):
                    opened = False
                if opened:
                    ctx.oracle_fail("immutable-header-accepts-truncated", "a %d-byte file holding the start of a v%d immutable header was opened as a ShareFile" % (cut, v), case=dict(case, op="open-file"))
        for bit in range(32):
            data = bytearray(header)
            data[bit // 8] ^= 1 << (bit % 8)
            data = bytes(data)
            ok = ivalid(data)
            sv = immutable_schema.schema_from_version(struct.unpack(">L", data[:4])[0])
            case = {"codec": "immutable-recognition", "op": "is_valid_header", "input": data.hex(), "version": v, "flipped_bit": bit}
            ctx.case(None, kind="immutable-recognition-bitflip")
            if ok or sv is not None:
                ctx.oracle_fail("immutable-header-accepts-bad-version", "a v%d immutable header with bit %d of the version field flipped was accepted" % (v, bit), case=case)
            if bit % 3 == 0 or bit < 2:
                B.add("opt_triple_eqb (imm_header_parse %s) None" % T.bytes_(data), "header-recognition", "immutable header with a version bit flipped", case, ok)



# ---------------------------------------------------------------------------
# capability strings: what is not decoded is handed back exactly as given
# ---------------------------------------------------------------------------
WRITEABLE_SCHEMES = (b"URI:SSK:", b"URI:MDMF:", b"URI:DIR2:", b"URI:DIR2-MDMF:")
MUTABLE_RO_SCHEMES = (b"URI:SSK-RO:", b"URI:MDMF-RO:", b"URI:DIR2-RO:", b"URI:DIR2-MDMF-RO:")
CAP_MARKERS = (b"", b"ro.", b"imm.", b"ro.ro.", b"imm.imm.", b"ro.imm.", b"imm.ro.")


def make_caps(r):
    from allmydata import uri
    key, ueb, fp, wk = rbytes(r, 16), rbytes(r, 32), rbytes(r, 32), rbytes(r, 16)
    k = r.randrange(1, 20)
    n = r.randrange(k, 40)
    size = r.choice([56, 1000, 2 ** 32, 2 ** 40 + 7, r.randrange(56, 2 ** 50)])
    chk = uri.CHKFileURI(key, ueb, k, n, size)
    lit = uri.LiteralFileURI(rbytes(r, r.randrange(0, 56)))
    ssk = uri.WriteableSSKFileURI(wk, fp)
    mdmf = uri.WriteableMDMFFileURI(wk, fp)
    caps = [chk, chk.get_verify_cap(), lit, ssk, ssk.get_readonly(), ssk.get_verify_cap(),
            mdmf, mdmf.get_readonly(), mdmf.get_verify_cap(),
            uri.DirectoryURI(ssk), uri.ReadonlyDirectoryURI(ssk.get_readonly()), uri.DirectoryURIVerifier(ssk.get_verify_cap()),
            uri.ImmutableDirectoryURI(chk), uri.ImmutableDirectoryURIVerifier(chk.get_verify_cap()), uri.LiteralDirectoryURI(lit),
            uri.MDMFDirectoryURI(mdmf), uri.ReadonlyMDMFDirectoryURI(mdmf.get_readonly()), uri.MDMFDirectoryURIVerifier(mdmf.get_verify_cap())]
    return [c.to_string() for c in caps]


def cap_case(ctx, text, marker, deep, intact):
    from allmydata import uri
    full = marker + text
    case = {"codec": "cap-string", "op": "from_string", "input": full.hex(), "text": full.decode("latin-1"), "deep_immutable": deep,
            "marker": marker.decode(), "intact": intact}
    try:
        r = uri.from_string(full, deep_immutable=deep, name=u"c38")
    except Exception:
        ctx.case(None, kind="cap-raises")          # a refusal; which texts are refused is C15's subject
        return
    back = r.to_string()
    opaque = isinstance(r, uri.UnknownURI)
    ctx.case(("cap", full, deep) if not opaque else None, kind="cap-opaque" if opaque else "cap-typed")
    single = marker in (b"", b"ro.", b"imm.")
    can_be_mutable = can_be_writeable = not deep
    if marker == b"imm.":
        can_be_mutable = can_be_writeable = False
    elif marker == b"ro.":
        can_be_writeable = False
    contradicted = single and intact and ((text.startswith(WRITEABLE_SCHEMES) and not can_be_writeable)
                                          or (text.startswith(MUTABLE_RO_SCHEMES) and not can_be_mutable))
    if opaque:
        if back != full:
            ctx.oracle_fail("cap-opaque-text-not-preserved",
                            "uri.from_string(%r, deep_immutable=%s) did not decode the text (UnknownURI, error %s) but its to_string() is %r: the rejected text is read as a different value" % (
                                full, deep, type(r.get_error()).__name__ if r.get_error() else None, back),
                            case=case, expected=full.decode("latin-1"), observed=back.decode("latin-1"))
        if contradicted and r.get_error() is None:
            ctx.oracle_fail("cap-contradicted-marker-without-error", "uri.from_string(%r, deep_immutable=%s) is opaque but carries no error although the cap contradicts its marker/context" % (full, deep), case=case)
        if single and intact and not contradicted:
            ctx.oracle_fail("cap-intact-not-decoded", "uri.from_string(%r, deep_immutable=%s) did not decode an intact, permitted cap" % (full, deep), case=case)
    else:
        if contradicted:
            ctx.oracle_fail("cap-contradicted-marker-decoded", "uri.from_string(%r, deep_immutable=%s) decoded a cap that contradicts its marker/context into %s" % (full, deep, type(r).__name__),
                            case=case, expected="UnknownURI with an error", observed=type(r).__name__)
        if intact and single and back != text:
            ctx.oracle_fail("cap-roundtrip", "uri.from_string(%r).to_string() = %r" % (full, back), case=case, expected=text.decode("latin-1"), observed=back.decode("latin-1"))


def run_caps(ctx):
    """18 cap kinds x markers (none, ro., imm., doubled) x intact/damaged x deep_immutable on/off."""
    rounds = ctx.n(2, 25)
    for i in range(rounds):
        r = ctx.rng("caps", i)
        caps = make_caps(r)
        for ci, text in enumerate(caps):
            for marker in CAP_MARKERS:
                for deep in (False, True):
                    cap_case(ctx, text, marker, deep, True)
                    # damaged: body character changed / cut / extended / scheme name altered
                    m = r.randrange(5)
                    body_at = text.index(b":", 4) + 1
                    if m == 0 and len(text) > body_at:
                        j = r.randrange(body_at, len(text))
                        bad = text[:j] + bytes([r.choice(b"!189 AZ:")]) + text[j + 1:]
                    elif m == 1:
                        bad = text[:r.randrange(body_at, len(text) + 1) - 1] if len(text) > body_at else text[:-1]
                    elif m == 2:
                        bad = text + r.choice([b":", b"x", b":1", b" "])
                    elif m == 3:
                        bad = text[:body_at] + b"" + text[body_at + r.randrange(1, 4):]
                    else:
                        bad = text[:body_at]
                    cap_case(ctx, bad, marker, deep, False)
    for text in (b"", b"URI:", b"ro.", b"imm.", b"http://example/", b"x-tahoe-future-test-writeable:abc", b"x-tahoe-future-test-mutable:abc", b"URI:FUTURE:abc"):
        for marker in CAP_MARKERS:
            for deep in (False, True):
                cap_case(ctx, text, marker, deep, False)



def run_cap_tails(ctx):
    """The canonical-tail clause of every base32 production in the cap grammar: for each cap kind, each base32
    field of its body and each length class of a literal body, all 32 values of the field's last character.
    A value whose unused low bits are zero is another well-formed cap (decodes, and prints back as given); every
    other value must come back opaque (UnknownURI holding the given text) -- never a typed cap, never an exception."""
    from allmydata import uri
    from allmydata.util import base32
    rounds = ctx.n(1, 12)

    def sweep(text, start, end, kindname, marker=b"", deep=False):
        field = text[start:end]
        nbits = 5 * len(field)
        unused = nbits - 8 * (nbits // 8)
        for v in range(32):
            t = text[:end - 1] + B32[v:v + 1] + text[end:]
            full = marker + t
            canonical = (v % (1 << unused) == 0) and len(field) % 8 not in (1, 3, 6)
            case = {"codec": "cap-string", "op": "from_string", "input": full.hex(), "text": full.decode("latin-1"), "cap_kind": kindname,
                    "field": field.decode(), "last_char_value": v, "unused_bits": unused, "deep_immutable": deep}
            try:
                r = uri.from_string(full, deep_immutable=deep, name=u"c38")
            except Exception as e:
                ctx.case(None, kind="cap-tail-raises")
                ctx.oracle_fail("cap-from-string-raises", "uri.from_string(%r) raised %s instead of returning a cap or an UnknownURI" % (full, type(e).__name__),
                                case=case, expected="UnknownURI" if not canonical else "a typed cap", observed=type(e).__name__)
                continue
            opaque = isinstance(r, uri.UnknownURI)
            back = r.to_string()
            ctx.case(("captail", full) if not opaque else None, kind="cap-tail-canonical" if canonical else "cap-tail-noncanonical")
            if opaque and back != full:
                ctx.oracle_fail("cap-opaque-text-not-preserved", "uri.from_string(%r) is opaque but hands back %r" % (full, back), case=case)
            if not opaque and back != t:
                ctx.oracle_fail("cap-noncanonical-base32-accepted",
                                "uri.from_string(%r) decoded to a %s that prints as %r: a %s field whose last character has unused low bits set (value %d, %d unused bit(s)) is read as another cap" % (
                                    full, type(r).__name__, back, kindname, v, unused), case=case, expected="UnknownURI", observed=back.decode("latin-1"))
            elif not opaque and not canonical:
                ctx.oracle_fail("cap-noncanonical-base32-accepted", "uri.from_string(%r) decoded a %s field whose unused low bits are not zero (last character value %d, %d unused bit(s))" % (
                    full, kindname, v, unused), case=case, expected="UnknownURI", observed=type(r).__name__)
            if opaque and canonical and marker == b"" and not deep:
                ctx.oracle_fail("cap-intact-not-decoded", "uri.from_string(%r) did not decode a well-formed %s cap" % (full, kindname), case=case)

    for i in range(rounds):
        r = ctx.rng("captail", i)
        caps = make_caps(r)
        for text in caps:
            parts = text.split(b":")
            kindname = b":".join(parts[:2]).decode()
            if b"LIT" in parts[1]:
                continue
            # base32 fields of the body: 26 characters (128 bits) and 52 characters (256 bits)
            pos = 0
            for j, part in enumerate(parts):
                if j >= 2 and len(part) in (26, 52) and all(c in B32 for c in part):
                    sweep(text, pos, pos + len(part), kindname)
                pos += len(part) + 1
        # literal bodies: every length class (0..4 bytes mod 5), short and long, plain and behind markers
        for n in [1, 2, 3, 4, 5, 6, 7, 8, 9, 10, r.choice([21, 22, 23, 24, 25]), r.choice([51, 52, 53, 54, 55])]:
            body = base32.b2a(rbytes(r, n))
            for prefix in (b"URI:LIT:", b"URI:DIR2-LIT:"):
                text = prefix + body
                sweep(text, len(prefix), len(text), prefix[:-1].decode())
                if n <= 5:
                    sweep(text, len(prefix), len(text), prefix[:-1].decode(), marker=r.choice([b"ro.", b"imm."]), deep=bool(n % 2))
            # bodies of impossible lengths (1, 3, 6 characters mod 8) are never decoded
            for extra in (1, 3, 6):
                bad = b"URI:LIT:" + base32.b2a(rbytes(r, 5 * (n % 3))) + bytes(r.choice(B32) for _ in range(extra))
                cap_case(ctx, bad, b"", False, False)
                try:
                    rr = uri.from_string(bad)
                    if not isinstance(rr, uri.UnknownURI):
                        ctx.oracle_fail("cap-noncanonical-base32-accepted", "uri.from_string(%r) decoded a literal body of impossible length" % bad,
                                        case={"codec": "cap-string", "op": "from_string", "input": bad.hex()})
                except Exception as e:
                    ctx.oracle_fail("cap-from-string-raises", "uri.from_string(%r) raised %s" % (bad, type(e).__name__), case={"codec": "cap-string", "op": "from_string", "input": bad.hex()})



def run(ctx):
    B = Batch(ctx)
    run_base32(ctx, B)
    run_base62(ctx, B)
    run_pyint(ctx, B)
    run_netstring(ctx, B)
    run_ueb(ctx, B)
    run_lease(ctx, B)
    run_headers(ctx, B)
    run_recognition(ctx, B)
    run_caps(ctx)
    run_cap_tails(ctx)
    B.flush()


def replay(ctx, rec):
    """Re-run one recorded case on the implementation and show the model's answer."""
    from allmydata.util import base32, base62
    from allmydata.util.netstring import split_netstring
    from allmydata import uri
    case = rec.get("case") or {}
    codec, op = case.get("codec"), case.get("op")
    out = {"codec": codec, "op": op}
    if "input" not in case:
        out["note"] = "structured case; see the record"
        return out
    s = bytes.fromhex(case["input"])

    def attempt(f):
        try:
            return f()
        except Exception as e:
            return "raised " + type(e).__name__

    if codec == "base32":
        x = attempt(lambda: base32.a2b(s))
        out["implementation"] = {"a2b": x, "b2a(a2b)": attempt(lambda: base32.b2a(x)) if isinstance(x, bytes) else None, "input": s}
        out["model"] = ctx.coq_eval(IMPORTS, "b32_a2b %s" % T.bytes_(s))
        if isinstance(x, bytes) and base32.b2a(x) != s:
            ctx.oracle_fail(b32_classify(s), "a2b accepts a non-canonical string", case=case)
    elif codec == "base62":
        x = attempt(lambda: base62.a2b(s))
        out["implementation"] = {"a2b": x, "b2a(a2b)": attempt(lambda: base62.b2a(x)) if isinstance(x, bytes) else None, "input": s}
        out["model"] = ctx.coq_eval(IMPORTS, "b62_a2b %s" % T.bytes_(s))
        if isinstance(x, bytes) and attempt(lambda: base62.b2a(x)) != s:
            ctx.oracle_fail(b62_classify(s), "a2b accepts a malformed string", case=case)
    elif codec == "netstring":
        tr = case.get("trailer")
        tr = None if tr is None else bytes.fromhex(tr)
        out["implementation"] = attempt(lambda: split_netstring(s, case.get("numstrings", 1), case.get("position", 0), tr))
        out["model"] = ctx.coq_eval(IMPORTS, "split_netstring %s %s %s %s" % (T.bytes_(s), T.N(case.get("numstrings", 1)), T.N(case.get("position", 0)),
                                                                                "None" if tr is None else "(Some %s)" % T.bytes_(tr)))
    elif codec == "ueb":
        d = attempt(lambda: uri.unpack_extension(s))
        out["implementation"] = {"unpack": d, "pack(unpack)": attempt(lambda: uri.pack_extension(d)) if isinstance(d, dict) else None, "input": s}
        out["model"] = ctx.coq_eval(IMPORTS, "ueb_unpack %s" % T.bytes_(s))
        if isinstance(d, dict) and attempt(lambda: uri.pack_extension(d)) != s:
            ctx.oracle_fail(ueb_classify(s), "unpack_extension accepts a non-canonical block", case=case)
    else:
        out["note"] = "see the record for input, expected and observed"
    return out
