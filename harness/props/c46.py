"""C46  Immutable reads always terminate."""
from core import term as T
from props import segq_common as SQ

ID = "C46"
GEN = []
RULE = ("unit cases: the real DownloadNode + Segmentation with 1-4 concurrent reads of a 2..7-segment file, harness fetchers handing the node "
        "real blocks (good, one corrupted -> BadCiphertextHashError, k+1 blocks -> decode failure) or fetch_failed(NotEnoughShares|NoShares|"
        "BadSegmentNumber), consumer pause/resume/stop, wrong segment-size guesses, every queued eventual-send run one at a time, then driven "
        "to quiescence; non-trivial = at least one failed segment or a stop/pause; grid cases: real downloads of files with a wrong crypttext "
        "hash leaf and/or an injected decode failure, deleted/corrupted shares, erroring servers and servers whose connection is lost "
        "(get_buckets fails at once with DeadReferenceError, an already-failed Deferred) leaving fewer than k shares, files whose UEB is longer than the downloader's speculative 2 KiB read (one extra field of 1.5-20 kB), 2-5 reads (sequential and concurrent) on "
        "the same node; non-trivial = a failing segment followed by a further read on the node")
META = {
    "title": "Immutable reads always terminate",
    "level_text": ("Theorems in Coq over a model of DownloadNode's segment-request queue composed with n Segmentation readers: in every "
                   "reachable state pending requests imply an active fetcher for a requested segment and an active fetcher serves a requested "
                   "segment (no_stuck_state), every hungry unfinished reader has a request queued, a delivery queued or a queued "
                   "_maybe_fetch_next; a measure strictly decreases on every step the system takes by itself (progress_measure); after a "
                   "failed process_blocks / fetch_failed the next get_segment starts a fetcher (failed_read_does_not_block_next); with the "
                   "fetcher liveness theorem of C03 (every fair fetcher run ends in process_blocks or fetch_failed) reads terminate.  The "
                   "model with the pre-repair failure branch is shown stuck.  The model is compared state by state with the real classes; "
                   "whole downloads run on a real grid with hung detection as the oracle."),
    "level_note": ("core (partial): Share/ShareFinder timing and hash validation are exercised on the grid only; decoding is synchronous in "
                   "the model as in the harness (thread pool off) - with the pool a cancel can race a running decode, not modelled; a server "
                   "that never answers a block read is outside the property's premise.  Found and repaired: process_blocks' failure "
                   "branch left _active_segment set (known_findings.jsonl)."),
    "technique": "Coq invariants + measure over event sequences; differential run vs the real node/segmentation; grid runs with hung detection",
    "design_ref": "8/C46, 9, A.7",
    "trusted_base": ["harness fetcher standing in for SegmentFetcher at unit level (the real one is covered by C03 and on the grid)"],
    "assumptions": ["fairness of the eventual-send queue; every server answers or fails"],
}

CONFIGS = [
    # (size, k, n, max_segment_size)
    (150, 2, 4, 32),
    (97, 3, 5, 33),
    (64, 1, 2, 16),
    (200, 2, 3, 100),
    (75, 2, 4, 128),
]


def gen_unit_case(r, ci):
    size, k, n, seg = CONFIGS[ci]
    guess_max = r.choice([128 * 1024, 128 * 1024, seg, max(k, seg // 2), seg * 2 + k, 8])
    return {"config": ci, "guess_max": guess_max, "seed": r.getrandbits(32), "steps": r.choice([8, 20, 40, 80]),
            "nreaders": r.choice([1, 2, 2, 3, 4]), "pfail": r.choice([0.0, 0.15, 0.3, 0.5]), "quiesce": r.random() < 0.85}


def drive_unit(case, ctx=None):
    import random
    size, k, n, seg = CONFIGS[case["config"]]
    m = SQ.material(size, k, n, seg)
    r = random.Random(case["seed"])
    d = SQ.Drive(m, case["guess_max"])
    terms = []
    events = []
    try:
        def do(ev):
            t = d.apply(ev)
            if t:
                events.append(ev)
                terms.extend(t)
            return bool(t)

        def rand_read():
            bounds = sorted(set([0, 1, 15, 16, 17, m.segsize - 1, m.segsize, m.segsize + 1, 2 * m.segsize, m.size - 1, m.size, m.size + 3]))
            off = r.choice(bounds + [r.randrange(m.size + 2)])
            sz = r.choice([None, 0, 1, 16, m.segsize, m.segsize + 1, m.size, m.size + 9, r.randrange(1, m.size + 1)])
            script = {}
            for _ in range(r.choice([0, 0, 0, 1, 2])):
                script[r.randrange(0, 4)] = r.choice(["pause", "pause", "stop"])
            return ("read", off, sz, script)

        def fetcher_event():
            x = r.random()
            if x < case["pfail"]:
                y = r.random()
                if y < 0.4:
                    return ("blocks", False, "EBadCiphertext", None)
                if y < 0.55:
                    return ("blocks", False, "EDecode", None)
                if y < 0.8:
                    return ("failed", r.choice(["ENotEnough", "ENoShares"]))
                return ("failed", "EBadSegNum")
            shn = sorted(r.sample(sorted(m.blocks), m.k))
            return ("blocks", True, "EOther", shn)

        nread = 0
        for _ in range(case["steps"]):
            x = r.random()
            if nread < case["nreaders"] and (nread == 0 or x < 0.12):
                do(rand_read())
                nread += 1
            elif x < 0.45:
                do(("run",))
            elif x < 0.55:
                do(("learn",))
            elif x < 0.80:
                if d.node._active_segment is not None and d.node.segment_size is None and r.random() < 0.8:
                    do(("learn",))
                ev = fetcher_event()
                if not do(ev) and ev[0] == "failed" and ev[1] == "EBadSegNum":
                    do(("failed", "ENotEnough"))
                elif not d.queue and d.node._active_segment is not None and d.node.segment_size is not None \
                        and d.node._active_segment.segnum >= m.numsegs:
                    do(("failed", "EBadSegNum"))
            elif x < 0.86 and d.readers:
                do(("pause", r.randrange(len(d.readers))))
            elif x < 0.95 and d.readers:
                do(("resume", r.randrange(len(d.readers))))
            elif d.readers:
                do(("stop", r.randrange(len(d.readers))))
        stuck = None
        if case["quiesce"]:
            # fair completion: run what is queued, let the active fetcher finish (successfully),
            # resume paused readers; a read that is still unfinished when nothing is left is stuck
            guard = 0
            while guard < 600:
                guard += 1
                if d.queue:
                    do(("run",))
                    continue
                a = d.node._active_segment
                if a is not None and a.running:
                    if d.node.segment_size is None:
                        do(("learn",))
                    if a.segnum >= m.numsegs:
                        do(("failed", "EBadSegNum"))
                    else:
                        do(fetcher_event() if r.random() < 0.5 else ("blocks", True, "EOther", None))
                    continue
                paused = [rd["i"] for rd in d.readers if rd["result"] is None and rd["seg"] is not None and not rd["seg"]._hungry]
                if paused:
                    do(("resume", paused[0]))
                    continue
                break
            unfinished = [rd["i"] for rd in d.readers if rd["result"] is None]
            if unfinished:
                a = d.node._active_segment
                stuck = {"readers": unfinished, "pending_requests": [t[0] for t in d.node._segment_requests],
                         "active_segment": None if a is None else [a.segnum, "running" if a.running else "stopped"]}
        obs = d.observe()
        return m, d.guess, events, terms, obs, stuck, d
    finally:
        d.close()


def unit_cases(ctx):
    ctx.correspondence("segment-queue-vs-model")
    n = ctx.n(260, 2600)
    terms, info = [], []
    for i in range(n):
        r = ctx.rng("unit", i)
        case = gen_unit_case(r, i % len(CONFIGS))
        try:
            m, guess, events, evterms, obs, stuck, d = drive_unit(case)
        except Exception as e:
            ctx.oracle_fail("node-raised:" + type(e).__name__, "DownloadNode/Segmentation raised %s: %s" % (type(e).__name__, e), case=case)
            continue
        failures = [e for e in events if (e[0] == "blocks" and not e[1]) or e[0] == "failed"]
        deep = bool(failures) or any(e[0] in ("stop", "pause") for e in events)
        results = tuple(rd["result"] for rd in d.readers)
        ctx.case((case["config"], case["guess_max"], tuple(map(repr, events))) if deep else None,
                 kind="unit:%s" % ("stuck" if stuck else ("fail+more" if failures else "clean")))
        cj = {"config": CONFIGS[case["config"]], "guess_max": case["guess_max"], "events": [list(e[:3]) + ([sorted(e[3].items())] if e[0] == "read" else list(e[3:])) for e in events]}
        if stuck:
            ctx.oracle_fail("read-never-completes-after-failed-segment" if any(e[0] == "blocks" and not e[1] for e in events) else "read-never-completes",
                            "every eventual-send ran, no fetcher is running, yet read(s) %r have neither data nor an error: pending segment requests %r, _active_segment %r" % (
                                stuck["readers"], stuck["pending_requests"], stuck["active_segment"]),
                            case=cj, expected="each read ends in data or an error", observed=stuck)
        # reads that finished: data must be the slice (shared with C04's oracle)
        for rd in d.readers:
            if rd["result"] == 1:
                got = b"".join(rd["chunks"])
                ev = [e for e in events if e[0] == "read"][rd["i"]]
                want = m.plaintext[ev[1]:] if ev[2] is None else m.plaintext[ev[1]:ev[1] + ev[2]]
                if got != want:
                    ctx.oracle_fail("read-returned-wrong-bytes", "read(%d,%r) finished with %d bytes, expected %d" % (ev[1], ev[2], len(got), len(want)), case=cj,
                                    expected=want.hex(), observed=got.hex())
        terms.append(SQ.model_term(m, guess, evterms, obs))
        info.append((cj, obs))
        if i < 2:
            ctx.sample({"case": cj, "results": results})
    bad = ctx.coq_check(SQ.IMPORTS, terms, tag="c46unit")
    for ix in bad[:20]:
        ctx.mismatch("segment-queue-model-differs", "DownloadNode/Segmentation and Model/SegQueue.v disagree on an event sequence",
                     case=info[ix][0], observed=info[ix][1], correspondence="segment-queue-vs-model")
    ctx.trace(len(terms) - len(bad))


# ---------------------------------------------------------------------------
# grid: whole downloads, hung detection
# ---------------------------------------------------------------------------
def gen_grid_case(r):
    k, n = r.choice([(1, 2), (2, 3), (2, 4), (3, 5), (3, 6)])
    seg = r.choice([k * 8, k * 16, 48, 60])
    nseg = r.choice([2, 3, 4, 5])
    size = max(56, seg * nseg - r.choice([0, 1, seg // 2, seg - 1]))      # > 55 bytes: not a literal file
    nseg = -(-size // (-(-seg // k) * k))
    servers = r.choice([n, n + 1, n + 3, max(2, n - 1)])
    mode = r.choice(["badleaf", "badleaf", "decode", "both", "shares", "none", "short", "short", "header", "deadref", "deadref"])
    badleaf = sorted(r.sample(range(nseg), r.choice([1, 1, 2]) if nseg > 1 else 1)) if mode in ("badleaf", "both") else []
    decode_fail = sorted(r.sample(range(8), r.choice([1, 2]))) if mode in ("decode", "both") else []   # nth decode calls that fail
    reads = []
    for _ in range(r.choice([2, 3, 4, 5])):
        off = r.choice([0, 0, 1, seg - 1, seg, seg + 1, size - 1, r.randrange(size)])
        sz = r.choice([None, 1, 16, seg, seg + 1, size, r.randrange(1, size + 1)])
        reads.append([off, sz])
    concurrent = r.random() < 0.4
    plan = []
    delete = []
    if mode == "shares" or r.random() < 0.3:
        for _ in range(r.choice([1, 2, 3])):
            x = r.random()
            if x < 0.4:
                delete.append(r.randrange(n))
            elif x < 0.7:
                plan.append({"server": r.randrange(servers), "method": "read", "nth": r.randrange(0, 6), "count": r.choice([1, 2, None]),
                             "action": r.choice(["error", "error_after", "delay", "corrupt"]), "how": "flip", "offset": r.randrange(0, 64)})
            else:
                plan.append({"server": r.randrange(servers), "method": "get_buckets", "nth": 0, "count": 1, "action": r.choice(["error", "delay"])})
    truncate, header = [], []
    if mode == "short":
        # share files cut to every small length (12-byte container header, then the share's version word and
        # offset table), or a server that answers every read with nothing
        for _ in range(r.choice([1, 1, 2, n])):
            truncate.append([r.randrange(n), r.choice(list(range(0, 61)) + [72, 84, 85, 100, 120])])
        if r.random() < 0.3:
            plan.append({"server": r.randrange(servers), "method": "read", "nth": 0, "count": None, "action": "corrupt", "how": "empty"})
    if mode == "header":
        for _ in range(r.choice([1, 1, 2])):
            header.append([r.randrange(n), r.randrange(0, 9), r.choice([0, 1, 35, 36, 37, 100, 2 ** 31, 2 ** 32 - 1, r.randrange(0, 400)])])
    sync_dead = []
    if mode == "deadref":
        # lost connections: get_buckets of these servers fails at once (already-failed Deferred), and so many of them
        # that fewer than k shares are reachable in most cases: the read must fail, not hang
        ndead = r.choice([servers, servers, servers - 1, max(1, servers - k + 1), 1])
        sync_dead = sorted(r.sample(range(servers), max(1, min(servers, ndead))))
        if r.random() < 0.5:
            delete = sorted(set(delete + r.sample(range(n), r.choice([n, n - k + 1, 1]))))
    return {"k": k, "n": n, "servers": servers, "segsize": seg, "size": size, "badleaf": badleaf, "decode_fail": decode_fail,
            "reads": reads, "concurrent": concurrent, "plan": plan, "delete": delete, "truncate": truncate, "header": header, "sync_dead": sync_dead,
            # a UEB longer than the downloader's speculative 2 KiB read (one extra, legal field): around the boundary and far beyond
            "big_ueb": r.choice([0, 0, 0, 0, 1500, 1700, 1750, 1800, 2048, 3000, 5000, 20000]),
            "threads": r.random() < 0.15, "seed": r.getrandbits(30)}


def run_grid_case(case):
    """Returns a list of per-read outcomes [(status, error, data)] and the plaintext."""
    from core import grid as G
    from twisted.internet import defer
    from allmydata.util.consumer import download_to_data
    import allmydata.immutable.downloader.node as NODE
    data = bytes((11 * i + case["size"]) & 0xFF for i in range(case["size"]))
    outcomes = []
    with G.Grid(num_servers=case["servers"], k=case["k"], n=case["n"], happy=1, max_segment_size=case["segsize"], seed=case["seed"],
                timeout=case.get("timeout", 15), threads=case.get("threads", False)) as g:
        if case.get("big_ueb"):
            cap = SQ.upload_with_big_ueb(g, data, case["big_ueb"], case["badleaf"], convergence=b"c46")
        elif case["badleaf"]:
            cap = SQ.bad_upload(g, data, case["badleaf"])
        else:
            cap = g.run(g.upload(data, convergence=b"c46"))
        for shnum in case["delete"]:
            g.delete_shares(cap, shnums=[shnum])
        import struct
        for shnum, keep in case.get("truncate", []):
            for sh in g.find_shares(cap):
                if sh.shnum == shnum:
                    g.write_share(sh, g.read_share(sh)[:keep])
        for shnum, field, value in case.get("header", []):
            for sh in g.find_shares(cap):
                if sh.shnum == shnum:
                    raw = bytearray(g.read_share(sh))
                    raw[12 + 4 * field:12 + 4 * field + 4] = struct.pack(">L", value)      # v1 share: version, block size, data size, six offsets
                    g.write_share(sh, bytes(raw))
        node = g.node(cap)
        if not hasattr(node, "_cnode"):
            return None, data       # literal file
        real_decoder = NODE.CRSDecoder
        counter = [0]

        class FailingDecoder(real_decoder):
            def decode(self, some_shares, their_shareids):
                ix = counter[0]
                counter[0] += 1
                if ix in case["decode_fail"]:
                    return defer.fail(RuntimeError("harness: decode failure"))
                return real_decoder.decode(self, some_shares, their_shareids)
        NODE.CRSDecoder = FailingDecoder
        restore_refs = SQ.make_dyhb_fail_synchronously(g, [sv for sv in case.get("sync_dead", []) if sv < case["servers"]])
        try:
            g.set_faults(case["plan"])
            if case["concurrent"]:
                ds = [download_to_data(node, off, sz) for off, sz in case["reads"]]
                for dd in ds:
                    dd.addErrback(lambda f: f)      # keep each outcome separate
                for dd in ds:
                    outcomes.append(g.run(dd, outcome=True))
            else:
                for off, sz in case["reads"]:
                    outcomes.append(g.run(download_to_data(node, off, sz), outcome=True))
        finally:
            NODE.CRSDecoder = real_decoder
            restore_refs()
    return outcomes, data


def judge_grid_case(ctx, case, outcomes, data):
    """The property's own rule on one grid case; returns the list of per-read statuses."""
    from twisted.python.failure import Failure
    statuses = []
    for (off, sz), o in zip(case["reads"], outcomes):
        st = o.status
        val = o.value
        if st == "ok" and isinstance(val, Failure):
            st, err = "error", val.value.__class__.__name__
        else:
            err = o.error
        statuses.append(st if st != "error" else "error:" + str(err))
        want = data[off:] if sz is None else data[off:off + sz]
        if st in ("hung", "timeout"):
            kind = "read-never-completes"
            if case.get("big_ueb") and st == "hung" and not case.get("sync_dead") and not case["badleaf"] and not case["decode_fail"]:
                kind = "read-hangs-with-long-ueb"
            elif case.get("sync_dead") and st == "hung":
                kind = "read-hangs-after-lost-connection"
            elif case["badleaf"] or case["decode_fail"]:
                kind = "read-never-completes-after-failed-segment"
            elif st == "timeout" and (case.get("truncate") or case.get("header") or any(f.get("how") == "empty" for f in case["plan"])):
                kind = "read-spins-on-short-answer"
            if kind == "read-spins-on-short-answer":
                what = ("read(%d,%r) number %d on the node did not finish within %d s (about 100x a normal case): the downloader keeps issuing "
                        "read calls for bytes the server has already answered short (earlier reads: %r)" % (off, sz, len(statuses) - 1, case.get("timeout", 15), statuses[:-1]))
            else:
                what = ("read(%d,%r) number %d on the node is %s: the event queue is drained, every server call answered, all timers fired, and the read "
                        "has delivered neither data nor an error (earlier reads: %r)" % (off, sz, len(statuses) - 1, st, statuses[:-1]))
            ctx.oracle_fail(kind, what, case=case, expected="data or an error", observed=statuses)
            break
        if st == "ok" and val != want:
            ctx.oracle_fail("read-returned-wrong-bytes", "read(%d,%r) returned %d bytes that are not the plaintext slice" % (off, sz, len(val)), case=case,
                            expected=want.hex(), observed=val.hex())
    return statuses


def corpus_cases(ctx):
    """minimised past failures, run first"""
    import glob
    import json
    import os
    from core import env
    for path in sorted(glob.glob(os.path.join(env.CORPUS, "C46", "*.json"))):
        case = json.load(open(path))["case"]
        outcomes, data = run_grid_case(case)
        statuses = judge_grid_case(ctx, case, outcomes, data)
        ctx.case((os.path.basename(path), tuple(statuses)), kind="corpus")
        ctx.count("corpus:" + os.path.basename(path))


def grid_cases(ctx):
    ctx.correspondence("grid-reads-terminate")
    corpus_cases(ctx)
    n = ctx.n(60, 500)
    for i in range(n):
        r = ctx.rng("grid", i)
        case = gen_grid_case(r)
        outcomes, data = run_grid_case(case)
        if outcomes is None:
            ctx.case(None, kind="grid:literal")
            continue
        statuses = judge_grid_case(ctx, case, outcomes, data)
        failing = any(s.startswith("error") for s in statuses)
        ctx.case((case["seed"], tuple(statuses)) if failing and len(statuses) > 1 else None,
                 kind="grid:" + ("hung" if any(s in ("hung", "timeout") for s in statuses) else ("error-then-more" if failing else "all-ok")))
        if i < 3:
            ctx.sample({"case": case, "statuses": statuses})
        ctx.trace(1)


def run(ctx):
    unit_cases(ctx)
    grid_cases(ctx)


def replay(ctx, rec):
    case = rec.get("case") or {}
    if "reads" in case:
        outcomes, data = run_grid_case(case)
        return [(o.status, o.error) for o in outcomes or []]
    return {"note": "unit case: the event list in the record is the input; re-run the check with the recorded seed"}
