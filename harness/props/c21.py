"""C21  Deep traversal visits every reachable object exactly once
(dirnode.py DirectoryNode.deep_traverse / build_manifest / start_deep_stats /
start_deep_check, ManifestWalker, DeepChecker; deep_stats.py DeepStats).

Every case is a generated directory graph (ground truth: objects, links, which
cap each link carries).  Three views are compared:
  * the real DirectoryNode.build_manifest / start_deep_stats / start_deep_check
    on real DirectoryNode, LiteralFileNode, ImmutableFileNode, MutableFileNode
    and UnknownNode objects made by the real NodeMaker from packed directory
    bytes.  Bulk cases keep the packed bytes in an in-memory table instead of
    on storage servers ("mem" cases: only download_best_version/read/check of
    the file nodes are replaced); "grid" cases build the same kind of graph on
    the in-process no_network grid (harness/core/grid.py) with nothing replaced;
  * the DIRECT ORACLE, computed on the ground-truth graph without the model:
    every reachable object is reported, none twice, no unreachable one, every
    reported path followed link by link from the root ends at the reported cap,
    deep-stats counts equal the number of distinct reachable objects per kind,
    deep-check checks every stored object once;
  * the Coq model Model/Traverse.v (CORRESPONDENCE): the manifest in order and
    the deep-stats numbers must equal `traverse_fuel` / `deep_stats` on the
    same graph, and the graph must satisfy wf_graphb (the theorems' hypothesis).

Known finding (DESIGN section 9): objects without a verify cap (LIT files, LIT
directories, unknown nodes) are handed to the walker once per link.  The
witnesses of Props/C21.v every_object_exactly_once_refuted are replayed first.
"""
import hashlib
import json

from core import term as T

ID = "C21"
GEN = []
RULE = ("cases: one case = one generated directory graph with <= 40 objects (quick) / <= 40 and exhaustive-small (thorough), "
        "profiles: tree, dag (shared files and subdirectories), cyclic (links back to ancestors and to the root), twins (the same "
        "directory or file linked through its write cap and its read cap, from one or several parents), lit (LIT files, LIT "
        "directories, unknown nodes, each linked once), multilink (those linked several times: known finding), immutable "
        "(CHK/LIT directory trees), started from a read-write, read-only or immutable root; each run through build_manifest, "
        "start_deep_stats and start_deep_check; distinct = distinct graph; non-trivial = graph with a shared object or a cycle "
        "or a write/read-cap twin, at least 3 directories, and a complete traversal")
META = {
    "title": "Deep traversal visits every reachable object exactly once",
    "level_text": ("Theorems in Coq over an executable model of deep_traverse (found-set keyed by verify cap, unknown nodes reported "
                   "at once, files before subdirectories, strict depth-first order): for EVERY well-formed graph -- shared "
                   "subdirectories, cycles, several caps of one object -- and every root directory, if the walk finishes then "
                   "every reachable object is handed to the walker at least once, every reachable object that has a verify cap "
                   "exactly once, and every reported path leads from the root to the reported node; the walk finishes within "
                   "|graph|+1 directory reads whenever every directory has a verify cap (cycles included).  The statement for "
                   "objects WITHOUT a verify cap is refuted by a proved witness (once per link) and recorded as a known finding.  "
                   "The model is run against the real traversal on generated graphs, which are also judged by a ground-truth oracle."),
    "level_note": ("Trusted: Model/Traverse.v as a reading of dirnode.py/deep_stats.py (hand-written; differential execution on every "
                   "run, manifest compared in order); in the bulk cases the storage layer under the real node classes is an in-memory "
                   "table (grid cases use the real in-process grid); Deferred scheduling is not modelled (the code runs one Deferred "
                   "chain, strictly sequentially); the size histogram of DeepStats and the turn break every 100 files are exercised only."),
    "technique": "Coq proof (all graphs) over a hand-written executable model + differential run vs implementation + ground-truth oracle",
    "design_ref": "8/C21, 9/C21",
    "trusted_base": ["Model/Traverse.v transcription of DirectoryNode.deep_traverse and DeepStats (validated by differential execution on every run)",
                     "in-memory storage table under real MutableFileNode/ImmutableFileNode in the bulk cases"],
    "assumptions": ["a verify cap identifies the object; two caps of one object list the same children (wf_graph, checked on every generated graph)",
                    "LIT directories do not lie on cycles (they are immutable); otherwise the model returns None rather than an answer"],
}

IMPORTS = ["Model.Traverse"]
FUEL = 600
KIND = {"mdir": "KDir", "idir": "KDir", "ldir": "KDir", "chk": "KFileImm", "lit": "KFileLit", "mut": "KFileMut", "unk": "KUnknown"}
NOVERIFY = {"lit": "lit-file", "ldir": "lit-directory", "unk": "unknown-node"}
NAMES = ["a", "ab", "a b", "B", "b", "z", "é", "日本語", "0", "10", "2", "child", "Child", "sub", "x" * 30, "~", "_"]


def hb(tag, i, n):
    return hashlib.sha256(b"c21-%s-%d" % (tag, i)).digest()[:n]


# =============================================================================
# the storage table under real node classes
# =============================================================================
class Mem(object):
    """Real NodeMaker; the file nodes under directories read a dict instead of
    storage servers."""

    def __init__(self):
        from twisted.internet import defer
        from allmydata.check_results import CheckResults
        from allmydata.immutable.filenode import ImmutableFileNode
        from allmydata.mutable.filenode import MutableFileNode
        from allmydata.nodemaker import NodeMaker
        store = self.store = {}
        checked = self.checked = []

        def results(node):
            si = node.get_storage_index()
            checked.append(si)
            return CheckResults(node.get_cap().get_verify_cap() if hasattr(node.get_cap(), "get_verify_cap") else node.get_cap(), si,
                                healthy=True, recoverable=True, count_happiness=10, count_shares_needed=3, count_shares_expected=10,
                                count_shares_good=10, count_good_share_hosts=10, count_recoverable_versions=1,
                                count_unrecoverable_versions=0, servers_responding=[], sharemap={}, count_wrong_shares=0,
                                list_corrupt_shares=[], count_corrupt_shares=0, list_incompatible_shares=[],
                                count_incompatible_shares=0, summary="", report=[], share_problems=[], servermap=None)

        class MemMutable(MutableFileNode):
            def download_best_version(self, progress=None):
                return defer.succeed(store[self.get_storage_index()])

            def get_size(self):
                d = store.get(self.get_storage_index())
                return None if d is None else len(d)

            def check(self, monitor, verify=False, add_lease=False):
                return defer.succeed(results(self))

        class MemImmutable(ImmutableFileNode):
            def read(self, consumer, offset=0, size=None):
                data = store[self.get_storage_index()]
                consumer.write(data[offset:] if size is None else data[offset:offset + size])
                return defer.succeed(consumer)

            def check(self, monitor, verify=False, add_lease=False):
                return defer.succeed(results(self))

        class MemNodeMaker(NodeMaker):
            def _create_mutable(self, cap):
                n = MemMutable(self.storage_broker, self.secret_holder, self.default_encoding_parameters, self.history)
                return n.init_from_cap(cap)

            def _create_immutable(self, cap):
                return MemImmutable(cap, self.storage_broker, self.secret_holder, self.terminator, self.history)

        self.nm = MemNodeMaker(None, None, None, None, None, {"k": 3, "n": 10, "max_segment_size": 131072}, None, None)

    def put(self, storage_index, data):
        self.store[storage_index] = data

    def node(self, rw, ro, deep_immutable=False):
        return self.nm.create_from_cap(rw, ro, deep_immutable=deep_immutable)

    def run(self, d):
        out = []
        d.addBoth(out.append)
        if not out:
            raise RuntimeError("Deferred did not fire synchronously")
        from twisted.python.failure import Failure
        if isinstance(out[0], Failure):
            out[0].raiseException()
        return out[0]

    def close(self):
        pass


# =============================================================================
# ground-truth graphs
# =============================================================================
class Graph(object):
    """spec = {"objects": [{"kind": k, "links": [[name, child, rwlink], ...], "size": n, "mdmf": bool}], "root": [obj, "rw"|"ro"]}
    Object i's key material is derived from (salt, i).  Immutable directories
    may only link to immutable objects with a smaller index."""

    def __init__(self, spec):
        self.spec = spec
        self.objects = spec["objects"]
        self.root = tuple(spec["root"])
        self.salt = spec.get("salt", 0)
        self.caps = {}     # (obj, view) -> cap string the node reports (get_uri)
        self.verify = {}   # obj -> verify cap string or None
        self.si = {}       # obj -> storage index or None

    # ---- caps (built with uri.py classes from raw key material) ----------------
    def build(self, backend):
        """Create every object on `backend` (Mem or GridBackend); afterwards
        self.caps/self.verify/self.si are filled in."""
        backend.build(self)

    def views(self, i):
        return ("rw", "ro") if self.objects[i]["kind"] in ("mdir", "mut", "unk") else ("ro",)

    def child_view(self, parent, pview, link):
        name, c, rwlink = link
        if self.objects[parent]["kind"] == "mdir" and pview == "rw" and rwlink and self.objects[c]["kind"] in ("mdir", "mut", "unk"):
            return (c, "rw")
        return (c, "ro")

    def is_dir(self, i):
        return self.objects[i]["kind"] in ("mdir", "idir", "ldir")

    def children(self, view):
        i, v = view
        if not self.is_dir(i):
            return []
        return [(l[0], self.child_view(i, v, l)) for l in self.objects[i]["links"]]

    def reachable_views(self):
        seen = [self.root]
        todo = [self.root]
        while todo:
            x = todo.pop()
            for _, c in self.children(x):
                if c not in seen:
                    seen.append(c)
                    todo.append(c)
        return seen

    def follow(self, path):
        cur = self.root
        for name in path:
            nxt = dict(self.children(cur)).get(name)
            if nxt is None:
                return None
            cur = nxt
        return cur

    # ---- Coq rendering ---------------------------------------------------------------
    def node_ids(self):
        ids = {}
        for i in range(len(self.objects)):
            for v in self.views(i):
                ids[(i, v)] = len(ids)
        return ids

    def coq_graph(self, sizes):
        ids = self.node_ids()
        vids = {}
        for i in range(len(self.objects)):
            if self.verify.get(i) is not None:
                vids[i] = 1000 + i
        rows = []
        for (i, v), nid in sorted(ids.items(), key=lambda kv: kv[1]):
            o = self.objects[i]
            kids = T.lst([T.pair(coq_name(nm), T.N(ids[cv])) for nm, cv in self.children((i, v))])
            size = sizes.get(i)
            rows.append(T.pair(T.N(nid), "(mkNode %s %s %s %s %s)" % (
                T.N(i), KIND[o["kind"]], T.opt(T.N(vids[i])) if i in vids else "None",
                T.opt(T.N(size)) if size is not None else "None", kids)))
        return T.lst(rows), ids


def coq_name(s):
    return T.lst([T.N(ord(ch)) for ch in s])


def coq_visits(vis):
    return T.lst([T.pair(T.lst([coq_name(n) for n in p]), T.N(i)) for p, i in vis])


# =============================================================================
# building a graph on the in-memory backend
# =============================================================================
def mem_build(mem, G):
    from allmydata import uri
    from allmydata.dirnode import pack_children
    objs = G.objects
    s = G.salt
    capobj = {}
    for i, o in enumerate(objs):
        k = o["kind"]
        if k in ("mdir", "mut"):
            cls = uri.WriteableMDMFFileURI if o.get("mdmf") else uri.WriteableSSKFileURI
            w = cls(hb(b"wk%d" % s, i, 16), hb(b"fp%d" % s, i, 32))
            capobj[i] = w
            if k == "mdir":
                rw = uri.MDMFDirectoryURI(w) if o.get("mdmf") else uri.DirectoryURI(w)
            else:
                rw = w
            G.caps[(i, "rw")] = rw.to_string()
            G.caps[(i, "ro")] = rw.get_readonly().to_string()
            G.verify[i] = rw.get_verify_cap().to_string()
            G.si[i] = w.get_storage_index()
        elif k == "chk":
            u = uri.CHKFileURI(hb(b"key%d" % s, i, 16), hb(b"ueb%d" % s, i, 32), 3, 10, o.get("size", 1000))
            G.caps[(i, "ro")] = u.to_string()
            G.verify[i] = u.get_verify_cap().to_string()
            G.si[i] = u.get_storage_index()
        elif k == "lit":
            data = (b"lit-%d-%d-" % (s, i) + b"x" * o.get("size", 0))[:max(o.get("size", 0), len(b"lit-%d-%d-" % (s, i)))]
            if o.get("empty"):
                data = b""      # a zero-length file (.keep, __init__.py): URI:LIT: -- one per graph, equal caps are one object
            u = uri.LiteralFileURI(data)
            G.caps[(i, "ro")] = u.to_string()
            G.verify[i] = None
            G.si[i] = None
            o["_size"] = len(data)
        elif k == "unk":
            G.caps[(i, "rw")] = b"x-tahoe-future-rw:%d-%d" % (s, i)
            G.caps[(i, "ro")] = b"ro.x-tahoe-future-ro:%d-%d" % (s, i)
            G.verify[i] = None
            G.si[i] = None
    # immutable directories bottom-up (links only to smaller indices)
    for i, o in enumerate(objs):
        if o["kind"] not in ("idir", "ldir"):
            continue
        kids = {}
        for name, c, _ in o["links"]:
            assert c < i and objs[c]["kind"] in ("chk", "lit", "idir", "ldir"), "immutable directory links must be immutable and earlier"
            kids[name] = (mem.node(None, G.caps[(c, "ro")], deep_immutable=True), {})
        data = pack_children(kids, None, deep_immutable=True)
        if o["kind"] == "ldir":
            f = uri.LiteralFileURI(data)
            u = uri.LiteralDirectoryURI(f)
            G.verify[i] = None
            G.si[i] = None
        else:
            f = uri.CHKFileURI(hb(b"dkey%d" % s, i, 16), hashlib.sha256(data).digest(), 3, 10, len(data))
            u = uri.ImmutableDirectoryURI(f)
            G.verify[i] = u.get_verify_cap().to_string()
            G.si[i] = f.get_storage_index()
            mem.put(f.get_storage_index(), data)
        G.caps[(i, "ro")] = u.to_string()
        o["_size"] = len(data)
    # mutable directories: caps are known, so links may go anywhere
    for i, o in enumerate(objs):
        if o["kind"] != "mdir":
            continue
        kids = {}
        for name, c, rwlink in o["links"]:
            if rwlink and objs[c]["kind"] in ("mdir", "mut"):
                kids[name] = (mem.node(G.caps[(c, "rw")], G.caps[(c, "ro")]), {})
            elif rwlink and objs[c]["kind"] == "unk":
                from allmydata.unknown import UnknownNode
                kids[name] = (UnknownNode(G.caps[(c, "rw")], G.caps[(c, "ro")][3:]), {})
            elif objs[c]["kind"] == "unk":
                from allmydata.unknown import UnknownNode
                kids[name] = (UnknownNode(None, G.caps[(c, "ro")]), {})
            else:
                kids[name] = (mem.node(None, G.caps[(c, "ro")]), {})
        data = pack_children(kids, capobj[i].writekey)
        mem.put(G.si[i], data)
        o["_size"] = len(data)


class MemBackend(object):
    name = "mem"

    def __init__(self):
        self.mem = Mem()

    def build(self, G):
        mem_build(self.mem, G)

    def root_node(self, G):
        i, v = G.root
        if v == "rw":
            return self.mem.node(G.caps[(i, "rw")], G.caps[(i, "ro")])
        return self.mem.node(None, G.caps[(i, "ro")], deep_immutable=(G.objects[i]["kind"] in ("idir", "ldir")))

    def run(self, d):
        return self.mem.run(d)

    def finish(self, monitor):
        # everything under the walk answers synchronously, so the monitor is finished when deep_traverse returns
        if not monitor.is_finished():
            raise RuntimeError("traversal did not finish synchronously")
        st = monitor.get_status()
        from twisted.python.failure import Failure
        if isinstance(st, Failure):
            st.raiseException()
        return st

    def sizes(self, G):
        out = {}
        for i, o in enumerate(G.objects):
            if o["kind"] == "chk":
                out[i] = o.get("size", 1000)
            elif "_size" in o:
                out[i] = o["_size"]
        return out

    def checked(self):
        return list(self.mem.checked)

    def reset_checked(self):
        del self.mem.checked[:]

    def close(self):
        pass


# =============================================================================
# one case: run the three walkers, oracle, model term
# =============================================================================
def run_case(ctx, G, backend, label):
    """Returns (coq term, info) ; reports oracle failures on ctx."""
    G.build(backend)
    root = backend.root_node(G)
    cap2view = {}
    for view, cap in G.caps.items():
        cap2view.setdefault(cap, view)
    case = {"graph": G.spec, "backend": backend.name, "label": label}

    # ---- build_manifest ---------------------------------------------------------
    res = backend.finish(root.build_manifest())
    manifest = [(tuple(p), c) for (p, c) in res["manifest"]]
    # ---- start_deep_stats -----------------------------------------------------
    stats = backend.finish(root.start_deep_stats())
    # ---- start_deep_check --------------------------------------------------------
    backend.reset_checked()
    dres = backend.finish(root.start_deep_check())
    checked = backend.checked()
    counters = dres.get_counters()
    dstats = dres.get_stats()

    reach = G.reachable_views()
    reach_objs = sorted(set(i for i, _ in reach))
    sizes_early = backend.sizes(G)
    # ---- oracle on the manifest ----------------------------------------------------
    visits = []
    times = {}
    bad_cap = False
    for p, cap in manifest:
        view = cap2view.get(cap)
        if view is None:
            bad_cap = True
            ctx.oracle_fail("manifest-reports-unknown-cap", "build_manifest reports %r at %r, which is no cap of any object of the graph" % (cap, p),
                            case=case, observed=[list(p), cap.decode("latin-1")])
            continue
        visits.append((p, view))
        times[view[0]] = times.get(view[0], 0) + 1
        want = G.follow(p)
        if want is None or G.caps[want] != cap:
            ctx.oracle_fail("path-does-not-lead-to-reported-node",
                            "manifest entry %r -> %r: following the path from the root leads to %r" % (list(p), cap, None if want is None else G.caps[want]),
                            case=case, expected=None if want is None else G.caps[want].decode("latin-1"), observed=cap.decode("latin-1"))
    multi = {}
    for i in reach_objs:
        n = times.get(i, 0)
        k = G.objects[i]["kind"]
        if n == 0:
            ctx.oracle_fail("reachable-object-not-visited", "object %d (%s, cap %r) is reachable from the root but not in the manifest" % (i, k, G.caps[(i, "ro")]),
                            case=case, expected="visited once", observed=0)
        elif n > 1:
            if G.verify[i] is None:
                multi[k] = multi.get(k, 0) + 1
                ctx.oracle_fail("no-verify-cap-visited-once-per-link:" + NOVERIFY[k],
                                "%s object %d (%r) has no verify cap and is handed to the walker %d times (once per link), not once"
                                % (NOVERIFY[k], i, G.caps[(i, "ro")], n), case=case, expected=1, observed=n)
            else:
                ctx.oracle_fail("object-with-verify-cap-visited-more-than-once", "object %d (%s, %r) is in the manifest %d times" % (i, k, G.caps[(i, "ro")], n),
                                case=case, expected=1, observed=n)
    for i in times:
        if i not in reach_objs:
            ctx.oracle_fail("unreachable-object-visited", "object %d is not reachable from the root but is in the manifest" % i, case=case)
    # verifycaps / storage-index sets of the manifest walker
    want_v = set(G.verify[i] for i in reach_objs if G.verify[i] is not None)
    if set(res["verifycaps"]) != want_v and not bad_cap:
        ctx.oracle_fail("manifest-verifycaps-set-wrong", "manifest verifycaps differ from the verify caps of the reachable objects",
                        case=case, expected=sorted(x.decode() for x in want_v), observed=sorted(x.decode() for x in res["verifycaps"]))

    # ---- oracle on deep-stats: distinct reachable objects per kind --------------------
    def count(kinds):
        return len([i for i in reach_objs if G.objects[i]["kind"] in kinds])
    want_stats = {"count-directories": count(("mdir", "idir", "ldir")), "count-immutable-files": count(("chk",)),
                  "count-literal-files": count(("lit",)), "count-mutable-files": count(("mut",)),
                  "count-files": count(("chk", "lit", "mut")), "count-unknown": count(("unk",))}
    file_sizes = [sizes_early.get(i) for p, (i, v) in visits if G.objects[i]["kind"] in ("chk", "lit")]
    for which, st in (("deep-stats", stats), ("manifest-stats", res["stats"]), ("deep-check-stats", dstats)):
        # size histogram: every bucket (min, max, count) holds exactly the visited CHK/LIT files of that size range, none is left out
        hist = [tuple(h) for h in st.get("size-files-histogram", [])]
        if None not in file_sizes:
            inb = [len([z for z in file_sizes if lo <= z <= hi]) for lo, hi, _ in hist]
            if [c for _, _, c in hist] != inb or sum(inb) != len(file_sizes):
                ctx.oracle_fail("deep-stats-size-histogram-differs-from-visited-files",
                                "%s size-files-histogram %r does not account for the %d visited immutable/literal files of sizes %r"
                                % (which, hist, len(file_sizes), sorted(file_sizes)), case=case, expected=len(file_sizes), observed=hist)
        got = {k: st[k] for k in want_stats}
        if got != want_stats:
            # explained by the once-per-link visits of objects without a verify cap?
            by_manifest = {"count-directories": 0, "count-immutable-files": 0, "count-literal-files": 0, "count-mutable-files": 0,
                           "count-files": 0, "count-unknown": 0}
            for p, (i, v) in visits:
                k = G.objects[i]["kind"]
                if k in ("mdir", "idir", "ldir"):
                    by_manifest["count-directories"] += 1
                elif k == "unk":
                    by_manifest["count-unknown"] += 1
                else:
                    by_manifest["count-files"] += 1
                    by_manifest[{"chk": "count-immutable-files", "lit": "count-literal-files", "mut": "count-mutable-files"}[k]] += 1
            if got == by_manifest and multi:
                for k in sorted(multi):
                    ctx.oracle_fail("no-verify-cap-visited-once-per-link:" + NOVERIFY[k],
                                    "%s counts %r; distinct reachable objects: %r (objects without a verify cap counted once per link)" % (which, got, want_stats),
                                    case=case, expected=want_stats, observed=got)
            else:
                ctx.oracle_fail("deep-stats-counts-differ-from-reachable-objects", "%s counts %r, distinct reachable objects per kind %r" % (which, got, want_stats),
                                case=case, expected=want_stats, observed=got)
    # ---- oracle on deep-check: every stored object checked exactly once ------------------
    stored = sorted(G.si[i] for i in reach_objs if G.si[i] is not None)
    if (checked is not None and sorted(checked) != stored) or counters["count-objects-checked"] != len(stored):
        ctx.oracle_fail("deep-check-does-not-check-each-stored-object-once",
                        "deep-check checked %d objects (count-objects-checked=%d) for %d distinct reachable stored objects"
                        % (len(checked) if checked is not None else counters["count-objects-checked"], counters["count-objects-checked"], len(stored)),
                        case=case, expected=len(stored), observed=counters["count-objects-checked"])

    # ---- overlapping deep operations on the SAME root node object (real grid only: there the walks are asynchronous
    #      and interleave; a gateway does this when a manifest and a deep-stats of one directory are started together)
    if getattr(backend, "asynchronous", False):
        ops = [("manifest", root.build_manifest), ("deep-stats", root.start_deep_stats), ("deep-check", root.start_deep_check)]
        order = ctx.rng("overlap-order", label).sample(ops, 3)
        started = [(name, start()) for name, start in order]            # all started before any is waited for
        got_overlap = {name: backend.finish(mon) for name, mon in started}
        ocase = dict(case, phase="overlapping", start_order=[name for name, _ in order])
        o_manifest = [(tuple(p), c) for (p, c) in got_overlap["manifest"]["manifest"]]
        o_objs = set(cap2view[c][0] for _, c in o_manifest if c in cap2view)
        missing = [i for i in reach_objs if i not in o_objs]
        if missing:
            ctx.oracle_fail("overlapping-deep-operations:reachable-object-not-visited",
                            "build_manifest started together with deep-stats and deep-check on the same root node (order %r) misses %d of %d reachable "
                            "objects: %r" % (ocase["start_order"], len(missing), len(reach_objs), [(i, G.objects[i]["kind"]) for i in missing][:8]),
                            case=ocase, expected=len(reach_objs), observed=len(o_objs))
        elif o_manifest != manifest:
            ctx.oracle_fail("overlapping-deep-operations:manifest-differs-from-sequential",
                            "build_manifest overlapping with other deep operations reports %d entries, alone %d" % (len(o_manifest), len(manifest)),
                            case=ocase, expected=[[list(p), c.decode("latin-1")] for p, c in manifest][:40],
                            observed=[[list(p), c.decode("latin-1")] for p, c in o_manifest][:40])
        o_dres = got_overlap["deep-check"]
        for which, st, alone in (("deep-stats", got_overlap["deep-stats"], stats), ("manifest-stats", got_overlap["manifest"]["stats"], res["stats"]),
                                 ("deep-check-stats", o_dres.get_stats(), dstats)):
            o_counts = {k: st[k] for k in want_stats}
            reference = want_stats if not multi else {k: alone[k] for k in want_stats}     # ground truth; with once-per-link objects: the walk alone
            if o_counts != reference or dict(st) != dict(alone):
                ctx.oracle_fail("overlapping-deep-operations:stats-differ-from-reachable-objects",
                                "%s overlapping with other deep operations on the same root node (order %r) counts %r; reachable distinct objects per "
                                "kind %r, the same operation alone %r" % (which, ocase["start_order"], o_counts, want_stats, {k: alone[k] for k in want_stats}),
                                case=ocase, expected=want_stats, observed=o_counts)
        if o_dres.get_counters() != counters:
            ctx.oracle_fail("overlapping-deep-operations:deep-check-counters-differ",
                            "deep-check overlapping with other deep operations checks %r, alone %r (%d reachable stored objects)"
                            % (o_dres.get_counters(), counters, len(stored)), case=ocase, expected=counters, observed=o_dres.get_counters())
        ctx.count("overlapping-deep-operations")

    # ---- model term -----------------------------------------------------------------
    sizes = backend.sizes(G)
    g_term, ids = G.coq_graph(sizes)
    vis_term = coq_visits([(p, ids[view]) for p, view in visits])
    stat_keys = ["count-immutable-files", "count-mutable-files", "count-literal-files", "count-files", "count-directories", "count-unknown",
                 "size-immutable-files", "size-literal-files", "size-directories", "largest-directory", "largest-directory-children",
                 "largest-immutable-file"]
    st_term = T.lst([T.N(int(stats[k])) for k in stat_keys])
    root_id = T.N(ids[G.root])
    parts = {
        "wf": "wf_graphb g",
        "manifest": "opt_visits_eqb (traverse_fuel g %d%%nat %s) %s" % (FUEL, root_id, vis_term),
        "stats": "match traverse_fuel g %d%%nat %s with Some out => list_eqb (stats_list (deep_stats g out)) %s | None => false end" % (FUEL, root_id, st_term),
        "fuel": "negb (dirs_have_verifierb g) || opt_visits_eqb (traverse g %s) %s" % (root_id, vis_term),
    }
    term = "let g := %s in %s" % (g_term, " && ".join("(%s)" % parts[k] for k in ("wf", "manifest", "stats", "fuel")))
    info = {"case": case, "g_term": g_term, "parts": parts, "root_id": root_id, "manifest": [[list(p), c.decode("latin-1")] for p, c in manifest],
            "stats": {k: stats[k] for k in stat_keys}, "multi": multi, "reach": len(reach_objs),
            "shared": any(t > 1 for t in link_counts(G, reach).values()), "ndirs": want_stats["count-directories"]}
    return term, info


def link_counts(G, reach):
    n = {}
    for view in reach:
        for _, (c, _) in G.children(view):
            n[c] = n.get(c, 0) + 1
    return n


# =============================================================================
# generators
# =============================================================================
def gen_spec(r, size, profile, salt):
    """A random graph of about `size` objects."""
    objs = []
    n_dirs = max(1, r.randrange(size // 4, size // 2 + 1)) if profile != "immutable" else 0
    multilink = profile == "multilink"
    # leaves and immutable directories first (immutable directories may only point backwards)
    n_leaf = size - n_dirs
    imm_dirs = []
    for j in range(n_leaf):
        k = r.random()
        if profile in ("lit", "multilink", "immutable") and k < 0.25 and len(objs) >= 1:
            cands = [i for i, o in enumerate(objs) if o["kind"] in ("chk", "lit", "ldir", "idir")]
            kind = r.choice(["ldir", "idir"])
            nk = r.choice([0, 0, 1, 2]) if kind == "ldir" else r.choice([0, 1, 2, 4])
            if kind == "ldir":
                cands = [i for i in cands if objs[i]["kind"] in ("lit", "chk") or (objs[i]["kind"] == "ldir" and not objs[i]["links"])]
            picks = r.sample(cands, min(nk, len(cands))) if cands else []
            if not multilink and profile != "immutable":
                picks = [c for c in picks if objs[c]["kind"] not in ("lit", "ldir") or not objs[c].get("_linked")]
            # two immutable directories with the same children are the same object (same cap): give every
            # immutable directory but the first empty LIT directory a LIT file of its own
            own = []
            if picks or kind == "idir" or any(o["kind"] == "ldir" and not o["links"] for o in objs):
                objs.append({"kind": "lit", "links": [], "size": 0, "_linked": True})
                own = [len(objs) - 1]
            picks = picks + own
            names = r.sample(NAMES, len(picks))
            for c in picks:
                objs[c]["_linked"] = True
            objs.append({"kind": kind, "links": [[nm, c, False] for nm, c in zip(names, picks)]})
            imm_dirs.append(len(objs) - 1)
        elif k < 0.45:
            objs.append({"kind": "chk", "links": [], "size": r.choice([56, 1000, 10 ** 6, 2 ** 33])})
        elif k < 0.65:
            if r.random() < 0.4 and not any(o.get("empty") for o in objs):
                objs.append({"kind": "lit", "links": [], "size": 0, "empty": True})       # the zero-length file
            else:
                objs.append({"kind": "lit", "links": [], "size": r.choice([0, 1, 20, 55])})
        elif k < 0.85 or profile == "immutable":
            objs.append({"kind": "chk" if profile == "immutable" else "mut", "links": [], "size": 77, "mdmf": r.random() < 0.3})
        else:
            objs.append({"kind": "unk", "links": []})
    first_dir = len(objs)
    for j in range(n_dirs):
        objs.append({"kind": "mdir", "links": [], "mdmf": r.random() < 0.2})
    dirs = list(range(first_dir, len(objs)))
    if profile == "immutable":
        # root: the last immutable directory; make sure there is one holding everything interesting
        cands = list(range(len(objs)))
        picks = r.sample(cands, min(len(cands), r.choice([2, 4, 8])))
        objs.append({"kind": "idir", "links": [[nm, c, False] for nm, c in zip(r.sample(NAMES, len(picks)), picks)]})
        return {"objects": strip(objs), "root": [len(objs) - 1, "ro"], "salt": salt}

    root = dirs[0]

    def add_link(parent, child, rw):
        used = [l[0] for l in objs[parent]["links"]]
        free = [n for n in NAMES if n not in used]
        if not free or len(used) >= 90:
            return False
        objs[parent]["links"].append([r.choice(free), child, rw])
        return True

    # a spanning tree: every directory but the root gets a parent among the earlier directories
    for d in dirs[1:]:
        add_link(r.choice([x for x in dirs if x < d]), d, r.random() < (0.8 if profile != "twins" else 0.5))
    # every leaf / immutable directory not yet linked gets one parent
    for i in range(first_dir):
        o = objs[i]
        if o.get("_linked"):
            continue
        if r.random() < 0.9:
            add_link(r.choice(dirs), i, r.random() < 0.7)
            o["_linked"] = True
    extra = {"tree": 0, "dag": size // 2, "cyclic": size // 2, "twins": size // 2, "lit": size // 4, "multilink": size // 2}[profile]
    for _ in range(extra):
        p = r.choice(dirs)
        if profile == "cyclic" and r.random() < 0.5:
            c = r.choice([x for x in dirs if x <= p])            # back to an ancestor-ish directory, the root, or itself
        elif profile == "twins" and r.random() < 0.6:
            c = r.choice(dirs + [i for i in range(first_dir) if objs[i]["kind"] == "mut"] or dirs)
        else:
            c = r.randrange(len(objs))
        noverify = objs[c]["kind"] in ("lit", "ldir", "unk")
        if noverify and not multilink:
            continue
        add_link(p, c, r.random() < 0.5)
    rootview = "rw" if r.random() < 0.7 else "ro"
    return {"objects": strip(objs), "root": [root, rootview], "salt": salt}


def strip(objs):
    return [{k: v for k, v in o.items() if not k.startswith("_")} for o in objs]


def witness_specs():
    """Props/C21.v every_object_exactly_once_refuted: a root with two links to one object without a verify cap."""
    out = []
    for kind in ("lit", "ldir", "unk"):
        out.append((kind, {"objects": [{"kind": kind, "links": [], "size": 3}, {"kind": "mdir", "links": [["a", 0, False], ["b", 0, False]]}],
                           "root": [1, "rw"], "salt": 7}))
    return out


def hand_specs():
    out = []
    # the example graph of Props/C21.v: shared directory under write and read cap, cycle to the root, CHK file twice, LIT, unknown
    out.append(("props-example", {"objects": [
        {"kind": "chk", "links": [], "size": 1000}, {"kind": "lit", "links": [], "size": 5}, {"kind": "unk", "links": []},
        {"kind": "mdir", "links": [["s", 4, True], ["t", 4, False], ["f", 0, False]]},
        {"kind": "mdir", "links": [["u", 3, True], ["f", 0, False], ["l", 1, False], ["x", 2, True]]}],
        "root": [3, "rw"], "salt": 1}))
    # self-loop, two-cycle, started read-only
    out.append(("self-loop", {"objects": [{"kind": "mdir", "links": [["me", 0, True], ["me-ro", 0, False]]}], "root": [0, "rw"], "salt": 2}))
    out.append(("two-cycle-ro", {"objects": [{"kind": "mdir", "links": [["b", 1, True]]}, {"kind": "mdir", "links": [["a", 0, True], ["a2", 0, False]]}],
                                 "root": [0, "ro"], "salt": 3}))
    # a diamond: one subdirectory through four parents, mixed caps
    out.append(("diamond", {"objects": [
        {"kind": "chk", "links": []},
        {"kind": "mdir", "links": [["leaf", 0, False]]},
        {"kind": "mdir", "links": [["d", 1, True]]}, {"kind": "mdir", "links": [["d", 1, False]]},
        {"kind": "mdir", "links": [["d", 1, True], ["d2", 1, False]]},
        {"kind": "mdir", "links": [["p1", 2, True], ["p2", 3, True], ["p3", 4, False], ["d", 1, False]]}],
        "root": [5, "rw"], "salt": 4}))
    # immutable tree with nested immutable and LIT directories (each linked once)
    out.append(("immutable-tree", {"objects": [
        {"kind": "chk", "links": []}, {"kind": "lit", "links": [], "size": 4}, {"kind": "ldir", "links": [["in-lit", 1, False]]},
        {"kind": "idir", "links": [["c", 0, False], ["ld", 2, False]]}, {"kind": "ldir", "links": []},
        {"kind": "idir", "links": [["sub", 3, False], ["c-again", 0, False], ["empty", 4, False]]}],
        "root": [5, "ro"], "salt": 5}))
    # zero-length files: .keep directly under the root and again below a subdirectory reached twice
    out.append(("empty-files", {"objects": [
        {"kind": "lit", "links": [], "size": 0, "empty": True}, {"kind": "lit", "links": [], "size": 1}, {"kind": "chk", "links": [], "size": 56},
        {"kind": "mdir", "links": [["one", 1, False], ["c", 2, False]]},
        {"kind": "mdir", "links": [[".keep", 0, False], ["sub", 3, True], ["sub-ro", 3, False], ["c", 2, False]]}],
        "root": [4, "rw"], "salt": 8}))
    # 99 files in one directory (just below the turn break), names that sort differently as bytes and as code points
    big = {"objects": [{"kind": "lit", "links": [], "size": 2} for _ in range(60)] + [{"kind": "chk", "links": []} for _ in range(39)], "root": [99, "rw"], "salt": 6}
    big["objects"].append({"kind": "mdir", "links": [["n%02dé" % j if j % 3 else "N%02d" % j, j, False] for j in range(99)]})
    out.append(("99-files", big))
    return out


# =============================================================================
# run
# =============================================================================
def run(ctx):
    ctx.correspondence("deep-traverse-vs-model")
    terms = []
    infos = []

    def do(G, backend, label, kind):
        try:
            term, info = run_case(ctx, G, backend, label)
        except Exception as e:
            ctx.mismatch("traversal-raised", "%s: traversal of a generated graph raised %s: %s" % (label, type(e).__name__, e),
                         case={"graph": G.spec, "label": label}, correspondence="deep-traverse-vs-model")
            ctx.case(None, kind=kind)
            return None
        terms.append(term)
        infos.append(info)
        nontrivial = info["shared"] and info["ndirs"] >= 3
        ctx.case(json.dumps(G.spec, sort_keys=True) if nontrivial else None, kind=kind)
        for k in info["multi"]:
            ctx.count("multi-linked-no-verify-cap:" + k)
        ctx.count("objects-reachable", info["reach"])
        return info

    # 1. the refutation witnesses of Props/C21.v, replayed on the implementation
    for kind, spec in witness_specs():
        info = do(Graph(spec), MemBackend(), "witness-" + kind, "witness")
        if info is not None and not info["multi"]:
            ctx.note("the model's once-per-link witness for %s is NOT reproduced by the implementation any more" % kind)
            ctx.mismatch("refutation-witness-not-reproduced", "Props/C21.v every_object_exactly_once_refuted: the %s linked twice is reported %r"
                         % (kind, info["manifest"]), case=info["case"], correspondence="deep-traverse-vs-model")
    # 2. hand-written graphs and the corpus
    for label, spec in hand_specs():
        do(Graph(spec), MemBackend(), label, "hand")
    # 3. generated graphs
    profiles = ["tree", "dag", "cyclic", "twins", "lit", "multilink", "immutable", "dag", "cyclic", "twins"]
    n = ctx.n(100, 1500)
    for i in range(n):
        r = ctx.rng("graph", i)
        profile = profiles[i % len(profiles)]
        size = r.choice([3, 6, 10, 16, 25, 40])
        spec = gen_spec(r, size, profile, salt=i)
        info = do(Graph(spec), MemBackend(), "gen-%d" % i, profile)
        if info is not None and i < 2:
            ctx.sample({"profile": profile, "objects": len(spec["objects"]), "root": spec["root"], "manifest_head": info["manifest"][:5], "stats": info["stats"]})
    if ctx.tier == "thorough" or ctx.search:
        exhaustive_small(ctx, do)

    grid_cases(ctx, do)
    web_walkers_case(ctx)

    bad = ctx.coq_check(IMPORTS, terms, tag="c21", shard=30)
    for nth, ix in enumerate(bad):
        info = infos[ix]
        if nth >= 2:
            ctx.mismatch("model-vs-deep-traverse", "Coq model and deep_traverse disagree on %s" % info["case"]["label"], case=info["case"],
                         observed={"manifest": info["manifest"], "stats": info["stats"]}, correspondence="deep-traverse-vs-model")
            continue
        keys = ["wf", "manifest", "stats", "fuel"]
        pbad = ctx.coq_check(IMPORTS, ["let g := %s in %s" % (info["g_term"], info["parts"][k]) for k in keys], tag="c21loc")
        which = [keys[j] for j in pbad]
        model = ctx.coq_eval(IMPORTS, "let g := %s in traverse_fuel g %d%%nat %s" % (info["g_term"], FUEL, info["root_id"]))
        ctx.mismatch("model-vs-deep-traverse:" + "+".join(which),
                     "Coq model and deep_traverse disagree on %s (%s)" % (info["case"]["label"], ", ".join(which)),
                     case=info["case"], expected=" ".join(model.split())[-1500:], observed={"manifest": info["manifest"], "stats": info["stats"]},
                     correspondence="deep-traverse-vs-model")
    ctx.trace(len(terms) - len(bad))


def exhaustive_small(ctx, do):
    """Thorough tier: every link structure over two mutable directories, one CHK file and one LIT file with at most 3 links per directory."""
    import itertools
    targets = [0, 1, 2, 3]     # chk, lit, dirA, dirB
    opts = [(c, rw) for c in targets for rw in ((False, True) if c >= 2 else (False,))]
    count = 0
    for la in itertools.chain.from_iterable(itertools.combinations(opts, k) for k in range(0, 4)):
        for lb in itertools.chain.from_iterable(itertools.combinations(opts, k) for k in range(0, 3)):
            for rootview in ("rw", "ro"):
                spec = {"objects": [{"kind": "chk", "links": []}, {"kind": "lit", "links": [], "size": 1},
                                    {"kind": "mdir", "links": [["n%d" % j, c, rw] for j, (c, rw) in enumerate(la)]},
                                    {"kind": "mdir", "links": [["m%d" % j, c, rw] for j, (c, rw) in enumerate(lb)]}],
                        "root": [2, rootview], "salt": 99}
                do(Graph(spec), MemBackend(), "exh-%d" % count, "exhaustive-small")
                count += 1
    ctx.note("exhaustive small scope: %d graphs (2 mutable directories, <=3 / <=2 links, CHK + LIT leaf, rw and ro root)" % count)


# =============================================================================
# the same on the real in-process grid
# =============================================================================
def grid_cases(ctx, do):
    try:
        from core import grid as GR   # noqa: F401
    except Exception as e:            # pragma: no cover
        ctx.note("harness/core/grid.py not usable (%s: %s): no real-grid cases in this run" % (type(e).__name__, e))
        return
    n = ctx.n(2, 12)
    for i in range(n):
        r = ctx.rng("grid", i)
        profile = ["twins", "multilink", "cyclic", "dag"][i % 4]
        spec = gen_spec(r, r.choice([8, 12]), profile, salt=1000 + i)
        # the grid stores real files: keep CHK sizes small and no MDMF (slow key generation is cached per index)
        for o in spec["objects"]:
            if o["kind"] == "chk":
                o["size"] = r.choice([56, 200, 3000])
            o.pop("mdmf", None)
        backend = GridBackend(seed=i)
        try:
            do(Graph(spec), backend, "grid-%d" % i, "grid-" + profile)
        finally:
            backend.close()


class _FakeRequest(object):
    """what ManifestStreamer / DeepCheckStreamer need of a twisted.web request"""

    def __init__(self):
        self.data = []

    def write(self, b):
        self.data.append(b)

    def registerProducer(self, producer, streaming):
        pass

    def unregisterProducer(self):
        pass

    def units(self):
        return [json.loads(l) for l in b"".join(self.data).split(b"\n") if l]


def web_walkers_spec():
    """shared subdirectory reachable by two paths, a cycle through the root, one mutable file under its write cap and its
    read cap, a CHK file linked twice, LIT files (one empty), an MDMF directory; every object without a verify cap is linked once"""
    return {"objects": [
        {"kind": "chk", "links": [], "size": 200}, {"kind": "chk", "links": [], "size": 3000},
        {"kind": "lit", "links": [], "size": 12}, {"kind": "lit", "links": [], "size": 0, "empty": True}, {"kind": "mut", "links": []},
        {"kind": "mdir", "links": [["f", 0, False], ["l", 2, False], ["m", 4, True], ["back", 7, True]]},
        {"kind": "mdir", "mdmf": True, "links": [["s", 5, False], ["c", 1, False], ["e", 3, False]]},
        {"kind": "mdir", "links": [["s", 5, True], ["mdmf", 6, True], ["m-ro", 4, False], ["c", 1, False]]}],
        "root": [7, "rw"], "salt": 4242}


def web_walkers_case(ctx):
    """Forced in every run: the web API's own deep_traverse walkers (t=stream-manifest, t=stream-deep-check) and the result
    objects of start_deep_check / start_deep_check_and_repair, on the real grid, one file with a share deleted."""
    from allmydata.util import base32
    from allmydata.web.directory import ManifestStreamer, DeepCheckStreamer
    spec = web_walkers_spec()
    G = Graph(spec)
    backend = GridBackend(seed=ctx.seed)
    case = {"graph": spec, "backend": "grid", "label": "web-walkers"}
    try:
        G.build(backend)
        root = backend.root_node(G)
        reach_objs = sorted(set(i for i, _ in G.reachable_views()))
        stored = sorted(base32.b2a(G.si[i]).decode() for i in reach_objs if G.si[i] is not None)
        cap2obj = {}
        for (i, v), cap in G.caps.items():
            cap2obj.setdefault(cap.decode("latin-1"), i)
        kinds = {"directory": ("mdir", "idir", "ldir"), "file": ("chk", "lit", "mut"), "unknown": ("unk",)}
        # one share of the first CHK file is deleted: an unhealthy, recoverable object
        shares = backend.g.find_shares(G.caps[(0, "ro")])
        backend.g.delete_share(shares[0])

        def judge_units(which, units):
            body, last = units[:-1], units[-1]
            sis = sorted(u["storage-index"] for u in body if u["storage-index"])
            seen = {}
            for u in body:
                i = cap2obj.get(u["cap"])
                if i is None:
                    ctx.oracle_fail("web-walker-reports-unknown-cap", "%s reports cap %r which belongs to no object of the graph" % (which, u["cap"]), case=case)
                    continue
                seen[i] = seen.get(i, 0) + 1
                want = G.follow(tuple(u["path"]))
                if want is None or G.caps[want].decode("latin-1") != u["cap"]:
                    ctx.oracle_fail("web-walker-path-does-not-lead-to-reported-node", "%s unit %r: the path leads to %r" % (which, u["path"], None if want is None else G.caps[want]),
                                    case=case)
                if G.objects[i]["kind"] not in kinds[u["type"]]:
                    ctx.oracle_fail("web-walker-wrong-type", "%s reports object %d (%s) as %r" % (which, i, G.objects[i]["kind"], u["type"]), case=case)
            if sis != stored or sorted(seen) != reach_objs or any(n != 1 for n in seen.values()):
                ctx.oracle_fail("web-walker-units-differ-from-reachable-objects",
                                "%s reports storage indexes %r and objects %r; reachable from the root: storage indexes %r, objects %r, each expected once"
                                % (which, sis, sorted(seen.items()), stored, reach_objs), case=case, expected=stored, observed=sis)
            want_counts = {"count-directories": 3, "count-files": 5, "count-immutable-files": 2, "count-literal-files": 2, "count-mutable-files": 1, "count-unknown": 0}
            got = {k: last.get("stats", {}).get(k) for k in want_counts}
            if last.get("type") != "stats" or got != want_counts:
                ctx.oracle_fail("web-walker-stats-differ-from-reachable-objects", "%s final stats unit counts %r, reachable distinct objects %r" % (which, got, want_counts),
                                case=case, expected=want_counts, observed=got)
            return body

        def stream(which, make):
            req = _FakeRequest()
            walker = make(req)
            monitor = root.deep_traverse(walker)
            walker.setMonitor(monitor)
            req.registerProducer(walker, True)
            backend.finish(monitor)
            return judge_units(which, req.units())

        stream("stream-manifest", lambda req: ManifestStreamer(req, root))
        body = stream("stream-deep-check", lambda req: DeepCheckStreamer(req, root, False, False, False))
        nres = len([u for u in body if u["check-results"].get("storage-index")])
        if nres != len(stored):
            ctx.oracle_fail("web-walker-check-results-count", "stream-deep-check carries check results for %d stored objects, %d are reachable" % (nres, len(stored)), case=case)
        unhealthy = len([u for u in body if not u["check-results"]["results"]["healthy"]])
        ctx.count("web-walkers:unhealthy-objects-seen", unhealthy)

        dres = backend.finish(root.start_deep_check())
        c1 = dres.get_counters()
        if c1["count-objects-checked"] != len(stored) or c1["count-objects-healthy"] + c1["count-objects-unhealthy"] != len(stored) \
                or len(dres.get_all_results()) != len(stored):
            ctx.oracle_fail("deep-check-counters-differ-from-reachable-objects",
                            "start_deep_check counters %r (%d per-path results) for %d distinct reachable stored objects" % (c1, len(dres.get_all_results()), len(stored)),
                            case=case, expected=len(stored), observed=c1)
        rres = backend.finish(root.start_deep_check_and_repair())
        c2 = rres.get_counters()
        if c2["count-objects-checked"] != len(stored) or c2["count-objects-healthy-pre-repair"] + c2["count-objects-unhealthy-pre-repair"] != len(stored) \
                or c2["count-objects-healthy-post-repair"] + c2["count-objects-unhealthy-post-repair"] != len(stored):
            ctx.oracle_fail("deep-check-and-repair-counters-differ-from-reachable-objects",
                            "start_deep_check_and_repair counters %r for %d distinct reachable stored objects" % (c2, len(stored)), case=case,
                            expected=len(stored), observed=c2)
        ctx.count("web-walkers:repairs-attempted", c2.get("count-repairs-attempted", 0))
        stream("stream-deep-check-repair", lambda req: DeepCheckStreamer(req, root, False, True, False))
        ctx.case(("web-walkers", ctx.seed), kind="grid-web-walkers")
        ctx.trace(1)
    except Exception as e:
        import traceback
        ctx.mismatch("web-walkers-raised", "web walkers case raised %s: %s" % (type(e).__name__, e), case=case,
                     observed=traceback.format_exc()[-1500:], correspondence="deep-traverse-vs-model")
    finally:
        backend.close()


class GridBackend(object):
    """Builds the graph with the real client API on the in-process grid: real
    uploads, real mutable files and directories, links made with set_uri /
    set_node; nothing of the traversal or of the nodes is replaced."""
    name = "grid"
    asynchronous = True

    def __init__(self, seed=0):
        from core import grid as GR
        self.g = GR.Grid(num_clients=1, num_servers=5, k=1, n=2, happy=1, seed=seed)
        self.g.__enter__()
        self.nodes = {}
        self._checked = None

    def run(self, d):
        return self.g.run(d, timeout=120)

    def finish(self, monitor):
        return self.run(monitor.when_done())

    def build(self, G):
        from allmydata import uri
        from allmydata.unknown import UnknownNode
        g = self.g
        c = g.client(0)
        objs = G.objects
        s = G.salt
        kp = [0]

        def keypair():
            kp[0] += 1
            return g.keypair(kp[0] - 1)     # one keypair per mutable object (the first 12 are fixtures)

        for i, o in enumerate(objs):
            k = o["kind"]
            if k == "chk":
                data = (b"chk-%d-%d-" % (s, i)) * 40
                data = data[:max(56, o.get("size", 56))]
                cap = self.run(g.upload(data, convergence=b"c21"))
                u = uri.from_string(cap)
                G.caps[(i, "ro")] = cap
                G.verify[i] = u.get_verify_cap().to_string()
                G.si[i] = u.get_storage_index()
                o["_size"] = len(data)
                o["size"] = len(data)
            elif k == "lit":
                data = (b"lit-%d-%d-" % (s, i) + b"x" * 55)[:max(o.get("size", 0), len(b"lit-%d-%d-" % (s, i)))][:55]
                if o.get("empty"):
                    data = b""
                u = uri.LiteralFileURI(data)
                G.caps[(i, "ro")] = u.to_string()
                G.verify[i] = None
                G.si[i] = None
                o["_size"] = len(data)
            elif k == "mut":
                n = self.run(g.create_mutable(b"mutable-%d" % i, keypair=keypair()))
                u = n.get_cap()
                G.caps[(i, "rw")] = u.to_string()
                G.caps[(i, "ro")] = u.get_readonly().to_string()
                G.verify[i] = u.get_verify_cap().to_string()
                G.si[i] = u.get_storage_index()
            elif k == "unk":
                G.caps[(i, "rw")] = b"x-tahoe-future-rw:%d-%d" % (s, i)
                G.caps[(i, "ro")] = b"ro.x-tahoe-future-ro:%d-%d" % (s, i)
                G.verify[i] = None
                G.si[i] = None
            elif k == "mdir":
                from allmydata.interfaces import MDMF_VERSION, SDMF_VERSION
                n = self.run(c.create_dirnode(version=MDMF_VERSION if o.get("mdmf") else SDMF_VERSION, unique_keypair=keypair()))
                self.nodes[i] = n
                u = n.get_cap()
                G.caps[(i, "rw")] = u.to_string()
                G.caps[(i, "ro")] = u.get_readonly().to_string()
                G.verify[i] = u.get_verify_cap().to_string()
                G.si[i] = u.get_storage_index()
        for i, o in enumerate(objs):
            if o["kind"] not in ("idir", "ldir"):
                continue
            kids = {}
            for name, ch, _ in o["links"]:
                kids[name] = (c.create_node_from_uri(None, G.caps[(ch, "ro")], deep_immutable=True), {})
            n = self.run(c.create_immutable_dirnode(kids, convergence=b"c21"))
            u = n.get_cap()
            G.caps[(i, "ro")] = u.to_string()
            if isinstance(u, uri.LiteralDirectoryURI):
                o["kind"] = "ldir"
                G.verify[i] = None
                G.si[i] = None
            else:
                o["kind"] = "idir"
                G.verify[i] = u.get_verify_cap().to_string()
                G.si[i] = u.get_storage_index()
            o["_size"] = n.get_size()
        for i, o in enumerate(objs):
            if o["kind"] != "mdir":
                continue
            n = self.nodes[i]
            for name, ch, rwlink in o["links"]:
                k = objs[ch]["kind"]
                if rwlink and k in ("mdir", "mut"):
                    self.run(n.set_uri(name, G.caps[(ch, "rw")], G.caps[(ch, "ro")]))
                elif rwlink and k == "unk":
                    self.run(n.set_node(name, UnknownNode(G.caps[(ch, "rw")], G.caps[(ch, "ro")][3:])))
                elif k == "unk":
                    self.run(n.set_node(name, UnknownNode(None, G.caps[(ch, "ro")])))
                else:
                    self.run(n.set_uri(name, None, G.caps[(ch, "ro")]))

    def root_node(self, G):
        i, v = G.root
        c = self.g.client(0)
        if v == "rw":
            return c.create_node_from_uri(G.caps[(i, "rw")], G.caps[(i, "ro")])
        return c.create_node_from_uri(None, G.caps[(i, "ro")])

    def sizes(self, G):
        """directory sizes as the real nodes report them after the walk (mutable: size of the version read)"""
        out = {}
        c = self.g.client(0)
        for i, o in enumerate(G.objects):
            if o["kind"] == "chk":
                out[i] = o["size"]
            elif o["kind"] == "mdir":
                n = c.create_node_from_uri(G.caps[(i, "rw")], G.caps[(i, "ro")])
                out[i] = self.run(n.get_current_size())
            elif "_size" in o:
                out[i] = o["_size"]
        return out

    def reset_checked(self):
        self._checked = None

    def checked(self):
        return None

    def close(self):
        self.g.__exit__(None, None, None)


# =============================================================================
# replay
# =============================================================================
def replay(ctx, rec):
    case = rec.get("case") or {}
    spec = case.get("graph")
    if not spec:
        return {"note": "record holds no graph"}
    backend = GridBackend(seed=0) if case.get("backend") == "grid" else MemBackend()
    try:
        term, info = run_case(ctx, Graph(spec), backend, case.get("label", "replay"))
        bad = ctx.coq_check(IMPORTS, [term], tag="c21replay")
        model = ctx.coq_eval(IMPORTS, "let g := %s in traverse_fuel g %d%%nat %s" % (info["g_term"], FUEL, info["root_id"]))
        return {"manifest": info["manifest"], "stats": info["stats"], "model_agrees": not bad, "model_traversal": " ".join(model.split())[-1200:]}
    finally:
        backend.close()
