"""C08  Happiness value equals a maximum server/share matching."""
import copy
import hashlib
import itertools

from core import term as T

ID = "C08"
GEN = []
RULE = ("case = (relation between servers and shares, naming of the servers [20-byte ids as in Tahoe; integers 0..n-1 / 1..n "
        "and floats that compare equal to share numbers; mixed int/str/bytes], insertion order of the sharemap dict and of its peer sets, 0..3 share entries with an empty server set [probability 0.3]); "
        "distinct = distinct (canonical relation, insertion order); non-trivial = the relation has at least one edge "
        "(the flow network is built and at least one BFS runs); thorough enumerates every relation between <= 4 "
        "servers and <= 4 shares (74 963 relations)")
META = {
    "title": "Happiness value equals a maximum server/share matching",
    "level_text": ("Coq, FULL: executable model of servers_of_happiness (re-indexing, flow network as adjacency lists, BFS with "
                   "colours/predecessors, augmenting path from the predecessor table, residual network and residual capacities, "
                   "augmentation loop; fuel servers+1 / vertices+1).  Proved for ALL inputs, unbounded: the model returns a number "
                   "for every well-formed servermap (the fuel suffices: soh_total), the number is the size of a matching "
                   "(soh_is_matching), no larger matching exists (soh_is_maximum: flow invariant preserved by every augmentation "
                   "along the BFS path, BFS closure, Koenig cover from the coloured set), and it is the same for every presentation "
                   "of the relation (soh_order_independent; also stated on the sharemap argument under Permutation).  "
                   "shares_by_server is proved to transpose the sharemap and to produce a well-formed servermap."),
    "level_note": ("The theorems are about Model/Matching.v; its tie to the Python code is the correspondence run of this driver "
                   "(the real servers_of_happiness, _flow_network_for, residual_network, bfs, augmenting_path_for called on the "
                   "same inputs and compared with the model: final number on every case, intermediate graphs/flows/predecessor "
                   "tables/paths on a sample), exhaustive for all 74 963 relations <= 4x4 in the thorough tier.  wf_svm (no repeated "
                   "dict key / set element) is the type invariant of the Python value.  Python's IndexError on out-of-range "
                   "vertices is not modelled (the graphs built by _flow_network_for are proved in range: network_is_net).  "
                   "The certificate validator (soh_certified) is still evaluated as an independent cross-check (every case in quick, "
                   "every 3rd exhaustive relation in thorough)."),
    "technique": "Coq proof of the algorithm (invariant + termination, all inputs) over an executable model + differential run of model vs implementation + independent Kuhn oracle",
    "design_ref": "8/C08, A.3",
    "trusted_base": ["harness/props/c08.py reads CPython's dict/set iteration order off shares_by_server() and hands it to the model"],
    "assumptions": ["peer ids enter the model as N through an injective numbering (servers_of_happiness only hashes and compares them for equality); the driver exercises the real function with 20-byte ids and with integer/float/mixed ids that compare equal to share numbers"],
}

IMPORTS = ["Model.Matching"]
PREAMBLE = """
Fixpoint leqb {A : Type} (e : A -> A -> bool) (a b : list A) : bool :=
  match a, b with
  | [], [] => true
  | x :: r, y :: s => e x y && leqb e r s
  | _, _ => false
  end.
Definition graph_eqb := leqb (leqb Nat.eqb).
Definition matrix_eqb := leqb (leqb Z.eqb).
Definition onat_eqb (a b : option nat) := match a, b with Some x, Some y => Nat.eqb x y | None, None => true | _, _ => false end.
Definition pair_eqb (a b : nat * nat) := Nat.eqb (fst a) (fst b) && Nat.eqb (snd a) (snd b).
Definition chk_soh (svm : servermap) (n : Z) : bool := match soh_servermap svm with Some m => Z.eqb m n | None => false end.
Definition chk_top (sm : list (N * list N)) (n : Z) : bool := match servers_of_happiness sm with Some m => Z.eqb m n | None => false end.
Definition chk_res (g : graph) (f : matrix) (ng : graph) (cf : matrix) : bool :=
  let '(a, b) := residual_network g f in graph_eqb a ng && matrix_eqb b cf.
Definition chk_bfs (g : graph) (t : list (option nat)) : bool := match bfs g 0 with Some x => leqb onat_eqb x t | None => false end.
Definition chk_apf (g : graph) (r : option (list (nat * nat))) : bool :=
  match augmenting_path_for g, r with
  | Some None, None => true
  | Some (Some p), Some q => leqb pair_eqb p q
  | _, _ => false
  end.
"""


# ---- independent oracle -------------------------------------------------------
def kuhn(adj):
    """Size of a maximum matching; adj: left vertex -> iterable of right vertices."""
    match_r = {}

    def try_(u, seen):
        for v in adj[u]:
            if v in seen:
                continue
            seen.add(v)
            if v not in match_r or try_(match_r[v], seen):
                match_r[v] = u
                return True
        return False

    n = 0
    for u in sorted(adj):
        if try_(u, set()):
            n += 1
    return n


def peer_id(i):
    return hashlib.sha1(b"server-%d" % i).digest()


# servers_of_happiness(sharemap) is specified for arbitrary hashable server ids.  "sha1" is what
# Tahoe passes (20-byte ids); the others name servers the way a simulator or a consumer of check
# results would: small integers that COMPARE EQUAL to share numbers, floats equal to them, and
# mixtures of integers, text and bytes.  Within one scheme the names are pairwise unequal.
NAMINGS = ("sha1", "int", "int+1", "float", "mixed")


def name_peer(naming, i):
    if naming == "sha1":
        return peer_id(i)
    if naming == "int":
        return i
    if naming == "int+1":
        return i + 1
    if naming == "float":
        return float(i)
    if naming == "mixed":
        return i if i % 2 == 0 else ("srv-%d" % i if i % 4 == 1 else b"srv-%d" % i)
    raise ValueError(naming)


class NeverReturns(Exception):
    pass


CALL_TIMEOUT = 4.0      # seconds of CPU time; a call on a 62-vertex graph takes milliseconds
MAX_HANGS = 3           # after this many calls that did not return, further calls of the run are skipped
_hangs = [0]


def call_with_timeout(fn, *args):
    """fn(*args) in the main thread, abandoned with NeverReturns after CALL_TIMEOUT seconds."""
    import signal

    def _alarm(signum, frame):
        raise NeverReturns()

    # CPU-time timer: a call that loops burns CPU, a descheduled process on a loaded machine does not
    try:
        old = signal.signal(signal.SIGVTALRM, _alarm)
    except ValueError:          # not the main thread: no guard available
        return fn(*args)
    signal.setitimer(signal.ITIMER_VIRTUAL, CALL_TIMEOUT)
    try:
        return fn(*args)
    finally:
        signal.setitimer(signal.ITIMER_VIRTUAL, 0)
        signal.signal(signal.SIGVTALRM, old)


# ---- building inputs -----------------------------------------------------------
def build_sharemap(edges, empty_shares, key_order, peer_orders, naming="sha1"):
    """edges: set of (server index, share number).  key_order: order in which share
    keys are inserted; peer_orders: share -> order of insertion of its peers."""
    sm = {}
    for sh in key_order:
        s = set()
        for p in peer_orders.get(sh, []):
            s.add(name_peer(naming, p))
        sm[sh] = s
    assert set(sm) == {sh for (_, sh) in edges} | set(empty_shares)
    return sm


def orders(edges, empty_shares, r, variant):
    shares = sorted({sh for (_, sh) in edges} | set(empty_shares))
    per = {sh: sorted(p for (p, s) in edges if s == sh) for sh in shares}
    if variant == 0:
        return shares, per
    if variant == 1:
        return shares[::-1], {sh: v[::-1] for sh, v in per.items()}
    ks = shares[:]
    r.shuffle(ks)
    out = {}
    for sh in shares:
        v = per[sh][:]
        r.shuffle(v)
        out[sh] = v
    return ks, out


class Recorder(object):
    """Wraps the helpers servers_of_happiness looks up in its module globals, so the
    arguments and results of the real calls can be compared with the model."""

    def __init__(self, U):
        self.U = U
        self.res = []
        self.apf = []

    def __enter__(self):
        U = self.U
        self.o_res, self.o_apf = U.residual_network, U.augmenting_path_for

        def res(g, f):
            a = (copy.deepcopy(g), copy.deepcopy(f))
            out = self.o_res(g, f)
            self.res.append(a + (copy.deepcopy(out[0]), copy.deepcopy(out[1])))
            return out

        def apf(g):
            a = copy.deepcopy(g)
            out = self.o_apf(g)
            self.apf.append((a, copy.deepcopy(out)))
            return out

        U.residual_network, U.augmenting_path_for = res, apf
        return self

    def __exit__(self, *a):
        self.U.residual_network, self.U.augmenting_path_for = self.o_res, self.o_apf


def t_graph(g):
    return T.lst([T.lst([T.nat(v) for v in row]) for row in g])


def t_matrix(m):
    return T.lst([T.lst([T.Z(v) for v in row]) for row in m])


def t_svm(svm):
    return T.lst([T.pair(T.N(p), T.lst([T.N(s) for s in shs])) for p, shs in svm])


def t_path(p):
    if p is False:
        return "None"
    return "(Some %s)" % T.lst([T.pair(T.nat(u), T.nat(v)) for (u, v) in p])


def t_tree(t):
    return T.lst(["None" if x is None else "(Some %s)" % T.nat(x) for x in t])


class Batch(object):
    def __init__(self, ctx):
        self.ctx = ctx
        self.terms = []
        self.info = []

    def add(self, term, corr, kind, case, alt=None):
        self.terms.append(term)
        self.info.append((corr, kind, case, alt))

    def flush(self, tag):
        ctx = self.ctx
        bad = ctx.coq_check(IMPORTS, self.terms, preamble=PREAMBLE, tag=tag)
        redo = []
        for ix in bad:
            corr, kind, case, alt = self.info[ix]
            if alt:
                redo.append((ix, alt))
            else:
                ctx.mismatch(kind, "Coq model and implementation differ (%s)" % kind, case=case, correspondence=corr)
        if redo:
            # split the combined term: which half fails?
            parts = []
            for ix, alt in redo:
                parts += alt
            bad2 = set(ctx.coq_check(IMPORTS, parts, preamble=PREAMBLE, tag=tag + "-split"))
            for j, (ix, alt) in enumerate(redo):
                corr, kind, case, _ = self.info[ix]
                if 2 * j in bad2:
                    ctx.mismatch(kind, "Coq model of servers_of_happiness and the implementation return different numbers",
                                 case=case, correspondence=corr)
                if 2 * j + 1 in bad2:
                    ctx.mismatch("certificate-rejected", "the validator rejects the matching/cover certificate read off the model's final "
                                 "flow and BFS colouring (hypothesis of the _partial theorems fails on this input)",
                                 case=case, correspondence="certificate-accepted-on-every-case")
        ctx.trace(len(self.terms) - len(bad))
        self.terms, self.info = [], []


def one_case(ctx, batch, edges, empty_shares, variants, r, kind, deep=False, cert=True, top=True, naming="sha1", model=True, svm=True):
    """edges: iterable of (server index, share number).  naming: how the servers are named in the
    sharemap handed to the real function (the relation, hence the expected value and the model's
    input, is the same for every naming)."""
    from allmydata.util import happinessutil as U
    from allmydata.immutable import happiness_upload as H
    edges = sorted(set(edges))
    adj = {}
    for p, s in edges:
        adj.setdefault(p, []).append(s)
    want = kuhn(adj)
    numbering = {name_peer(naming, p): p for p in {p for p, _ in edges}}
    if naming != "sha1":
        kind = kind + "/ids:" + naming
    def on(flag, v):     # flag: bool, or the collection of insertion-order variants it applies to
        return flag if isinstance(flag, bool) else (v in flag)

    results = []
    for v in variants:
        if _hangs[0] >= MAX_HANGS:
            ctx.count("skipped-after-%d-calls-never-returned" % MAX_HANGS)
            continue
        key_order, peer_orders = orders(edges, empty_shares, r, v)
        sm = build_sharemap(edges, empty_shares, key_order, peer_orders, naming)
        case = {"edges": [list(e) for e in edges], "empty_shares": sorted(empty_shares), "key_order": key_order,
                "peer_orders": {str(k): vv for k, vv in peer_orders.items()}, "server_ids": naming,
                "sharemap": repr({k: sorted(vv, key=repr) for k, vv in sm.items()})[:600]}
        rec = Recorder(U) if deep else None
        try:
            if rec:
                with rec:
                    got = call_with_timeout(U.servers_of_happiness, sm)
            else:
                got = call_with_timeout(U.servers_of_happiness, sm)
        except NeverReturns:
            _hangs[0] += 1
            ctx.case((naming, tuple(edges), tuple(key_order)), kind=kind)
            ctx.oracle_fail("soh-never-returns", "servers_of_happiness did not return within %.0f s of CPU time (a call takes milliseconds); "
                            "the maximum matching of the relation has size %d" % (CALL_TIMEOUT, want), case=case,
                            expected=want, observed="no result after %.0f s" % CALL_TIMEOUT)
            continue
        except Exception as e:  # the function is total on well-typed input
            ctx.case((naming, tuple(edges), tuple(key_order)), kind=kind)
            ctx.oracle_fail("soh-raises", "servers_of_happiness raised %s: %s" % (type(e).__name__, e), case=case,
                            expected=want, observed=type(e).__name__)
            continue
        ctx.case((naming, tuple(edges), tuple(key_order), tuple(sorted((k, tuple(x)) for k, x in peer_orders.items()))) if edges else None, kind=kind)
        results.append(got)
        if got != want:
            ctx.oracle_fail("soh-not-maximum-matching",
                            "servers_of_happiness = %r but a maximum matching of the server/share relation has size %d" % (got, want),
                            case=case, expected=want, observed=got)
        if type(got) is not int or not on(model, v):
            continue
        # what the implementation iterates: the dict/sets built by the real shares_by_server
        sbs = U.shares_by_server(sm)
        try:
            rel = sorted((numbering[p], s) for p, shs in sbs.items() for s in shs)
        except KeyError:
            rel = None
        if rel != edges:
            ctx.oracle_fail("shares-by-server-wrong-relation", "shares_by_server does not transpose the sharemap", case=case,
                            expected=edges, observed=rel)
            continue
        svm = [(numbering[p], list(shs)) for p, shs in sbs.items()]
        if empty_shares:
            kind_e = "with-ownerless-shares"
            ctx.count("kind:" + kind_e)
        if sm and svm:
            a = "chk_soh %s %s" % (t_svm(svm), T.Z(got))
            if on(cert, v):
                # cross-check: the Koenig certificate read off the model's final state is accepted
                b = "soh_certified %s" % t_svm(svm)
                batch.add("(%s) && (%s)" % (a, b), "servers_of_happiness-vs-model", "soh-model-vs-impl", case, alt=[a, b])
            else:
                batch.add(a, "servers_of_happiness-vs-model", "soh-model-vs-impl", case)
        if on(top, v) or not sm:
            # top-level model (its own shares_by_server, insertion order)
            smt = T.lst([T.pair(T.N(sh), T.lst([T.N(p) for p in peer_orders.get(sh, [])])) for sh in key_order])
            batch.add("chk_top %s %s" % (smt, T.Z(got)), "servers_of_happiness-vs-model", "soh-top-model-vs-impl", case)
        if rec and sm:
            ordered = {p: list(shs) for p, shs in sbs.items()}
            g = U._flow_network_for(ordered)
            batch.add("graph_eqb (fst (flow_network_for %s)) %s" % (t_svm(svm), t_graph(g)),
                      "graph-helpers-vs-model", "flow-network-model-vs-impl", case)
            if rec.res and rec.res[0][0] != g:
                ctx.mismatch("flow-network-order", "driver's reading of the iteration order differs from the graph servers_of_happiness built",
                             case=case, expected=g, observed=rec.res[0][0], correspondence="graph-helpers-vs-model")
            for (gg, f, ng, cf) in rec.res[:3] + rec.res[-1:]:
                batch.add("chk_res %s %s %s %s" % (t_graph(gg), t_matrix(f), t_graph(ng), t_matrix(cf)),
                          "graph-helpers-vs-model", "residual-network-model-vs-impl", dict(case, graph=gg, flow=f))
            for (rg, out) in rec.apf[:2] + rec.apf[-1:]:
                batch.add("chk_apf %s %s" % (t_graph(rg), t_path(out)), "graph-helpers-vs-model",
                          "augmenting-path-model-vs-impl", dict(case, residual_graph=rg))
                tree = H.bfs(rg, 0)
                batch.add("chk_bfs %s %s" % (t_graph(rg), t_tree(tree)), "graph-helpers-vs-model", "bfs-model-vs-impl",
                          dict(case, residual_graph=rg))
    if len(set(map(repr, results))) > 1:
        ctx.oracle_fail("soh-depends-on-insertion-order", "servers_of_happiness gives %r for the same relation under different insertion orders" % (results,),
                        case={"edges": [list(e) for e in edges]}, expected=want, observed=results)
    return want


def pick_empties(r, edges, p=0.3):
    """With probability p: 1..3 share numbers nobody holds (share -> empty server set), taken from the gaps
    of the share numbers in use and just above them."""
    if r.random() >= p:
        return set()
    used = {s for _, s in edges}
    free = [x for x in range(0, (max(used) if used else 0) + 4) if x not in used]
    return set(r.sample(free, min(len(free), r.choice([1, 1, 2, 3]))))


def all_small(max_s=4, max_h=4):
    for ns in range(max_s + 1):
        for nh in range(max_h + 1):
            cells = [(p, s) for p in range(ns) for s in range(nh)]
            for bits in range(2 ** len(cells)):
                yield ns, nh, [c for i, c in enumerate(cells) if bits >> i & 1]


def random_relation(r):
    ns = r.choice([1, 2, 3, 5, 8, 10, 13, 20, 29, 30, 30])
    nh = r.choice([1, 2, 3, 5, 8, 10, 13, 20, 29, 30, 30])
    style = r.choice(["sparse", "dense", "chain", "hub", "perfect+noise", "blocks"])
    E = set()
    if style == "sparse":
        for _ in range(r.randrange(1, ns + nh + 1)):
            E.add((r.randrange(ns), r.randrange(nh)))
    elif style == "dense":
        d = r.choice([0.3, 0.6, 0.95])
        E = {(p, s) for p in range(ns) for s in range(nh) if r.random() < d}
    elif style == "chain":          # long alternating paths: augmentation must re-route
        for i in range(min(ns, nh)):
            E.add((i, i))
            if i + 1 < nh:
                E.add((i, i + 1))
        for _ in range(r.randrange(0, 4)):
            E.add((r.randrange(ns), r.randrange(nh)))
    elif style == "hub":            # one server with everything, others with one share (the docstring example)
        E = {(0, s) for s in range(nh)}
        for p in range(1, ns):
            E.add((p, r.randrange(nh)))
    elif style == "perfect+noise":
        perm = list(range(nh))
        r.shuffle(perm)
        for p in range(min(ns, nh)):
            E.add((p, perm[p]))
        for _ in range(r.randrange(0, 2 * ns)):
            E.add((r.randrange(ns), r.randrange(nh)))
    else:                           # blocks: Hall violators (many servers sharing few shares)
        cut = max(1, ns // 2)
        few = max(1, nh // 4)
        for p in range(cut):
            for s in range(few):
                if r.random() < 0.8:
                    E.add((p, s))
        for p in range(cut, ns):
            E.add((p, r.randrange(nh)))
    # share numbers need not be contiguous
    if r.random() < 0.3:
        remap = r.sample(range(0, 256), nh)
        E = {(p, remap[s]) for (p, s) in E}
    empties = pick_empties(r, E, 0.3)
    return sorted(E), empties, style


def run(ctx):
    ctx.correspondence("servers_of_happiness-vs-model")
    ctx.correspondence("certificate-accepted-on-every-case")
    ctx.correspondence("graph-helpers-vs-model")
    batch = Batch(ctx)
    _hangs[0] = 0
    r0 = ctx.rng("orders")

    # fixed corpus: the docstring example, the empty map, shares nobody holds
    doc = [(1, 1), (1, 2), (1, 3), (1, 4), (2, 6), (3, 3), (4, 4), (5, 2)]
    w = one_case(ctx, batch, doc, set(), [0, 1, 2], r0, "docstring", deep=True)
    ctx.sample({"edges": doc, "happiness": w})
    for nm in NAMINGS[1:]:
        one_case(ctx, batch, doc, set(), [0, 2], r0, "docstring", naming=nm, deep=(nm == "int"))
    one_case(ctx, batch, [(0, 0)], set(), [0], r0, "one-edge", naming="int", deep=True)
    one_case(ctx, batch, [], set(), [0], r0, "empty")
    one_case(ctx, batch, [], {7, 9}, [0, 1], r0, "only-empty-peer-sets", deep=True)

    # exhaustive small scope
    if ctx.tier == "thorough" or ctx.search:
        n = 0
        for ns, nh, E in all_small():
            deep = (n % 97 == 0)
            # every relation: the real function under 2 (every 5th: 4) insertion orders against the oracle and the
            # model; certificate cross-check and the sharemap-level model on every 3rd relation
            one_case(ctx, batch, E, set(), [0, 2] if n % 5 else [0, 1, 2, 3], ctx.rng("small", n), "exhaustive-%dx%d" % (ns, nh),
                     deep=deep, cert=(n % 3 == 0), top=(n % 3 == 0))
            # the same relation with servers named 0..n-1 (ids equal to share numbers) and, in rotation, the other schemes
            one_case(ctx, batch, E, set(), [0], ctx.rng("small-int", n), "exhaustive-%dx%d" % (ns, nh), naming="int",
                     model=(n % 6 == 0), cert=False, top=False)
            re_ = ctx.rng("small-empty", n)
            emp = pick_empties(re_, E, 0.3)
            if emp:
                one_case(ctx, batch, E, emp, [0, 2], re_, "exhaustive-%dx%d" % (ns, nh), naming=("sha1", "int")[n % 2],
                         model=[0] if n % 3 == 0 else False, cert=False, top=[0], svm=False)
            if n % 4 == 0:
                one_case(ctx, batch, E, set(), [2], ctx.rng("small-alt", n), "exhaustive-%dx%d" % (ns, nh),
                         naming=NAMINGS[2 + (n // 4) % 3], model=(n % 24 == 0), cert=False, top=False)
            n += 1
            if len(batch.terms) >= 40000:
                batch.flush("c08small")
        ctx.note("exhaustive: %d relations between <= 4 servers and <= 4 shares, each also with integer server ids 0..n-1" % n)
    else:
        # quick: all relations <= 3x3 (one order + one shuffled) and a seeded sample of 4x4
        n = 0
        for ns, nh, E in all_small(3, 3):
            # the real function under both orders against the oracle; model on order 0 (with the certificate
            # cross-check), on the shuffled order for every 3rd relation, sharemap-level model for every 3rd
            one_case(ctx, batch, E, set(), [0, 2], ctx.rng("small", n), "exhaustive-%dx%d" % (ns, nh), deep=(n % 61 == 0),
                     model=[0, 2] if n % 3 == 0 else [0], cert=[0], top=[0] if n % 3 == 1 else [])
            one_case(ctx, batch, E, set(), [0], ctx.rng("small-int", n), "exhaustive-%dx%d" % (ns, nh), naming="int",
                     model=(n % 4 == 0), cert=False, top=False, deep=(n % 164 == 0))
            re_ = ctx.rng("small-empty", n)
            emp = pick_empties(re_, E, 0.3)
            if emp:     # the same relation plus share entries nobody holds; sharemap-level model
                one_case(ctx, batch, E, emp, [0, 2], re_, "exhaustive-%dx%d" % (ns, nh), naming=("sha1", "int")[n % 2],
                         model=[0], cert=False, top=[0], svm=False)
            n += 1
        cells = [(p, s) for p in range(4) for s in range(4)]
        for i in range(ctx.n(150, 3000)):
            r = ctx.rng("s44", i)
            bits = r.getrandbits(16)
            E44 = [c for j, c in enumerate(cells) if bits >> j & 1]
            emp = pick_empties(r, E44, 0.3)
            one_case(ctx, batch, E44, emp, [0, 1, 2], r, "sample-4x4", deep=(i % 29 == 0),
                     model=[0, 1 + i % 2], cert=[0], top=[0] if (i % 3 == 0 or emp) else [])
            one_case(ctx, batch, E44, emp, [0, 2], ctx.rng("s44-alt", i), "sample-4x4", naming=NAMINGS[1 + i % 4],
                     model=(i % 3 == 0), cert=False, top=False)
    batch.flush("c08small")

    # seeded random up to 30 x 30, several insertion orders
    for i in range(ctx.n(110, 1500)):
        r = ctx.rng("rand", i)
        E, empties, style = random_relation(r)
        small = len({p for p, _ in E}) + len({s for _, s in E}) <= 10
        quick = ctx.tier == "quick" and not ctx.search
        w = one_case(ctx, batch, E, empties, [0, 1, 2, 3], r, "random-" + style, deep=small and i % 3 == 0,
                     model=[0, 2 + i % 2] if quick else True, cert=[0] if quick else True, top=[0] if (i % 2 == 0 or empties or not quick) else [])
        # same relation, other server ids (the share numbers of a random relation are 0..29 or remapped, the
        # integer server ids 0..29 overlap them)
        one_case(ctx, batch, E, empties, [0, 2], ctx.rng("rand-alt", i), "random-" + style, naming=NAMINGS[1 + i % 4],
                 model=[2] if (small or i % 4 == 0) else False, cert=False, top=False)
        if i < 2:
            ctx.sample({"edges": E[:40], "happiness": w, "style": style})
        if len(batch.terms) >= 2000:
            batch.flush("c08rand")
    batch.flush("c08rand")

    merge_cases(ctx)


class _Tracker(object):
    def __init__(self, sid, buckets):
        self.sid = sid
        self.buckets = buckets

    def get_serverid(self):
        return self.sid


def merge_cases(ctx):
    """merge_servers + servers_of_happiness as upload.py calls them: the value is the
    maximum matching of the union of pre-existing shares and tracker buckets, and the
    caller's map is not modified."""
    from allmydata.util import happinessutil as U
    for i in range(ctx.n(150, 1500)):
        r = ctx.rng("merge", i)
        ns, nh = r.randrange(1, 9), r.randrange(1, 11)
        pre = {(r.randrange(ns), r.randrange(nh)) for _ in range(r.randrange(0, 12))}
        trk = {}
        for _ in range(r.randrange(0, 12)):
            trk.setdefault(r.randrange(ns), set()).add(r.randrange(nh))
        sm = {}
        for p, s in sorted(pre):
            sm.setdefault(s, set()).add(peer_id(p))
        before = copy.deepcopy(sm)
        trackers = set(_Tracker(peer_id(p), {s: None for s in shs}) for p, shs in trk.items())
        merged = U.merge_servers(sm, trackers)
        union = set(pre) | {(p, s) for p, shs in trk.items() for s in shs}
        got_rel = {(p, s) for s, ps in merged.items() for p in ps}
        want_rel = {(peer_id(p), s) for p, s in union}
        case = {"preexisting": sorted(pre), "trackers": {str(k): sorted(v) for k, v in trk.items()}}
        ctx.case(("merge", tuple(sorted(union)), tuple(sorted(pre))) if union else None, kind="merge_servers")
        if got_rel != want_rel or sm != before:
            ctx.oracle_fail("merge-servers-wrong-union", "merge_servers does not return the union of existing shares and tracker buckets "
                            "(or modified its argument)", case=case, expected=sorted(union), observed=sorted((p.hex()[:6], s) for p, s in got_rel))
        adj = {}
        for p, s in union:
            adj.setdefault(p, []).append(s)
        want = kuhn(adj)
        got = U.servers_of_happiness(merged)
        if got != want:
            ctx.oracle_fail("soh-not-maximum-matching", "servers_of_happiness(merge_servers(..)) = %r, maximum matching of the union is %d" % (got, want),
                            case=case, expected=want, observed=got)


def replay(ctx, rec):
    from allmydata.util import happinessutil as U
    case = rec.get("case") or {}
    if "edges" not in case:
        return {"note": "record has no single-relation case"}
    edges = [tuple(e) for e in case["edges"]]
    key_order = case.get("key_order") or sorted({s for _, s in edges})
    peer_orders = {int(k): v for k, v in (case.get("peer_orders") or {}).items()} or \
        {sh: sorted(p for p, s in edges if s == sh) for sh in key_order}
    naming = case.get("server_ids") or "sha1"
    sm = build_sharemap(edges, set(case.get("empty_shares") or []), key_order, peer_orders, naming)
    adj = {}
    for p, s in edges:
        adj.setdefault(p, []).append(s)
    want = kuhn(adj)
    try:
        got = call_with_timeout(U.servers_of_happiness, sm)
    except NeverReturns:
        ctx.oracle_fail("soh-never-returns", "servers_of_happiness did not return within %.0f s" % CALL_TIMEOUT, case=case,
                        expected=want, observed="no result")
        return {"implementation": "never returns", "maximum_matching": want, "sharemap": repr(sm)[:600]}
    if got != want:
        ctx.oracle_fail("soh-not-maximum-matching", "servers_of_happiness = %r, maximum matching = %d" % (got, want), case=case,
                        expected=want, observed=got)
    numbering = {name_peer(naming, p): p for p, _ in edges}
    svm = [(numbering[p], list(shs)) for p, shs in U.shares_by_server(sm).items()]
    model = ctx.coq_eval(IMPORTS, "(soh_servermap %s, soh_certificate %s)" % (t_svm(svm), t_svm(svm))) if svm else "n/a"
    return {"implementation": got, "maximum_matching": want, "model": model}
