"""C33  Grid-manager certificates grant permission only when valid."""
import hashlib
import json
from datetime import datetime, timedelta, timezone

from core import env
from core import term as T

ID = "C33"
GEN = []
RULE = ("cases: the default clock under non-UTC process time zones with certificates within hours of the real present; histories of announcements for the same servers through one real StorageFarmBroker (0/1/2 grid-manager keys, Foolscap "
        "and HTTP server objects; certificates kept / added / renewed / withdrawn between announcements, clock advancing), histories in one process (genuine certificates verified first, then altered copies reusing their signatures, through "
        "validate_grid_manager_certificate and through fresh verifier closures for several servers) and (configured grid-manager keys, list of certificates, server key, instants at which the predicate is called); "
        "certificates are valid / signed by an unconfigured key / tampered bytes / tampered signature / other server / expired / "
        "future, instants sit on and one microsecond around every expiry; non-trivial = at least one certificate verifies under a "
        "configured key and names this server (the expiry comparison decides) ; distinct = distinct (certificate kinds, expiry-vs-now "
        "relations, number of keys)")
META = {
    "title": "Grid-manager certificates grant permission only when valid",
    "level_text": ("Theorems in Coq over a statement-by-statement model of validate_grid_manager_certificate / "
                   "create_grid_manager_verifier / upload_permitted, for EVERY signature scheme and JSON decoder: the predicate is "
                   "true exactly when some certificate verifies under a configured key, names this server and now < expires "
                   "(strict); no keys => always true; certificates whose bytes were not signed never grant (under signature "
                   "soundness).  The model, instantiated with symbolic signatures, is run against the real functions with real "
                   "Ed25519 keys, and the property's rule is evaluated directly on the real predicate."),
    "level_note": ("Ed25519, JSON and ISO-8601 parsing are abstract in the proof (Section variables; the soundness hypothesis is "
                   "explicit in tampered_never_grants) and exercised only by the differential run.  permitted_iff carries the "
                   "precondition that certificates signed by a configured key are well-formed: on GM-signed garbage the real "
                   "predicate raises (modelled as Raise, shown by ex_*_raises, covered by permit_only_with_valid_certificate)."),
    "technique": "Coq proof over an executable model (abstract signature scheme) + differential run vs implementation with real keys",
    "design_ref": "8/C33",
    "trusted_base": ["driver's mapping of real keys/signatures/certificate bytes to symbols (harness/props/c33.py)",
                     "stdlib json + datetime.fromisoformat used to fill the model's decode table"],
    "assumptions": ["signature soundness of Ed25519 (hypothesis of tampered_never_grants)",
                    "certificates signed by a configured grid manager are well-formed (hypothesis of permitted_iff)"],
}

IMPORTS = ["Lib.Sig", "Model.GridManager"]
EPOCH = datetime(1970, 1, 1, tzinfo=timezone.utc)
US = timedelta(microseconds=1)
FURL = "pb://62ubehyunnyhzs7r6vdonnm2hpi52w6y@127.0.0.1:1/x"

_keys = {}


def key(tag):
    """Deterministic real Ed25519 key pair."""
    from allmydata.crypto import ed25519
    from allmydata.util import base32
    if tag not in _keys:
        seed = hashlib.sha256(b"verif-c33-" + tag.encode()).digest()
        sk, vk = ed25519.signing_keypair_from_string(b"priv-v0-" + base32.b2a(seed))
        _keys[tag] = (sk, vk, ed25519.string_from_verifying_key(vk))
    return _keys[tag]


NGM = 4          # grid-manager key pool G0..G3
NSRV = 3         # storage-server key pool S0..S2


def micros(dt):
    return (dt - EPOCH) // US


class World(object):
    """Registry of everything genuinely signed: (gm index, bytes) -> signature."""

    def __init__(self):
        self.signed = {}

    def sign(self, g, data):
        from allmydata.crypto import ed25519
        k = (g, data)
        if k not in self.signed:
            self.signed[k] = ed25519.sign_data(key("G%d" % g)[0], data)
        return self.signed[k]

    def signer_of(self, data, sig):
        for (g, d), s in self.signed.items():
            if s == sig:
                return g, d
        return None


def cert_bytes(pk_string, expires_iso, r=None, extra=None):
    d = {"expires": expires_iso, "public_key": pk_string.decode("ascii"), "version": 1}
    if extra:
        d.update(extra)
    if r is not None and r.random() < 0.2:
        return json.dumps(d, indent=1).encode("utf-8")          # other whitespace / key order
    return json.dumps(d, separators=(",", ":"), sort_keys=True).encode("utf-8")


def iso(dt, r):
    if r.random() < 0.25:
        off = r.choice([330, -480, 60, 1439, -1439])
        return dt.astimezone(timezone(timedelta(minutes=off))).isoformat()
    return dt.isoformat()


def decode_entry(data, spk_ids):
    """What json.loads + the member reads of validate() give for these bytes:
    None = json.loads raises; "null"; (None,) = validate raises; (pk_id, ('aware', us) | ('naive',))."""
    try:
        js = json.loads(data)
    except ValueError:
        return None
    if js is None:
        return "null"
    try:
        exp = datetime.fromisoformat(js["expires"])
        pc = js["public_key"].encode("ascii")
    except Exception:
        return (None,)
    pid = spk_ids.setdefault(pc, 100 + len(spk_ids))
    if exp.tzinfo is None or exp.tzinfo.utcoffset(exp) is None:
        return (pid, ("naive",))
    return (pid, ("aware", micros(exp)))


WS = [" ", "\n", "\t", "\r\n", "\u00a0", "\t\n", "  "]


def pad_whitespace(r, data):
    """White space added at either end of the certificate text AFTER it was signed: other bytes, not signed."""
    text = data.decode("utf-8")
    where = r.choice(["after", "before", "both"])
    if where != "after":
        text = r.choice(WS) + text
    if where != "before":
        text = text + r.choice(WS)
    return text.encode("utf-8")


def gen_case(r, malformed=False):
    """-> dict(keys=[gm idx], certs=[dict(kind, data, sig, truth)], server=idx, times=[datetime])"""
    w = World()
    nk = r.choice([0, 1, 1, 1, 2, 2, 3])
    configured = [r.randrange(NGM) for _ in range(nk)]
    if nk and r.random() < 0.1:
        configured.append(configured[0])            # a key configured twice
    unconfigured = [g for g in range(NGM) if g not in configured] or [None]
    me = r.randrange(NSRV)
    other = (me + 1 + r.randrange(NSRV - 1)) % NSRV
    base = datetime(2024, 1, 1, tzinfo=timezone.utc) + timedelta(seconds=r.randrange(10 ** 8), microseconds=r.randrange(10 ** 6))
    certs = []
    expiries = []
    ncert = r.choice([0, 1, 1, 2, 2, 3, 4])
    kinds = ["valid", "valid", "valid", "expired", "future", "wrong-signer", "tampered-bytes", "tampered-sig", "other-server", "ws-padded"]
    if malformed:
        kinds = kinds + ["signed-not-json", "signed-missing-member", "signed-naive-expiry", "signed-not-object", "signed-bad-date"] * 2
    for _ in range(ncert):
        kind = r.choice(kinds)
        g = r.choice(configured) if configured else r.randrange(NGM)
        exp = base + r.choice([timedelta(0), timedelta(0), US, -US, timedelta(days=r.randrange(1, 400)), -timedelta(days=r.randrange(1, 400)),
                               timedelta(seconds=r.randrange(1, 100)), -timedelta(seconds=r.randrange(1, 100))])
        if kind == "expired":
            exp = base - timedelta(seconds=r.randrange(0, 10 ** 6), microseconds=r.randrange(2))
        if kind == "future":
            exp = base + timedelta(seconds=r.randrange(1, 10 ** 6))
        pk = key("S%d" % me)[2]
        truth = dict(signer=g, names=me, expires=exp, genuine=True)
        if kind == "other-server":
            pk = key("S%d" % other)[2]
            truth["names"] = other
        if kind == "wrong-signer":
            g = r.choice(unconfigured)
            if g is None:
                g = configured[0]
                kind = "valid"
            truth["signer"] = g
        data = cert_bytes(pk, iso(exp, r), r)
        if kind == "signed-not-json":
            data = r.choice([b"\xff\xfenot json", b"{", b"", b"{'expires': 1}"])
        elif kind == "signed-missing-member":
            d = {"expires": iso(exp, r), "public_key": pk.decode(), "version": 1}
            del d[r.choice(["expires", "public_key"])]
            data = json.dumps(d).encode()
        elif kind == "signed-naive-expiry":
            data = cert_bytes(r.choice([pk, key("S%d" % other)[2]]), exp.replace(tzinfo=None).isoformat())
        elif kind == "signed-not-object":
            data = r.choice([b"[1,2]", b"5", b"null", b'"x"'])
        elif kind == "signed-bad-date":
            data = json.dumps({"expires": r.choice(["tomorrow", 5, None, "2024-13-01T00:00:00+00:00"]), "public_key": pk.decode(), "version": 1}).encode()
        sig = w.sign(g, data)
        if kind.startswith("signed-"):
            truth["genuine"] = False          # not a certificate the rule speaks about
        if kind == "ws-padded":
            # an otherwise valid, unexpired certificate for this server
            exp = base + timedelta(days=r.randrange(1, 400))
            truth["expires"] = exp
            orig = cert_bytes(pk, exp.isoformat())
            sig = w.sign(g, orig)
            data = pad_whitespace(r, orig)
            truth["genuine"] = False
        if kind == "tampered-bytes":
            how = r.choice(["later-expiry", "retarget", "flip"])
            if how == "later-expiry":
                exp0 = base - timedelta(days=r.randrange(1, 100))
                orig = cert_bytes(pk, exp0.isoformat())
                sig = w.sign(g, orig)
                data = cert_bytes(pk, (base + timedelta(days=365)).isoformat())
            elif how == "retarget":
                orig = cert_bytes(key("S%d" % other)[2], exp.isoformat())
                sig = w.sign(g, orig)
                data = cert_bytes(pk, exp.isoformat())
            else:
                b = bytearray(data)
                pos = r.randrange(len(b))
                b[pos] ^= 1 << r.randrange(8)
                data = bytes(b)
            truth["genuine"] = False
        if kind == "tampered-sig":
            how = r.choice(["flip", "flip", "truncate", "empty", "zeros", "extend"])
            b = bytearray(sig)
            if how == "flip":
                b[r.randrange(len(b))] ^= 1 << r.randrange(8)
            elif how == "truncate":
                b = b[:-1]
            elif how == "empty":
                b = bytearray()
            elif how == "zeros":
                b = bytearray(64)
            else:
                b = b + b"\x00"
            sig = bytes(b)
            truth["genuine"] = False
        certs.append(dict(kind=kind, data=data, sig=sig, truth=truth))
        expiries.append(exp)
    times = []
    for e in expiries:
        times.append(e + r.choice([-US, timedelta(0), US]))
    times.append(base)
    times.append(base + timedelta(seconds=r.randrange(-10 ** 7, 10 ** 7)))
    r.shuffle(times)
    times = times[:4]
    return dict(world=w, keys=configured, certs=certs, server=me, times=times)


def expected(case, now):
    """The property's rule, from how the certificates were made."""
    if not case["keys"]:
        return True
    for c in case["certs"]:
        t = c["truth"]
        if t["genuine"] and t["signer"] in case["keys"] and t["names"] == case["server"] and now < t["expires"]:
            return True
    return False


def run_impl(case):
    from allmydata.grid_manager import create_grid_manager_verifier, SignedCertificate
    cur = [None]
    keys = [key("G%d" % g)[1] for g in case["keys"]]
    certs = [SignedCertificate(certificate=c["data"], signature=c["sig"]) for c in case["certs"]]
    try:
        v = create_grid_manager_verifier(keys, certs, key("S%d" % case["server"])[2], now_fn=lambda: cur[0], bad_cert=lambda k, c: None)
    except Exception as e:
        return ["Raise"] * len(case["times"]), type(e).__name__
    out = []
    err = None
    for t in case["times"]:
        cur[0] = t
        try:
            res = v()
            out.append("Permit" if res is True else "Deny" if res is False else "Other:%r" % (res,))
        except Exception as e:
            out.append("Raise")
            err = type(e).__name__
    return out, err


def sym_parts(w, certs, spk_ids, msg_ids=None, tbl=None):
    """Symbolic rendering of a list of certificates (dicts with data, sig) signed in world `w`:
    -> (decode-table entries, certificate terms).  Distinct byte strings get distinct message ids;
    a signature is SigOf k m exactly when it is the signature `w` made with key k over bytes m."""
    msg_ids = {} if msg_ids is None else msg_ids
    tbl = [] if tbl is None else tbl

    def mid(data):
        if data not in msg_ids:
            msg_ids[data] = 1000 + len(msg_ids)
            d = decode_entry(data, spk_ids)
            if d is None:
                ent = "None"
            elif d == "null":
                ent = "(Some JNull)"
            elif d == (None,):
                ent = "(Some JUnreadable)"
            else:
                pid, e = d
                ent = "(sym_f %s %s)" % (T.N(pid), "ExpNaive" if e[0] == "naive" else "(ExpAware %s)" % T.Z(e[1]))
            tbl.append("(%s, %s)" % (T.N(msg_ids[data]), ent))
        return msg_ids[data]

    cs = []
    for n, c in enumerate(certs):
        m = mid(c["data"])
        so = w.signer_of(c["data"], c["sig"])
        if so is None:
            s = "(SigJunk %s)" % T.N(n)
        else:
            s = "(SigOf %s %s)" % (T.N(so[0]), T.N(mid(so[1])))
        cs.append("(sym_cert %s %s)" % (T.N(m), s))
    return tbl, cs


def model_term(case, observed):
    spk_ids = {key("S%d" % i)[2]: 10 + i for i in range(NSRV)}
    tbl, cs = sym_parts(case["world"], case["certs"], spk_ids)
    return "outcomes_eqb (sym_permitted_at %s %s %s %s %s) %s" % (
        T.lst(tbl), T.lst([T.N(g) for g in case["keys"]]), T.lst(cs), T.N(10 + case["server"]),
        T.lst([T.Z(micros(t)) for t in case["times"]]), T.lst(observed))


def describe(case):
    return {"keys": case["keys"], "server": case["server"],
            "certs": [{"kind": c["kind"], "bytes": c["data"].decode("latin-1"), "sig": c["sig"].hex(),
                       "signer": c["truth"]["signer"], "names": c["truth"]["names"], "expires": c["truth"]["expires"].isoformat()} for c in case["certs"]],
            "times": [t.isoformat() for t in case["times"]]}


def judge(ctx, case, observed, err, stream, index):
    """Direct oracle on the implementation's observable."""
    wellformed = not any(c["kind"].startswith("signed-") and c["truth"]["signer"] in case["keys"] for c in case["certs"])
    for t, o in zip(case["times"], observed):
        want = expected(case, t)
        info = dict(describe(case), stream=stream, index=index, now=t.isoformat())
        if o == "Permit" and not want:
            bad = sorted(set(c["kind"] for c in case["certs"]))
            ctx.oracle_fail("gm-permission-granted-without-valid-certificate",
                            "verifier returned True at %s although no certificate is signed by a configured key, names this server "
                            "and expires later (certificate kinds: %s)" % (t.isoformat(), ",".join(bad)),
                            case=info, expected="Deny", observed=o)
        elif o == "Deny" and want:
            ctx.oracle_fail("gm-permission-denied-despite-valid-certificate",
                            "verifier returned False at %s although %s" % (t.isoformat(), "a valid unexpired certificate for this server is present"
                                                                          if case["keys"] else "no grid-manager keys are configured (every server is permitted)"),
                            case=info, expected="Permit", observed=o)
        elif o == "Raise" and wellformed:
            ctx.oracle_fail("gm-verifier-raises-on-wellformed-certificates",
                            "verifier raised %s at %s on well-formed certificates" % (err, t.isoformat()), case=info,
                            expected="Permit" if want else "Deny", observed=o)
        elif o not in ("Permit", "Deny", "Raise"):
            ctx.oracle_fail("gm-verifier-returns-non-boolean", "verifier returned %s" % o, case=info, expected="bool", observed=o)


def one_case(ctx, stream, i):
    r = ctx.rng(stream, i)
    case = gen_case(r, malformed=(stream == "malformed"))
    observed, err = run_impl(case)
    judge(ctx, case, observed, err, stream, i)
    deciding = [c for c in case["certs"] if c["truth"]["genuine"] and c["truth"]["signer"] in case["keys"] and c["truth"]["names"] == case["server"]]
    rel = tuple(sorted(set((t > c["truth"]["expires"]) - (t < c["truth"]["expires"]) for c in deciding for t in case["times"])))
    kinds = tuple(sorted(c["kind"] for c in case["certs"]))
    ctx.case((kinds, rel, len(case["keys"])) if deciding else None, kind=stream)
    for c in case["certs"]:
        ctx.count("cert:" + c["kind"])
    for o in observed:
        ctx.count("outcome:" + o)
    return case, observed


def history(ctx, i, terms, info):
    """One process, several verifications in sequence: genuine certificates are verified FIRST (directly and through
    verifier closures), THEN copies with altered bytes that reuse the genuine signatures are presented -- to the same and
    to other verifiers / servers.  Whatever was verified before, a certificate counts only if its signature verifies over
    its ACTUAL bytes."""
    from allmydata.grid_manager import validate_grid_manager_certificate, SignedCertificate
    r = ctx.rng("history", i)
    w = World()
    keys = [r.randrange(NGM) for _ in range(r.choice([1, 1, 2]))]
    g = r.choice(keys)
    me = r.randrange(NSRV)
    other = (me + 1 + r.randrange(NSRV - 1)) % NSRV
    base = datetime(2024, 1, 1, tzinfo=timezone.utc) + timedelta(seconds=r.randrange(10 ** 8), microseconds=r.randrange(10 ** 6))
    pk_me, pk_other = key("S%d" % me)[2], key("S%d" % other)[2]
    later = base + timedelta(days=r.randrange(1, 400))
    past = base - timedelta(seconds=r.randrange(1, 10 ** 6))

    def cert(kind, data, sig, names, exp, genuine):
        return dict(kind=kind, data=data, sig=sig, truth=dict(signer=g, names=names, expires=exp, genuine=genuine))

    dA = cert_bytes(pk_other, later.isoformat())                 # genuine, for the other server
    dB = cert_bytes(pk_me, past.isoformat())                     # genuine, for this server, expired
    dC = cert_bytes(pk_other, past.isoformat())                  # genuine, other server AND expired
    A = cert("valid-other-server", dA, w.sign(g, dA), other, later, True)
    B = cert("valid-expired", dB, w.sign(g, dB), me, past, True)
    C = cert("valid-other-expired", dC, w.sign(g, dC), other, past, True)
    # altered bytes, genuine signatures
    A2 = cert("retargeted-copy", cert_bytes(pk_me, later.isoformat()), A["sig"], me, later, False)
    B2 = cert("expiry-pushed-copy", cert_bytes(pk_me, later.isoformat()), B["sig"], me, later, False)
    C2 = cert("rewritten-copy", cert_bytes(pk_me, later.isoformat()), C["sig"], me, later, False)
    A3 = cert("respaced-copy", json.dumps(json.loads(dA), indent=2).encode(), A["sig"], other, later, False)
    spk_ids = {key("S%d" % k)[2]: 10 + k for k in range(NSRV)}
    steps = []

    def direct(c, k):
        """validate_grid_manager_certificate called on its own"""
        try:
            res = validate_grid_manager_certificate(key("G%d" % k)[1], SignedCertificate(certificate=c["data"], signature=c["sig"]))
            cls = 0 if res is None else 1
        except Exception:
            cls = 2
        want = 1 if w.signed.get((k, c["data"])) == c["sig"] else 0
        ctx.case(("validate", c["kind"], k == g, cls), kind="history-validate")
        steps.append("validate(%s, G%d)=%d" % (c["kind"], k, cls))
        if cls != want:
            ctx.oracle_fail("gm-validate-accepts-unsigned-bytes" if cls == 1 else "gm-validate-rejects-genuine-certificate",
                            "after %s, validate_grid_manager_certificate(G%d, %s) %s although key G%d %s exactly these bytes"
                            % (steps[:-1] or "nothing", k, c["kind"], {0: "returned None", 1: "returned the certificate", 2: "raised"}[cls], k,
                               "signed" if want else "never signed"),
                            case={"stream": "history", "index": i, "steps": list(steps), "bytes": c["data"].decode(), "sig": c["sig"].hex()},
                            expected=want, observed=cls)
        tbl, cs = sym_parts(w, [c], dict(spk_ids))
        terms.append("(sym_validate_class %s %s %s =? %s)" % (T.lst(tbl), T.N(k), cs[0], T.N(cls)))
        info.append(("history", i, {"steps": list(steps)}, cls))

    def closure(certs, server):
        """a fresh verifier over `certs` for `server`, called around the expiries"""
        case = dict(world=w, keys=keys, certs=certs, server=server, times=[base, later - US, later, past])
        observed, err = run_impl(case)
        steps.append("verifier(%s for S%d)=%s" % ([c["kind"] for c in certs], server, observed))
        judge(ctx, case, observed, err, "history", i)
        ctx.case(("closure", tuple(c["kind"] for c in certs), server == me, tuple(observed)), kind="history-verifier")
        terms.append(model_term(case, observed))
        info.append(("history", i, dict(describe(case), steps=list(steps)), observed))

    # 1. the genuine certificates are seen first
    firsts = [A, B, C]
    r.shuffle(firsts)
    for c in firsts:
        if r.random() < 0.7:
            direct(c, g)
    closure(firsts, me)
    closure(firsts, other)
    # 2. then the altered copies, alone / after their originals / before them, for both servers
    for c2, c1 in r.sample([(A2, A), (B2, B), (C2, C), (A3, A)], 3):
        direct(c2, g)
        closure(r.choice([[c2], [c1, c2], [c2, c1], [A, B, c2]]), r.choice([me, me, other]))
    closure([A2, B2, C2], me)
    # 3. and the originals still count for whom they were issued
    direct(r.choice(firsts), g)
    closure([A3, A], other)
    for c in firsts + [A2, B2, C2, A3]:
        ctx.count("cert:" + c["kind"])


class _Reconnector(object):
    def stopConnecting(self):
        pass

    def reset(self):
        pass


def _stand_in_tub():
    """What a NativeStorageServer needs of a foolscap Tub while nothing listens at the other end."""
    from twisted.application import service

    class StandInTub(service.MultiService):
        def connectTo(self, furl, callback, *a, **kw):
            return _Reconnector()
    return StandInTub()


def draw_certs(r, w, keys, me, base, n=None):
    """A certificate list as a storage server would announce it (all UTF-8, base32-able)."""
    out = []
    for _ in range(r.choice([0, 1, 1, 2, 3]) if n is None else n):
        kind = r.choice(["valid", "valid", "valid", "expired", "soon", "tampered-bytes", "tampered-sig", "other-server", "wrong-signer", "ws-padded", "ws-padded"])
        g = r.choice(keys) if keys else r.randrange(NGM)
        other = (me + 1 + r.randrange(NSRV - 1)) % NSRV
        exp = base + timedelta(days=r.randrange(1, 400))
        names, genuine = me, True
        if kind == "expired":
            exp = base - timedelta(seconds=r.randrange(1, 10 ** 6))
        elif kind == "soon":
            exp = base + timedelta(seconds=r.randrange(1, 50))
        elif kind == "other-server":
            names = other
        elif kind == "wrong-signer":
            others = [x for x in range(NGM) if x not in keys]
            if others:
                g = r.choice(others)
        data = cert_bytes(key("S%d" % names)[2], exp.isoformat())
        sig = w.sign(g, data)
        if kind == "ws-padded":
            data = pad_whitespace(r, data)          # `sig` stays the signature over the unpadded text
            genuine = False
        elif kind == "tampered-bytes":
            orig = cert_bytes(key("S%d" % other)[2], exp.isoformat())
            sig = w.sign(g, orig)
            genuine = False
        elif kind == "tampered-sig":
            b = bytearray(sig)
            b[r.randrange(64)] ^= 1 << r.randrange(8)
            sig = bytes(b)
            genuine = False
        out.append(dict(kind=kind, data=data, sig=sig, truth=dict(signer=g, names=names, expires=exp, genuine=genuine)))
    return out


def announcements(ctx, terms, info, only=None):
    """A long-running client: one real StorageFarmBroker (0/1/2 grid-manager keys; Foolscap or HTTP server objects) is
    fed HISTORIES of announcements for a few servers -- rising seqnum, new nonce, sometimes a changed FURL/nickname, and a
    certificate list that is kept, extended (`tahoe admin add-grid-manager-cert`), renewed or withdrawn.  After every
    announcement every server's upload_permitted() must be the certificate rule applied to the list it announced LAST."""
    import contextlib
    import io
    import allmydata.grid_manager as gm
    from allmydata.client import config_from_string
    from allmydata.storage_client import (StorageFarmBroker, StorageClientConfig, NativeStorageServer, HTTPNativeStorageServer,
                                          ANONYMOUS_STORAGE_NURLS)
    from allmydata.util import base32
    saved = gm.current_datetime_with_zone
    try:
        for i in (range(ctx.n(30, 300)) if only is None else [only]):
            r = ctx.rng("announce", i)
            w = World()
            keys = [r.randrange(NGM) for _ in range(r.choice([0, 1, 1, 2, 2]))]
            http = r.random() < 0.35
            base = datetime(2025, 3, 1, tzinfo=timezone.utc) + timedelta(seconds=r.randrange(10 ** 7), microseconds=r.randrange(10 ** 6))
            cur = [base]
            gm.current_datetime_with_zone = lambda: cur[0]
            cfg = config_from_string(env.subdir("c33-node"), "tub.port", "[client]\nforce_foolscap = %s\n" % ("False" if http else "True"))
            sb = StorageFarmBroker(True, lambda handler_overrides: _stand_in_tub(), cfg,
                                   StorageClientConfig(grid_manager_keys=[key("G%d" % g)[1] for g in keys]))
            servers = list(range(NSRV))
            held = dict((m, []) for m in servers)
            seq = dict((m, r.randrange(1, 50)) for m in servers)
            place = dict((m, 0) for m in servers)
            hist = []                                   # [(server, certs)] as announced, oldest first
            steps = []
            spk_ids = {key("S%d" % k)[2]: 10 + k for k in range(NSRV)}
            msg_ids, tbl = {}, []
            hist_terms = []
            with contextlib.redirect_stdout(io.StringIO()):
                for step in range(r.choice([3, 4, 5, 6])):
                    me = r.choice(servers)
                    what = r.random()
                    if not any(m == me for m, _ in hist) or what < 0.25:
                        certs = draw_certs(r, w, keys, me, base)
                        how = "new list"
                    elif what < 0.6:
                        certs = held[me] + draw_certs(r, w, keys, me, base, 1)
                        how = "one more certificate"
                    elif what < 0.8:
                        certs = []
                        how = "certificates withdrawn"
                    else:
                        certs = held[me]
                        how = "unchanged"
                    held[me] = certs
                    seq[me] += r.randrange(1, 4)
                    if r.random() < 0.2:
                        place[me] += 1
                    sid = key("S%d" % me)[2][len(b"pub-"):]
                    ann = {"service-name": "storage", "version": 0, "nickname": "node-%d" % me, "my-version": "tahoe-lafs/1.19.%d" % step,
                           "app-versions": {}, "oldest-supported": "1.0", "seqnum": seq[me], "nonce": "n%d" % r.randrange(10 ** 9),
                           "anonymous-storage-FURL": "pb://%s@tcp:host%d.example:%d/swiss%d" % ("a" * 32, place[me], 3000 + place[me], me),
                           "permutation-seed-base32": sid[3:].decode(),
                           "grid-manager-certificates": [{"certificate": c["data"].decode("utf-8"), "signature": base32.b2a(c["sig"]).decode("ascii")}
                                                         for c in certs]}
                    if http:
                        ann[ANONYMOUS_STORAGE_NURLS] = {"pb://%s@host%d.example:%d/swiss%d#v=1" % ("b" * 32, place[me], 4000 + place[me], me)}
                    sb._got_announcement(sid, ann)
                    if r.random() < 0.3:
                        sb._got_announcement(sid, dict(ann))                    # exact repeat
                    hist.append((me, certs))
                    t2, cs2 = sym_parts(w, certs, spk_ids, msg_ids, tbl)
                    hist_terms.append("(%s, %s)" % (T.N(me), T.lst(cs2)))
                    steps.append("S%d seq=%d place=%d %s: %s" % (me, seq[me], place[me], how, [c["kind"] for c in certs]))
                    if r.random() < 0.4:
                        cur[0] = cur[0] + timedelta(seconds=r.choice([1, 30, 60, 3600]))   # time passes; 'soon' certificates run out
                    # every server the client knows, against the list it announced last
                    for m in servers:
                        msid = key("S%d" % m)[2][len(b"pub-"):]
                        srv = sb.servers.get(msid)
                        latest = [c for (mm, c) in hist if mm == m]
                        if srv is None:
                            obs = None
                        else:
                            assert isinstance(srv, HTTPNativeStorageServer if http else NativeStorageServer), srv
                            try:
                                res = srv.upload_permitted()
                                obs = "Permit" if res is True else "Deny" if res is False else "Other:%r" % (res,)
                            except Exception:
                                obs = "Raise"
                        cinfo = {"stream": "announce", "index": i, "configured_keys": keys, "http": http, "server": m, "now": cur[0].isoformat(),
                                 "announcements_so_far": list(steps)}
                        if (srv is None) != (not latest):
                            ctx.oracle_fail("gm-broker-server-set", "broker %s server S%d" % ("does not know" if srv is None else "knows unannounced", m), case=cinfo,
                                            expected=bool(latest), observed=srv is not None)
                            continue
                        if srv is None:
                            continue
                        case = dict(world=w, keys=keys, certs=latest[-1], server=m, times=[cur[0]])
                        want = expected(case, cur[0])
                        ctx.case(("announce", tuple(keys), http, m, tuple(c["kind"] for c in latest[-1]), len(latest), obs), kind="announce-http" if http else "announce-foolscap")
                        if obs != ("Permit" if want else "Deny"):
                            first = [c["kind"] for c in latest[0]]
                            ctx.oracle_fail("gm-permission-not-from-latest-announcement" if len(latest) > 1 else
                                            ("gm-permission-granted-without-valid-certificate" if obs == "Permit" else "gm-permission-denied-despite-valid-certificate"),
                                            "after %d announcements of server S%d (certificates first %s, now %s) upload_permitted() is %s at %s; the certificates it "
                                            "announces now say %s" % (len(latest), m, first, [c["kind"] for c in latest[-1]], obs, cur[0].isoformat(), "Permit" if want else "Deny"),
                                            case=cinfo, expected="Permit" if want else "Deny", observed=obs)
                        terms.append("opt_outcomes_eqb (sym_broker_permitted %s %s %s %s %s %s) [%s]" % (
                            T.lst(tbl), T.lst([T.N(g) for g in keys]), T.lst(hist_terms), T.N(m), T.N(10 + m), T.lst([T.Z(micros(cur[0]))]),
                            "Some " + obs if obs in ("Permit", "Deny", "Raise") else "None"))
                        info.append(("announce", i, cinfo, obs))
                for srv in list(sb.servers.values()):
                    try:
                        srv.stop_connecting()
                    except Exception:
                        pass
    finally:
        gm.current_datetime_with_zone = saved


def timezones(ctx, terms, info, only=None):
    """The verifier's DEFAULT clock (no now_fn: what the node uses) in processes whose local time zone is not UTC.
    Expiry is an absolute instant: a certificate that ran out (or runs out) within a few hours of the real present must
    be judged against the real UTC present whatever TZ says."""
    import contextlib
    import io
    import os
    import time
    from allmydata.client import config_from_string
    from allmydata.grid_manager import create_grid_manager_verifier, SignedCertificate
    from allmydata.storage_client import StorageFarmBroker, StorageClientConfig
    from allmydata.util import base32
    saved = os.environ.get("TZ")
    try:
        for i in (range(ctx.n(24, 240)) if only is None else [only]):
            r = ctx.rng("tz", i)
            tz = r.choice(["UTC0", "PST8", "PST8PDT", "HST10", "AKST9", "JST-9", "IST-5:30", "NZST-12", "CET-1", "AEST-10", "BRT3"])
            os.environ["TZ"] = tz
            time.tzset()
            real = datetime.now(timezone.utc)
            w = World()
            keys = [r.randrange(NGM)]
            g = keys[0]
            me = r.randrange(NSRV)
            other = (me + 1) % NSRV
            certs = []
            for _ in range(r.choice([1, 1, 2])):
                kind = r.choice(["ran-out-hours-ago", "ran-out-hours-ago", "runs-out-in-hours", "runs-out-in-hours", "other-server"])
                hours = timedelta(minutes=r.randrange(20, 13 * 60))
                exp = real - hours if kind == "ran-out-hours-ago" else real + hours
                names = other if kind == "other-server" else me
                data = cert_bytes(key("S%d" % names)[2], iso(exp, r))
                certs.append(dict(kind=kind, data=data, sig=w.sign(g, data), truth=dict(signer=g, names=names, expires=exp, genuine=True)))
            case = dict(world=w, keys=keys, certs=certs, server=me, times=[real])
            want = expected(case, real)
            observed = []
            with contextlib.redirect_stdout(io.StringIO()):
                # (a) the closure with its default clock
                v = create_grid_manager_verifier([key("G%d" % g)[1]], [SignedCertificate(certificate=c["data"], signature=c["sig"]) for c in certs],
                                                 key("S%d" % me)[2])
                # (b) the server object a StorageFarmBroker builds from an announcement
                sb = StorageFarmBroker(True, None, config_from_string(env.subdir("c33-node"), "tub.port", ""),
                                       StorageClientConfig(grid_manager_keys=[key("G%d" % g)[1]]))
                ann = {"anonymous-storage-FURL": FURL, "permutation-seed-base32": "ae",
                       "grid-manager-certificates": [{"certificate": c["data"].decode(), "signature": base32.b2a(c["sig"]).decode()} for c in certs]}
                srv = sb._make_storage_server(key("S%d" % me)[2][len(b"pub-"):], {"ann": ann})
                for how, fn in (("create_grid_manager_verifier()()", v), ("NativeStorageServer.upload_permitted()", srv.upload_permitted)):
                    try:
                        res = fn()
                        o = "Permit" if res is True else "Deny" if res is False else "Other:%r" % (res,)
                    except Exception as e:
                        o = "Raise"
                    observed.append((how, o))
            for how, o in observed:
                ctx.case(("tz", tz, tuple(c["kind"] for c in certs), how, o), kind="default-clock:" + ("UTC" if tz == "UTC0" else "non-UTC"))
                if o != ("Permit" if want else "Deny"):
                    ctx.oracle_fail("gm-default-clock-not-utc",
                                    "process time zone TZ=%s, real time %s UTC: %s with the default clock answers %s, but the certificates (%s) say %s -- "
                                    "the default clock does not read the UTC present" % (tz, real.isoformat(), how, o,
                                    ", ".join("%s %s" % (c["kind"], c["truth"]["expires"].isoformat()) for c in certs), "Permit" if want else "Deny"),
                                    case=dict(describe(case), stream="tz", index=i, TZ=tz), expected="Permit" if want else "Deny", observed=o)
                terms.append(model_term(case, [o]))
                info.append(("tz", i, dict(describe(case), TZ=tz, how=how), [o]))
    finally:
        if saved is None:
            os.environ.pop("TZ", None)
        else:
            os.environ["TZ"] = saved
        time.tzset()


def run(ctx):
    ctx.correspondence("verifier-vs-model")
    ctx.correspondence("storage-client-wiring-vs-model")
    terms, info = [], []
    for stream, n in (("wellformed", ctx.n(400, 4000)), ("malformed", ctx.n(120, 1200))):
        for i in range(n):
            case, observed = one_case(ctx, stream, i)
            terms.append(model_term(case, observed))
            info.append((stream, i, case, observed))
            if i < 2:
                ctx.sample({"stream": stream, "case": describe(case), "observed": observed})
    for i in range(ctx.n(40, 400)):
        history(ctx, i, terms, info)
    announcements(ctx, terms, info)
    timezones(ctx, terms, info)
    bad = ctx.coq_check(IMPORTS, terms, tag="c33")
    for ix in bad:
        stream, i, case, observed = info[ix]
        ctx.mismatch("gm-verifier-model-vs-impl", "Coq model of create_grid_manager_verifier and the implementation differ",
                     case=dict(case if stream in ("history", "announce", "tz") else describe(case), stream=stream, index=i), observed=observed,
                     correspondence="verifier-vs-model")
    ctx.trace(len(terms) - len(bad))
    sign_roundtrip(ctx)
    wiring(ctx)


def sign_roundtrip(ctx):
    """_GridManager.sign produces certificates the verifier accepts until, and not at, the expiry instant."""
    import allmydata.grid_manager as gm
    from allmydata.crypto import ed25519
    saved = gm.current_datetime_with_zone
    try:
        for i in range(ctx.n(12, 120)):
            r = ctx.rng("sign", i)
            t0 = datetime(2025, 1, 1, tzinfo=timezone.utc) + timedelta(seconds=r.randrange(10 ** 7), microseconds=r.randrange(10 ** 6))
            cur = [t0]
            gm.current_datetime_with_zone = lambda: cur[0]
            g = r.randrange(NGM)
            me, other = r.sample(range(NSRV), 2)
            m = gm._GridManager(ed25519.string_from_signing_key(key("G%d" % g)[0]), {})
            m.add_storage_server("me", key("S%d" % me)[1])
            m.add_storage_server("other", key("S%d" % other)[1])
            life = timedelta(seconds=r.randrange(1, 10 ** 6), microseconds=r.randrange(10 ** 6))
            c_me = m.sign("me", life)
            c_other = m.sign("other", life)
            for (cfg, certs, srv, want_before) in (
                    ([g], [c_me], me, True), ([g], [c_other], me, False), ([(g + 1) % NGM], [c_me], me, False), ([], [], me, True),
                    ([(g + 1) % NGM, g], [c_other, c_me], me, True)):
                v = gm.create_grid_manager_verifier([key("G%d" % x)[1] for x in cfg], certs, key("S%d" % srv)[2], bad_cert=lambda k, c: None)
                for dt, want in ((life - US, want_before), (life, want_before and not cfg), (life + US, want_before and not cfg), (timedelta(0), want_before)):
                    cur[0] = t0 + dt
                    got = v()
                    ctx.case(("sign", tuple(cfg), srv == me, dt == life), kind="gridmanager-sign")
                    if got is not want:
                        ctx.oracle_fail("gm-sign-verify-roundtrip",
                                        "certificate from _GridManager.sign (lifetime %s) evaluated %s after signing: verifier=%r, rule=%r" % (life, dt, got, want),
                                        case={"stream": "sign", "index": i, "configured": cfg, "offset_us": dt // US, "lifetime_us": life // US},
                                        expected=want, observed=got)
    finally:
        gm.current_datetime_with_zone = saved


def wiring(ctx):
    import contextlib
    import io
    with contextlib.redirect_stdout(io.StringIO()):     # the default bad_cert callback print()s
        _wiring(ctx)


def _wiring(ctx):
    """storage_client: announcement certificates -> SignedCertificate.load -> verifier closed over
    "pub-" + server_id with the default clock -> NativeStorageServer.upload_permitted()."""
    import allmydata.grid_manager as gm
    from allmydata.node import config_from_string
    from allmydata.storage_client import StorageFarmBroker, StorageClientConfig, NativeStorageServer
    from allmydata.util import base32
    cfg = config_from_string(env.subdir("c33-node"), "tub.port", "")
    saved = gm.current_datetime_with_zone
    terms, info = [], []
    try:
        n = ctx.n(60, 600)
        for i in range(n):
            r = ctx.rng("wiring", i)
            for _ in range(50):
                case = gen_case(r)
                ok = True
                for c in case["certs"]:
                    try:
                        c["data"].decode("utf-8")
                    except UnicodeDecodeError:
                        ok = False
                if ok:
                    break
            cur = [case["times"][0]]
            gm.current_datetime_with_zone = lambda: cur[0]
            sb = StorageFarmBroker(True, None, cfg, StorageClientConfig(grid_manager_keys=[key("G%d" % g)[1] for g in case["keys"]]))
            pub = key("S%d" % case["server"])[2]
            server_id = pub[len(b"pub-"):]
            ann = {"anonymous-storage-FURL": FURL, "permutation-seed-base32": base32.b2a(b"x" * 20).decode(),
                   "grid-manager-certificates": [{"certificate": c["data"].decode("utf-8"), "signature": base32.b2a(c["sig"]).decode("ascii")}
                                                 for c in case["certs"]]}
            observed = []
            try:
                s = sb._make_storage_server(server_id, {"ann": ann})
                assert isinstance(s, NativeStorageServer)
            except Exception:
                s = None
                observed = ["Raise"] * len(case["times"])
            err = None
            if s is not None:
                for t in case["times"]:
                    cur[0] = t
                    try:
                        res = s.upload_permitted()
                        observed.append("Permit" if res is True else "Deny" if res is False else "Other:%r" % (res,))
                    except Exception as e:
                        observed.append("Raise")
                        err = type(e).__name__
            judge(ctx, case, observed, err, "wiring", i)
            ctx.case(("wiring", tuple(sorted(c["kind"] for c in case["certs"])), tuple(observed)), kind="wiring")
            terms.append(model_term(case, observed))
            info.append((i, case, observed))
        # a server object built without any verifier is always permitted
        s = NativeStorageServer(b"v0-" + b"a" * 52, {"anonymous-storage-FURL": FURL, "permutation-seed-base32": "ae"}, None, {}, cfg)
        ctx.case(("no-verifier",), kind="wiring")
        if s.upload_permitted() is not True:
            ctx.oracle_fail("gm-no-verifier-not-permitted", "NativeStorageServer without grid-manager verifier is not permitted", case={}, expected=True, observed=False)
    finally:
        gm.current_datetime_with_zone = saved
    bad = ctx.coq_check(IMPORTS, terms, tag="c33w")
    for ix in bad:
        i, case, observed = info[ix]
        ctx.mismatch("gm-wiring-model-vs-impl", "Coq model and NativeStorageServer.upload_permitted (built by StorageFarmBroker) differ",
                     case=dict(describe(case), stream="wiring", index=i), observed=observed, correspondence="storage-client-wiring-vs-model")
    ctx.trace(len(terms) - len(bad))


def replay(ctx, rec):
    c = rec.get("case") or {}
    stream, i = c.get("stream"), c.get("index")
    if stream == "tz":
        terms, info = [], []
        timezones(ctx, terms, info, only=i)
        return {"evaluated_now": True, "observed": [x[3] for x in info], "model_vs_impl_disagreements": ctx.coq_check(IMPORTS, terms, tag="c33r")}
    if stream == "announce":
        terms, info = [], []
        announcements(ctx, terms, info, only=i)
        return {"announcements": info[-1][2].get("announcements_so_far") if info else None,
                "model_vs_impl_disagreements": ctx.coq_check(IMPORTS, terms, tag="c33r")}
    if stream == "history":
        terms, info = [], []
        history(ctx, i, terms, info)
        return {"steps": info[-1][2].get("steps"), "model_vs_impl_disagreements": ctx.coq_check(IMPORTS, terms, tag="c33r")}
    if stream in ("wellformed", "malformed"):
        case, observed = one_case(ctx, stream, i)
        model = ctx.coq_eval(IMPORTS, model_term(case, observed))
        return {"case": describe(case), "implementation": observed, "rule": [expected(case, t) for t in case["times"]],
                "model_agrees": model}
    return {"note": "re-run the property check with the recorded seed; stream %r is replayed as part of run()" % stream}
