"""C20  Directory edits behave like a name map."""
import copy

from core import term as T
from props import dirnode_common as D

ID = "C20"
GEN = ["hashutil"]
RULE = ("cases: one history each -- up to 30 operations (set_node, set_uri, set_children, set_nodes with overwrite True / False / "
        "ONLY_FILES, delete with must_exist / must_be_directory / must_be_file, set_metadata_for, move_child_to within and between "
        "directories) over three real mutable DirectoryNodes whose backing files live in memory, names drawn from a pool with "
        "NFC-equivalent and colliding names, children of every cap kind incl. the three directories themselves, error nodes and "
        "'no-write' metadata, under a clock that sometimes stands still; distinct = distinct (initial contents, operation list); "
        "non-trivial = at least one operation changed a directory")
META = {
    "title": "Directory edits behave like a name map",
    "level_text": ("Theorems in Coq: Adder/Deleter/MetadataSetter.modify and move_child_to, modelled on the packed bytes (unpack, edit the "
                   "AuxValueDict with its cached entries, re-pack), give for EVERY history the same outcomes as the corresponding updates "
                   "of a map name -> (child, metadata) and leave exactly the packing of that map; on the map: overwrite=False never "
                   "replaces an entry, ONLY_FILES never replaces a directory, a failed move changes no directory, linkcrtime of a "
                   "surviving entry is preserved and linkmotime never decreases under a non-decreasing clock.  The map semantics is run "
                   "in Coq against the real DirectoryNode API on generated histories, and the four statements plus an independent "
                   "reference map are evaluated on every operation of every history."),
    "level_note": ("The backing MutableFileNode's modify() is replaced by an in-memory read-modify-write (no servermap, no retry on "
                   "UncoordinatedWriteError: the retry path calls the modifier again with first_time=False, which only matters for "
                   "Deleter.must_exist and is not exercised).  JSON and AES enter the refinement theorem as hypotheses "
                   "(loads.dumps = id, decrypt.encrypt = id); uri.py's classification of caps is a parameter.  Metadata in compared "
                   "histories holds integers, strings, booleans, null, lists and dicts (no floats: the clock is integral)."),
    "technique": "Coq refinement proof (bytes-level modifiers vs finite map) + differential run of the map model against the real DirectoryNode API + direct oracle",
    "design_ref": "8/C20",
    "trusted_base": ["harness/props/dirnode_common.py (in-memory mutable file, own cap construction)"],
    "assumptions": ["json.loads(json.dumps m) = m", "AES-CTR: decrypt(k, encrypt(k, d)) = d", "normalize idempotent"],
}

IMPORTS = ["Lib.Hex", "Model.Dirnode", "Model.DirnodeLit"]
PREAMBLE = """
Fixpoint outs_eqb (a b : list outcome) : bool :=
  match a, b with
  | [], [] => true
  | x :: a', y :: b' => outcome_eqb x y && outs_eqb a' b'
  | _, _ => false
  end.
Definition entry_eqb (p q : bytes * (node * jobj)) : bool :=
  list_N_eqb (fst p) (fst q) && node_eqb (fst (snd p)) (fst (snd q)) && jval_eqb (jcanon (JObj (snd (snd p)))) (JObj (snd (snd q))).
Fixpoint dir_eqb (a b : list (bytes * (node * jobj))) : bool :=
  match a, b with
  | [], [] => true
  | x :: a', y :: b' => entry_eqb x y && dir_eqb a' b'
  | _, _ => false
  end.
Fixpoint dirs_eqb (a b : list (list (bytes * (node * jobj)))) : bool :=
  match a, b with
  | [], [] => true
  | x :: a', y :: b' => dir_eqb x y && dirs_eqb a' b'
  | _, _ => false
  end.
"""

NAMES = ["a", "b", "caf\u00e9.txt", "cafe\u0301.txt", "\u00c5", "A\u030a", "\u212b", "dir", "x y", "\u00f1", "n\u0303", "", "7:a,"]
OV = ["true", "false", "only-files"]


def snapshot(dn):
    """list() of a directory as {name: (obs, metadata)}."""
    ch = D.fire(dn.list())
    return {name: (D.node_obs(n), copy.deepcopy(md)) for name, (n, md) in ch.items()}


def tahoe(md, key):
    t = md.get("tahoe")
    return t.get(key) if isinstance(t, dict) else None


# ---------------------------------------------------------------------------
# reference: the property statement as a map
# ---------------------------------------------------------------------------
def ref_update_md(old, new, now):
    """Link-time rules of docs/frontends/webapi.rst: tahoe.linkcrtime is set once (from a pre-1.4 'ctime' if any),
    tahoe.linkmotime at every update; user metadata is replaced by what the caller passes, 'tahoe' is the system's."""
    base = dict(old) if old is not None else {}
    if new is not None:
        res = {k: v for k, v in new.items() if k != "tahoe"}
        if "tahoe" in base:
            res["tahoe"] = base["tahoe"]
    else:
        res = base
    sysmd = dict(res["tahoe"]) if isinstance(res.get("tahoe"), dict) else {}
    if "linkcrtime" not in sysmd:
        sysmd["linkcrtime"] = base["ctime"] if "ctime" in base else now
    sysmd["linkmotime"] = now
    res["tahoe"] = sysmd
    return res


def ref_diminish(obs):
    kind, rw, ro, mut, err = obs
    if kind != "unknown":
        return (kind, None, ro, mut, None)
    return None     # unknown children: decided by the node maker, not by the map semantics


class Ref(object):
    def __init__(self, dirs):
        self.dirs = dirs          # list of {name: (obs, md)}

    def add(self, d, entries, ov, now):
        """entries: [(name_nfc, obs, md or None)] -> outcome; commits only when every entry is accepted."""
        cur = dict(self.dirs[d])
        for name, obs, new_md in entries:
            if obs[4] is not None:
                return ("err", obs[4])
            old = cur.get(name)
            if old is not None:
                if ov == "false":
                    return ("err", "ExistingChildError")
                if ov == "only-files" and old[0][0] == "dir":
                    return ("err", "ExistingChildError")
            md = ref_update_md(old[1] if old else None, new_md, now)
            if md.get("no-write", False):
                dim = ref_diminish(obs)
                if dim is None:
                    return ("unjudged", None)
                obs = dim
            cur[name] = (obs, md)
        self.dirs[d] = cur
        return ("ok", None)

    def delete(self, d, name, must_exist, mbd, mbf):
        cur = self.dirs[d]
        if name not in cur:
            return ("err", "NoSuchChildError") if must_exist else ("ok", None)
        kind = cur[name][0][0]
        if mbd and kind == "file":
            return ("err", "ChildOfWrongTypeError")
        if mbf and kind == "dir":
            return ("err", "ChildOfWrongTypeError")
        cur = dict(cur)
        del cur[name]
        self.dirs[d] = cur
        return ("ok", None)

    def setmd(self, d, name, md, now):
        cur = self.dirs[d]
        if name not in cur:
            return ("err", "NoSuchChildError")
        obs, old = cur[name]
        new = ref_update_md(old, md, now)
        if new.get("no-write", False):
            dim = ref_diminish(obs)
            if dim is None:
                return ("unjudged", None)
            obs = dim
        cur = dict(cur)
        cur[name] = (obs, new)
        self.dirs[d] = cur
        return ("ok", None)

    def move(self, src, name, dst, new_name, ov, now):
        if src == dst and name == new_name:
            return ("redundant", None)
        if name not in self.dirs[src]:
            return ("err", "NoSuchChildError")
        obs, md = self.dirs[src][name]
        r = self.add(dst, [(new_name, obs, md)], ov, now)
        if r[0] != "ok":
            return r
        return self.delete(src, name, True, False, False)


# ---------------------------------------------------------------------------
def gen_pool(r, tbl, dir_caps):
    """Children to hand out: (w, ro, label)."""
    pool = []
    for flav in ("CHK", "LIT", "DIR2-CHK", "DIR2-LIT"):
        c = tbl.add(D.gen_imm(r, flav))
        pool.append((None, c.s, "imm-" + flav))
    for flav in ("SSK", "MDMF", "DIR2", "DIR2-MDMF"):
        cw, cr = tbl.add_pair(D.gen_mutable_pair(r, flav))
        pool.append((cw.s, r.choice([None, cr.s]), "rw-" + flav))
        cw, cr = tbl.add_pair(D.gen_mutable_pair(r, flav))
        pool.append((None, cr.s, "ro-" + flav))
    for _ in range(3):
        pool.append(D.gen_child_caps(r, tbl, allow_odd=True))
    o1, o2 = tbl.add(D.gen_other(r)), tbl.add(D.gen_other(r))
    pool.append((None, o1.s, "unknown-ro"))
    pool.append((o1.s, o2.s, "unknown-rw+ro"))
    pool.append((o1.s, None, "error-node"))            # MustNotBeUnknownRWError
    for (cw, cr) in dir_caps:                           # the directories of the history themselves
        pool.append((cw.s, cr.s, "self-dir"))
        pool.append((None, cr.s, "self-dir-ro"))
    return pool


def ov_value(ov):
    from allmydata.dirnode import ONLY_FILES
    return {"true": True, "false": False, "only-files": ONLY_FILES}[ov]


def coq_ov(ov):
    return {"true": "OvTrue", "false": "OvFalse", "only-files": "OvOnlyFiles"}[ov]


def coq_outcome(o):
    if o[0] == "ok":
        return "Done"
    if o[0] == "redundant":
        return "Redundant"
    return "(Failed %s)" % D.coq_derr(o[1], from_node=o[1] in D.ERRS)


def one_history(ctx, i, terms, info):
    import allmydata.dirnode as dirnode_mod
    r = ctx.rng("hist", i)
    tbl = D.CapTable()
    nm, store = D.make_nodemaker(r)
    clock = D.StepClock()
    ndirs = 3
    keys = [(D.rb(r, 16), D.rb(r, 32), r.random() < 0.3) for _ in range(ndirs)]
    dir_caps = [tbl.add_pair(D.mutable_pair_from_keys(wk, fp, "DIR2-MDMF" if mdmf else "DIR2")) for wk, fp, mdmf in keys]
    pool = gen_pool(r, tbl, dir_caps)
    good_pool = [p for p in pool if nm.create_from_cap(p[0], p[1]).__class__.__name__ != "UnknownNode"
                 or nm.create_from_cap(p[0], p[1]).error is None]

    def node_of(p):
        return nm.create_from_cap(p[0], p[1])

    # initial contents, written by the real packer
    dirs = []
    init_spec = []
    for (wk, fp, mdmf) in keys:
        dn = D.dir_from_writekey(nm, wk, fp, mdmf=mdmf)
        kids = {}
        spec = []
        for _ in range(r.choice([0, 0, 1, 2, 3])):
            p = r.choice(good_pool)
            name = D.nfc(r.choice(NAMES))
            md = D.gen_metadata(r, ascii_only=True, allow_tahoe=False)
            if r.random() < 0.4:
                md["tahoe"] = r.choice([{"linkcrtime": 3, "linkmotime": 4}, {"linkmotime": 9}, {}])
            md.pop("no-write", None)
            kids[name] = (node_of(p), md)
            spec = [s for s in spec if s[0] != name] + [(name, p, md)]
        store[dn._node.get_storage_index()] = dirnode_mod.pack_children(kids, wk)
        dirs.append(dn)
        init_spec.append(spec)
    ref = Ref([snapshot(dn) for dn in dirs])
    nops = r.choice([1, 2, 5, 10, 10, 20, 30, 30]) if i >= 8 else r.choice([1, 2, 3, 5])
    ops_desc = []
    used = set()
    for spec in init_spec:
        for _, p, _ in spec:
            used.update(x for x in p[:2] if x)
    coq_ops = []
    outcomes = []
    changed = False
    case = {"stream": "hist", "index": i}
    saved_time = dirnode_mod.time
    dirnode_mod.time = clock
    try:
        pending_add = None         # an add_file whose upload is still in flight
        for step in range(nops + 1):
            if step == nops and pending_add is None:
                break
            clock.now += r.choice([0, 0, 1, 1, 7])
            now = clock.now
            before = [snapshot(dn) for dn in dirs]
            d = r.randrange(ndirs)
            dn = dirs[d]
            kind = r.choices(["set_node", "set_uri", "set_children", "set_nodes", "delete", "set_md", "move"],
                             [22, 8, 10, 10, 16, 12, 22])[0]
            if pending_add is not None and (step == nops or r.random() < 0.45):
                kind = "add_file"                      # the upload completes now: the link is made at this point of the history
            elif pending_add is None and step < nops and r.random() < 0.14:
                kind = "add_file_start"
            existing = sorted(before[d])
            def pick_name():
                if existing and r.random() < 0.55:
                    nm_ = r.choice(existing)
                    # sometimes the un-normalised spelling of an existing name
                    alts = [x for x in NAMES if D.nfc(x) == nm_]
                    return r.choice(alts) if alts and r.random() < 0.5 else nm_
                return r.choice(NAMES)
            ov = r.choice(OV)
            want = None
            if kind == "add_file_start":
                # add_file(name, uploadable, metadata, overwrite): the upload is held in flight while other edits land
                from allmydata.immutable.upload import Data
                namex = pick_name()
                if existing and r.random() < 0.3:
                    namex = r.choice(NAMES)
                data = D.rb(r, r.choice([0, 5, 55, 56, 200]))
                md = r.choice([None, D.gen_metadata(r, ascii_only=True)])
                nm.uploader.hold = True
                dfd = defer_call(lambda: dn.add_file(namex, Data(data, b""), metadata=md, overwrite=ov_value(ov)))
                nm.uploader.hold = False
                cap = nm.uploader.last_uri
                tbl.add(D.Cap(cap, "imm", False, cap, label="uploaded"))
                used.add(cap)
                pending_add = (dfd, d, namex, md, ov, cap)
                ctx.count("add_file:upload-held")
                continue
            if kind == "add_file":
                dfd, d, namex, md, ov, cap = pending_add
                pending_add = None
                dn = dirs[d]
                desc = [kind, d, namex, "uploaded-file", md, ov]
                fired_before_release = []
                dfd.addBoth(lambda x: (fired_before_release.append(1), x)[1])
                early = bool(fired_before_release)
                nm.uploader.release()
                res = D.outcome(dfd)
                ctx.count("add_file:" + ("refused-before-upload-finished" if early else "linked-or-refused-at-link-time"))
                file_obs = ("file", None, cap, False, None)
                want = ref.add(d, [(D.nfc(namex), file_obs, md)], ov, now)
                coq_ops.append("(OAdd %d [(%s, %s, %s)] %s, JNum %s)" % (
                    d, D.B(namex.encode("utf-8")), D.coq_cfc("cls", False, cap, None),
                    T.opt(D.jobj(md) if md is not None else None), coq_ov(ov), T.Z(now)))
            elif kind in ("set_node", "set_uri"):
                namex, p = pick_name(), r.choice(pool)
                used.update(x for x in p[:2] if x)
                md = r.choice([None, D.gen_metadata(r, ascii_only=True)]) if r.random() < 0.8 else {"no-write": r.choice([True, 1, "y", False])}
                node = node_of(p)
                desc = [kind, d, namex, p[2], md, ov]
                if kind == "set_uri" and node.__class__.__name__ == "UnknownNode" and node.error is not None:
                    # _create_and_validate_node raises before anything is edited
                    res = D.outcome(defer_call(lambda: dn.set_uri(namex, p[0], p[1], metadata=md, overwrite=ov_value(ov))))
                else:
                    if kind == "set_uri":
                        res = D.outcome(defer_call(lambda: dn.set_uri(namex, p[0], p[1], metadata=md, overwrite=ov_value(ov))))
                    else:
                        res = D.outcome(defer_call(lambda: dn.set_node(namex, node, md, overwrite=ov_value(ov))))
                want = ref.add(d, [(D.nfc(namex), D.node_obs(node), md)], ov, now)
                coq_ops.append("(OAdd %d [(%s, %s, %s)] %s, JNum %s)" % (
                    d, D.B(namex.encode("utf-8")), D.coq_cfc("cls", False, p[0], p[1]),
                    T.opt(D.jobj(md) if md is not None else None), coq_ov(ov), T.Z(now)))
            elif kind in ("set_children", "set_nodes"):
                ents = []
                for _ in range(r.choice([1, 2, 2, 3])):
                    p = r.choice(pool)
                    used.update(x for x in p[:2] if x)
                    ents.append((pick_name(), p, r.choice([None, D.gen_metadata(r, ascii_only=True)])))
                uniq = {}
                for e in ents:
                    uniq[e[0]] = e
                ents = list(uniq.values())
                desc = [kind, d, [(e[0], e[1][2], e[2]) for e in ents], ov]
                nodes = [node_of(e[1]) for e in ents]
                errs = [(e, n) for e, n in zip(ents, nodes) if n.__class__.__name__ == "UnknownNode" and n.error is not None]
                if kind == "set_children":
                    arg = {e[0]: ((e[1][0], e[1][1]) if e[2] is None else (e[1][0], e[1][1], e[2])) for e in ents}
                    res = D.outcome(defer_call(lambda: dn.set_children(arg, overwrite=ov_value(ov))))
                    if errs:
                        # validation of every entry happens before the modifier runs: the first bad entry decides
                        ents, nodes = [errs[0][0]], [errs[0][1]]
                else:
                    arg = {e[0]: (n, e[2]) for e, n in zip(ents, nodes)}
                    res = D.outcome(defer_call(lambda: dn.set_nodes(arg, overwrite=ov_value(ov))))
                want = ref.add(d, [(D.nfc(e[0]), D.node_obs(n), e[2]) for e, n in zip(ents, nodes)], ov, now)
                coq_ops.append("(OAdd %d [%s] %s, JNum %s)" % (
                    d, "; ".join("(%s, %s, %s)" % (D.B(e[0].encode("utf-8")), D.coq_cfc("cls", False, e[1][0], e[1][1]),
                                                   T.opt(D.jobj(e[2]) if e[2] is not None else None)) for e in ents),
                    coq_ov(ov), T.Z(now)))
            elif kind == "delete":
                namex = pick_name()
                me, mbd, mbf = r.random() < 0.7, r.random() < 0.2, r.random() < 0.2
                desc = [kind, d, namex, me, mbd, mbf]
                res = D.outcome(defer_call(lambda: dn.delete(namex, must_exist=me, must_be_directory=mbd, must_be_file=mbf)))
                want = ref.delete(d, D.nfc(namex), me, mbd, mbf)
                coq_ops.append("(ODelete %d %s %s %s %s, JNum %s)" % (d, D.B(namex.encode("utf-8")), T.boolean(me), T.boolean(mbd), T.boolean(mbf), T.Z(now)))
            elif kind == "set_md":
                namex = pick_name()
                md = D.gen_metadata(r, ascii_only=True)
                desc = [kind, d, namex, md]
                res = D.outcome(defer_call(lambda: dn.set_metadata_for(namex, md)))
                want = ref.setmd(d, D.nfc(namex), md, now)
                coq_ops.append("(OSetMd %d %s %s, JNum %s)" % (d, D.B(namex.encode("utf-8")), D.jobj(md), T.Z(now)))
            else:
                namex = pick_name()
                dst = r.choice([d, d, (d + 1) % ndirs, (d + 2) % ndirs])
                newx = r.choice([None, None, namex, r.choice(NAMES), r.choice(sorted(before[dst]) or NAMES)])
                if r.random() < 0.3:
                    # a rename inside one directory to another (or the same) spelling of the same normalised name
                    if existing and r.random() < 0.8:
                        namex = r.choice(existing)
                        namex = r.choice([x for x in NAMES if D.nfc(x) == namex] or [namex])
                    dst = d
                    newx = r.choice([x for x in NAMES if D.nfc(x) == D.nfc(namex)] or [namex])
                    ctx.count("move:same-dir-equivalent-spelling" if newx != namex else "move:same-dir-identical-spelling")
                desc = [kind, d, namex, dst, newx, ov]
                res = D.outcome(defer_call(lambda: dn.move_child_to(namex, dirs[dst], newx, overwrite=ov_value(ov))))
                want = ref.move(d, D.nfc(namex), dst, D.nfc(newx) if newx is not None else D.nfc(namex), ov, now)
                coq_ops.append("(OMove %d %s %d %s %s, JNum %s)" % (d, D.B(namex.encode("utf-8")), dst,
                                                                   T.opt(D.B(newx.encode("utf-8")) if newx is not None else None),
                                                                   coq_ov(ov), T.Z(now)))
            ops_desc.append(desc)
            ctx.count("op:" + kind)
            got = ("redundant", None) if (res[0] == "ok" and res[1] == "redundant rename/relink") else (("ok", None) if res[0] == "ok" else ("err", res[1]))
            outcomes.append(got)
            ctx.count("outcome:" + (got[1] or got[0]))
            after = [snapshot(x) for x in dirs]
            if after != before:
                changed = True
            case_now = dict(case, step=step, ops=ops_desc)
            judge(ctx, case_now, desc, kind, ov, got, want, before, after, ref, d, now)
            if want[0] == "unjudged":
                # unknown child diminished by 'no-write': take the implementation's state as the reference from here
                ref.dirs = [dict(x) for x in after]
    finally:
        dirnode_mod.time = saved_time
    ctx.case(("h", tuple(map(repr, init_spec)), tuple(map(repr, ops_desc))) if changed else None, kind="history:%s" % (
        "1-5" if nops <= 5 else "6-20" if nops <= 20 else "21-30"))
    if i < 2:
        ctx.sample({"ops": ops_desc[:6], "outcomes": outcomes[:6]})
    # ---- the map model, in Coq
    if (nops <= 10 and i < ctx.n(36, 900)) or i % 14 == 0:
        final = [snapshot(x) for x in dirs]
        norm = "(normalize_tbl [%s])" % "; ".join("(%s, %s)" % (D.B(n.encode("utf-8")), D.B(D.nfc(n).encode("utf-8")))
                                                 for n in NAMES if D.nfc(n) != n)
        init = "[%s]" % "; ".join(
            "sm_of_list [%s]" % "; ".join("(%s, (%s, %s))" % (D.B(name.encode("utf-8")), D.coq_cfc("cls", False, p[0], p[1]), D.jobj(md))
                                          for name, p, md in spec) for spec in init_spec)
        exp_dirs = "[%s]" % "; ".join(
            "[%s]" % "; ".join("(%s, (%s, %s))" % (D.B(name.encode("utf-8")), D.coq_node(fin[name][0]), D.jobj(fin[name][1], sort=True))
                               for name in sorted(fin, key=lambda s: s.encode("utf-8"))) for fin in final)
        t = ("let cls := %s in let r := a_run cls %s %s [%s] in outs_eqb (fst r) [%s] && dirs_eqb (snd r) %s"
             % (tbl.coq(used), norm, init, "; ".join(coq_ops), "; ".join(coq_outcome(o) for o in outcomes), exp_dirs))
        terms.append(t)
        info.append(dict(case, ops=ops_desc, outcomes=outcomes))


def defer_call(f):
    from twisted.internet import defer
    return defer.maybeDeferred(f)


def judge(ctx, case, desc, kind, ov, got, want, before, after, ref, d, now):
    """The property statement on one operation of the implementation."""
    # (1) it behaves like the map
    if want[0] != "unjudged":
        if (got[0], got[1]) != (want[0], want[1]):
            ctx.oracle_fail("edit-outcome-differs-from-map", "operation %r: outcome %r, the name map gives %r" % (desc[0], got, want),
                            case=case, expected=want, observed=got)
        elif D.canon_json(D_jsonable(after)) != D.canon_json(D_jsonable(ref.dirs)):
            ctx.oracle_fail("edit-state-differs-from-map", "after %r the directories differ from the name map" % (desc,),
                            case=case, expected=D_jsonable(ref.dirs), observed=D_jsonable(after))
    # (2) a no-overwrite add never replaces an entry; only-files never replaces a directory
    if kind in ("set_node", "set_uri", "set_children", "set_nodes", "move", "add_file") and ov in ("false", "only-files"):
        dst = desc[3] if kind == "move" else desc[1]
        for name, (obs, md) in before[dst].items():
            if kind == "move" and dst == desc[1] and name == D.nfc(desc[2]):
                continue            # the moved link itself leaves its old name
            if ov == "false" or obs[0] == "dir":
                if after[dst].get(name) != (obs, md):
                    ctx.oracle_fail("no-overwrite-replaced-entry" if ov == "false" else "only-files-replaced-directory",
                                    "overwrite=%s: entry %r of directory %d was replaced or removed" % (ov, name, dst),
                                    case=case, expected=[obs, md], observed=after[dst].get(name))
    # (2b) a rename onto (another spelling of) the same normalised name in the same directory keeps the child
    if kind == "move" and desc[1] == desc[3] and D.nfc(desc[4] if desc[4] is not None else desc[2]) == D.nfc(desc[2]):
        name = D.nfc(desc[2])
        if name in before[desc[1]] and after[desc[1]].get(name) != before[desc[1]][name]:
            ctx.oracle_fail("rename-to-equivalent-spelling-lost-or-changed-child",
                            "move_child_to(%r -> %r) inside one directory: both spell the normalised name %r, yet the entry was %s"
                            % (desc[2], desc[4], name, "removed" if name not in after[desc[1]] else "changed"),
                            case=case, expected=before[desc[1]][name], observed=after[desc[1]].get(name))
    # (3) a failed operation changes nothing; a failed move keeps the child under its old name
    if got[0] == "err" and after != before:
        ctx.oracle_fail("failed-rename-lost-or-changed-link" if kind == "move" else "failed-edit-changed-directory",
                        "operation %r failed with %s but a directory changed" % (desc[0], got[1]), case=case,
                        expected=D_jsonable(before), observed=D_jsonable(after))
    # (4) link times
    for i, (b, a) in enumerate(zip(before, after)):
        for name in set(b) & set(a):
            cr0, cr1 = tahoe(b[name][1], "linkcrtime"), tahoe(a[name][1], "linkcrtime")
            mo0, mo1 = tahoe(b[name][1], "linkmotime"), tahoe(a[name][1], "linkmotime")
            if cr0 is not None and cr1 != cr0:
                ctx.oracle_fail("linkcrtime-not-preserved", "linkcrtime of %r changed from %r to %r" % (name, cr0, cr1), case=case,
                                expected=cr0, observed=cr1)
            if a[name] != b[name] and mo1 != now:
                ctx.oracle_fail("linkmotime-not-set", "entry %r was rewritten without linkmotime = now" % (name,), case=case,
                                expected=now, observed=mo1)
            if isinstance(mo0, int) and mo0 <= now and not (isinstance(mo1, int) and mo1 >= mo0):
                ctx.oracle_fail("linkmotime-went-back", "linkmotime of %r went from %r to %r" % (name, mo0, mo1), case=case,
                                expected=">= %r" % (mo0,), observed=mo1)
        for name in set(a) - set(b):
            if tahoe(a[name][1], "linkmotime") != now:
                ctx.oracle_fail("linkmotime-not-set", "new entry %r has no linkmotime = now" % (name,), case=case, expected=now,
                                observed=tahoe(a[name][1], "linkmotime"))


def D_jsonable(dirs):
    return [{name: [list(map(lambda x: x.hex() if isinstance(x, bytes) else x, obs)), md] for name, (obs, md) in dd.items()} for dd in dirs]


def run(ctx):
    ctx.correspondence("map-model-vs-directorynode-api")
    terms, info = [], []
    for i in range(ctx.n(120, 1400)):
        one_history(ctx, i, terms, info)
    bad = ctx.coq_check(IMPORTS, terms, preamble=PREAMBLE, tag="c20", shard=max(8, (len(terms) + 6) // 7))
    for ix in bad:
        ctx.mismatch("model-vs-impl:history", "the Coq map model (a_run) and the DirectoryNode API differ on this history",
                     case=info[ix], correspondence="map-model-vs-directorynode-api")
    ctx.trace(len(terms) - len(bad))
    ctx.note("%d histories compared with a_run in Coq (outcome of every operation and final contents of the three directories)" % len(terms))


def replay(ctx, rec):
    case = rec.get("case") or {}
    if case.get("stream") != "hist":
        return {"note": "record carries no generated history"}
    terms, info = [], []
    one_history(ctx, case["index"], terms, info)
    bad = ctx.coq_check(IMPORTS, terms, preamble=PREAMBLE, tag="c20replay")
    for ix in bad:
        ctx.mismatch("model-vs-impl:history", "map model and API differ", case=info[ix])
    return {"re-executed history": case["index"], "failures": len(ctx.failures)}
