"""C23  Mutable share containers behave like byte arrays."""
import os

from core import term as T
from props import mutshared as M

ID = "C23"
GEN = ["hashutil", "mutconsts"]
RULE = ("case = one operation (test-and-write or read) of a seeded history against one mutable share of a real StorageServer "
        "(containers with 0..10 leases, v1 and v2, or no share at all), or one direct MutableShareFile.writev call; distinct = "
        "distinct (share data before the operation, lease count, operation); non-trivial = the operation writes past the end "
        "of the data, grows the container, truncates, deletes, recreates, or reads across the end of the data")
META = {
    "title": "Mutable share containers behave like byte arrays",
    "level_text": ("Theorems in Coq about a byte-level model of MutableShareFile (header fields, _read_share_data, "
                   "_write_share_data, _change_container_size with extra-lease relocation, writev, readv, check_testv, "
                   "EmptyShare, deletion): every file satisfying the executable layout invariant is the rendering of a structured "
                   "container, every operation maps renderings to renderings, and for every history of operations the "
                   "observations and the readable data equal those of a reference growable byte array (gaps zero-filled, "
                   "truncation, clipping, no stale bytes after truncate+extend); no data write changes a lease record or the "
                   "write enabler.  The model is run against real container files (all bytes compared after every history) and "
                   "the statement is evaluated on the server by an independent Python byte-array oracle."),
    "level_note": ("Trusted: the hand transcription of mutable.py into Model/MutContainer.v (tied by the correspondence), POSIX "
                   "semantics of seek/read/write on regular files (holes read as zeros, short reads at EOF).  Offsets in the model "
                   "runs stay below a few thousand (Coq lists are explicit); a separate oracle-only stream uses offsets up to 2 MB. "
                   "The real MAX_SIZE (69105e12) is used for refusals; the boundary off+len == MAX_SIZE is exercised with the class "
                   "attribute scaled down.  Out of the model: negative offsets, operators other than eq, I/O errors."),
    "technique": "Coq proof (refinement of a byte array by the container file) + differential run vs real files + direct oracle",
    "design_ref": "8/C23, A.5",
    "trusted_base": ["harness/translate/mutconsts.py (constants, header format)", "Model/MutContainer.v transcription"],
    "assumptions": ["regular-file semantics: short reads at EOF, holes read as zeros"],
}

WE = bytes([0x57]) * 32
SECRETS = (WE, M.secret(1), M.secret(2))
BIG = 1 << 22


def setup_share(ss, si, r, nleases, version):
    """an existing container with `nleases` leases (the first four in the header, the rest extra)"""
    from allmydata.storage.lease import LeaseInfo
    from allmydata.storage.mutable import MutableShareFile
    fn = M.create_mutable(ss, si, 0, WE, version=version)
    sf = MutableShareFile(fn, ss)
    for k in range(nleases):
        sf.add_lease(1 << 40, LeaseInfo(1 + k % 3, M.secret(100 + k), M.secret(200 + k), 5000 + 17 * k, M.NODEID))
    return fn


def t_op(op):
    if op[0] == "tw":
        return "(OpTW %s %s %s)" % (M.t_testv(op[1]), M.t_datav(op[2]), M.t_newlen(op[3]))
    return "(OpRead %s)" % M.t_readv(op[1])


def t_obs(op, res):
    if op[0] == "tw":
        return "(ObsTW %s)" % M.t_res(res, lambda v: T.boolean(v[0]))
    if res[0] == "err":
        return "(ObsTW (Err %s))" % res[1]
    if 0 not in res[1]:
        return "(ObsRead None)"
    return "(ObsRead (Some %s))" % T.lst([M.hexb(x) for x in res[1][0]])


def one_history(ctx, ss, clock, i, maxsz_patch, big_offsets=False):
    """40 (quick: fewer) operations against share 0 of one storage index; oracle on every step;
    returns the Coq term comparing model and implementation (None for the oracle-only stream)."""
    r = ctx.rng("big" if big_offsets else "hist", i)
    si = bytes([0x23, 1 if big_offsets else 0, i & 0xff, (i >> 8) & 0xff]) + b"\x00" * 12
    maxsz = maxsz_patch if maxsz_patch is not None else M.real_max_size()
    limit = (maxsz_patch - 1) if maxsz_patch is not None else (2_000_000 if big_offsets else 2500)
    nleases = r.choice([0, 0, 1, 2, 3, 4, 5, 6, 8, 10])
    version = r.choice([1, 2, 2])
    exists = r.random() < 0.8
    fn = os.path.join(M.bucket_dir(ss, si), "0")
    if exists:
        setup_share(ss, si, r, nleases, version)
    else:
        nleases = 0
    file0 = M.read_bucket(ss, si).get(0)
    ref = M.RefArray() if exists else None           # the reference byte array (None: no share)
    leases0 = M.mutable_leases(fn) if exists else []
    ops, results = [], []
    nops = r.randint(8, 40) if ctx.tier == "thorough" or ctx.search else r.randint(6, 16)
    with M.patched_max_size(maxsz_patch):
        for step in range(nops):
            cur = bytes(ref.d) if ref is not None else b""
            if r.random() < 0.3:
                op = ("read", M.gen_readv(r, len(cur), whole=BIG if big_offsets else 4000))
                if big_offsets:
                    op = ("read", [(0, BIG), (max(0, len(cur) - 5), 10), (r.randint(0, limit), 7)])
                res = M.call(ss.slot_readv, si, [0], op[1])
                want = {0: [cur[o:o + n] for o, n in op[1]]} if ref is not None else {}
                ctx.case((cur[-20:], len(cur), nleases, repr(op)) if ref is not None and any(o < len(cur) < o + n for o, n in op[1]) else None, kind="read")
                if res != ("ok", want):
                    ctx.oracle_fail("container-read-differs-from-bytearray", "slot_readv returned data that is not the reference array clipped at its length",
                                    case={"history": i, "big": big_offsets, "step": step, "readv": op[1], "length": len(cur)},
                                    expected={"0": [x.hex()[:200] for x in want.get(0, [])]}, observed=repr(res)[:400])
            else:
                dv = M.gen_datav(r, len(cur), limit, maxlen=r.choice([12, 12, 40]))
                nl = M.gen_newlen(r, len(cur))
                if big_offsets and nl is not None and nl > 0:
                    nl = r.choice([nl, max(1, len(cur) // 2), len(cur) + 1000])
                if not big_offsets and r.random() < 0.06:     # a vector beyond MAX_SIZE
                    off = maxsz + r.choice([0, 1, 7]) if maxsz_patch is None else maxsz + r.choice([0, 1, 1, 7]) - r.choice([0, 1, 3])
                    dv.insert(r.randint(0, len(dv)), (off, M.rb(r, r.choice([1, 2, 3]))))
                tv = M.gen_testv(r, cur, 0.9)
                if ref is None and r.random() < 0.3:
                    # a writer that still believes in the share's old contents asks for a share the
                    # server does not hold to be deleted / truncated / written: the test is evaluated
                    # against the empty share and must fail, whatever new_length says
                    tv = [(r.choice([0, 0, 3]), r.choice([1, 4, 100]), b"eq", M.rb(r, r.choice([1, 4])))]
                    nl = r.choice([0, 0, 0, None, 5])
                op = ("tw", tv, dv, nl)
                res = M.call(ss.slot_testv_and_readv_and_writev, si, SECRETS, {0: (tv, dv, nl)}, [], renew_leases=False)
                tests_ok = all(cur[o:o + n] == spec for (o, n, _, spec) in tv)
                fits = nl == 0 or M.vectors_fit(dv, maxsz)
                deep = None
                if not tests_ok:
                    want = ("ok", (False, {0: []} if ref is not None else {}))
                elif not fits:
                    want = ("err", "EDataTooLarge")
                else:
                    want = ("ok", (True, {0: []} if ref is not None else {}))
                    new = M.ref_apply(None if ref is None else cur, dv, nl)
                    if new is None or ref is None or any(o + len(d) > len(cur) for o, d in dv) or (nl is not None and nl < len(cur)):
                        deep = (cur[-20:], len(cur), nleases, repr(op))
                    if ref is None and new is not None:
                        nleases, leases0 = 0, []
                    ref = None if new is None else M.RefArray(new)
                ctx.case(deep, kind="tw:" + ("refused-test" if not tests_ok else "refused-size" if not fits else "applied"))
                if res != want:
                    ctx.oracle_fail("container-tw-wrong-result", "test-and-write returned %r where the byte-array semantics give %r" % (res, want),
                                    case={"history": i, "big": big_offsets, "step": step, "op": repr(op)[:800], "data": cur.hex()[:400]},
                                    expected=repr(want), observed=repr(res)[:300])
            ops.append(op)
            results.append(res)
            # the share must now read back as the reference array, and hold the leases it had
            got = M.call(ss.slot_readv, si, [0], [(0, BIG)])
            want_all = {0: [bytes(ref.d)]} if ref is not None else {}
            if got != ("ok", want_all):
                a = got[1].get(0, [b""])[0] if got[0] == "ok" else b""
                b = bytes(ref.d) if ref is not None else b""
                pos = next((k for k in range(min(len(a), len(b))) if a[k] != b[k]), min(len(a), len(b)))
                ctx.oracle_fail("container-data-differs-from-bytearray",
                                "after %s the share does not read back as the reference byte array (lengths %d vs %d, first difference at %d)"
                                % (op[0], len(a), len(b), pos),
                                case={"history": i, "big": big_offsets, "step": step, "op": repr(op)[:800], "leases": nleases, "before": cur.hex()[:400]},
                                expected=b[max(0, pos - 8):pos + 24].hex(), observed=a[max(0, pos - 8):pos + 24].hex())
                return None
            if ref is not None:
                now_leases = M.mutable_leases(fn)
                if now_leases != leases0:
                    ctx.oracle_fail("data-write-changed-leases", "the leases of the share changed across a data operation (%d before, %d after)"
                                    % (len(leases0), len(now_leases)),
                                    case={"history": i, "big": big_offsets, "step": step, "op": repr(op)[:800], "leases": nleases},
                                    expected=repr(leases0)[:600], observed=repr(now_leases)[:600])
                    return None
            if i < 2 and step < 2:
                ctx.sample({"op": repr(op)[:300], "result": repr(res)[:120], "leases": nleases})
    if big_offsets:
        return None
    file1 = M.read_bucket(ss, si).get(0)
    obs = T.lst([t_obs(o, x) for o, x in zip(ops, results)])
    mx = "MAX_SIZE" if maxsz_patch is None else T.N(maxsz_patch)
    term = ("(let '(s, xs) := run_share %s (mut_header V2 %s %s) %s %s in share_eqb s %s && list_eqb obs_eqb xs %s)"
            % (mx, T.bytes_(M.NODEID), T.bytes_(WE), M.t_share(file0), T.lst([t_op(o) for o in ops]), M.t_share(file1), obs))
    return term, {"history": i, "max_size": maxsz_patch, "leases": nleases, "ops": [repr(o)[:500] for o in ops],
                  "results": [repr(x)[:200] for x in results]}


def direct_writev(ctx, ss, i):
    """MutableShareFile.writev called directly with a scaled-down MAX_SIZE: a vector in the
    middle may be refused after earlier ones were applied (Props/C23 writev_refines)."""
    from allmydata.storage.mutable import MutableShareFile
    r = ctx.rng("writev", i)
    si = bytes([0x23, 2, i & 0xff, (i >> 8) & 0xff]) + b"\x00" * 12
    maxsz = r.choice([300, 500, 800])
    fn = setup_share(ss, si, r, r.choice([0, 2, 4, 5, 7]), r.choice([1, 2]))
    sf = MutableShareFile(fn, ss)
    with M.patched_max_size(maxsz):
        sf.writev([(r.randint(0, 60), M.rb(r, r.randint(1, 30)))], None)
        file0 = M.read_bucket(ss, si)[0]
        cur = sf.readv([(0, BIG)])[0]
        dv = M.gen_datav(r, len(cur), maxsz + 5, maxlen=20) + M.gen_datav(r, len(cur), maxsz + 5, maxlen=20)
        nl = M.gen_newlen(r, len(cur))
        nl = None if nl == 0 else nl
        leases0 = M.mutable_leases(fn)
        res = M.call(sf.writev, dv, nl)
        after = sf.readv([(0, BIG)])[0]
        leases1 = M.mutable_leases(fn)
    a = M.RefArray(cur)
    want = ("ok", None)
    for off, d in dv:
        if off + len(d) > maxsz:
            want = ("err", "EDataTooLarge")
            break
        a.write(off, d)
    if want[0] == "ok" and nl is not None:
        a.truncate(nl)
    ctx.case((cur[-20:], len(cur), repr(dv), nl), kind="writev:" + ("refused-part-way" if want[0] == "err" else "applied"))
    if res != want or after != bytes(a.d):
        ctx.oracle_fail("writev-differs-from-bytearray", "MutableShareFile.writev: result %r / data differ from the bounded byte array (%r)" % (res, want),
                        case={"writev": i, "max_size": maxsz, "datav": repr(dv)[:600], "new_length": nl, "before": cur.hex()},
                        expected=bytes(a.d).hex()[:400], observed=after.hex()[:400])
    if leases1 != leases0:
        ctx.oracle_fail("data-write-changed-leases", "writev changed the leases of the share", case={"writev": i, "datav": repr(dv)[:600]},
                        expected=repr(leases0)[:400], observed=repr(leases1)[:400])
    file1 = M.read_bucket(ss, si)[0]
    term = ("(let o := writev %s %s %s %s in list_N_eqb (out_file o) %s && opt_err_eqb (out_err o) %s)"
            % (T.N(maxsz), M.hexb(file0), M.t_datav(dv), M.t_newlen(nl), M.hexb(file1), M.t_opt_err(res)))
    return term, {"writev": i, "max_size": maxsz, "datav": repr(dv)[:600], "new_length": nl, "result": repr(res)}


def run(ctx):
    ctx.correspondence("container-model-vs-files")
    ss, clock = M.new_server("c23")
    terms, info = [], []
    for i in range(ctx.n(70, 500)):
        patch = None if i % 3 else 700 + (i % 5) * 60
        out = one_history(ctx, ss, clock, i, patch)
        if out is not None:
            terms.append(out[0])
            info.append(out[1])
    for i in range(ctx.n(40, 400)):
        t, inf = direct_writev(ctx, ss, i)
        terms.append(t)
        info.append(inf)
    for i in range(ctx.n(10, 80)):
        one_history(ctx, ss, clock, i, None, big_offsets=True)
    bad = ctx.coq_check(M.IMPORTS, terms, preamble=M.PREAMBLE, tag="c23", shard=12)
    for ix in bad:
        ctx.mismatch("container-model-vs-impl", "the Coq model of MutableShareFile and the real container file disagree (observations or file bytes)",
                     case=info[ix], correspondence="container-model-vs-files")
    ctx.trace(len(terms) - len(bad))
    ctx.note("oracle-only stream with offsets up to 2 MB: %d histories" % ctx.n(10, 80))


def replay(ctx, rec):
    case = rec.get("case") or {}
    ss, clock = M.new_server("c23r")
    if "writev" in case:
        t, inf = direct_writev(ctx, ss, case["writev"])
        bad = ctx.coq_check(M.IMPORTS, [t], preamble=M.PREAMBLE, tag="c23r")
        return dict(inf, model_agrees=not bad)
    if "history" in case:
        i = case["history"]
        big = bool(case.get("big"))
        patch = None if (i % 3 or big) else 700 + (i % 5) * 60
        out = one_history(ctx, ss, clock, i, patch, big_offsets=big)
        if out is None:
            return {"history": i, "note": "oracle-only history re-executed"}
        bad = ctx.coq_check(M.IMPORTS, [out[0]], preamble=M.PREAMBLE, tag="c23r")
        if bad:
            ctx.mismatch("container-model-vs-impl", "history %d still disagrees with the model" % i)
        return dict(out[1], model_agrees=not bad)
    return {"note": "record has no case index"}
