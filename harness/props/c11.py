"""C11  Mutable version ordering and rollback resistance."""
import struct

from core import term as T

ID = "C11"
GEN = ["mutpins"]
RULE = ("servermap cases: 1-5 versions (sequence numbers 0..6 with ties, k in 1..4) spread as 0..14 shares over <= 6 servers; "
        "non-trivial = at least two versions of which one is recoverable; distinct = distinct canonical share sets. "
        "_check_for_done cases: every flag combination x random maps.  Grid cases: publish histories of up to 6 versions with stale "
        "shares of older versions restored on random servers and servers made unavailable, read after every step")
META = {
    "title": "Mutable version ordering and rollback resistance",
    "level_text": ("Theorems in Coq over a model of ServerMap: the version a read selects is recoverable and maximal in (seqnum, version id) "
                   "among recoverable versions; the sequence number a publish chooses exceeds that of every share in its survey; hence one "
                   "writer's versions strictly increase along any history whose surveys see the previous publish; MODE_READ's termination "
                   "test keeps querying while a newer unrecoverable version is known and servers remain.  The model is compared with the real "
                   "ServerMap and the real ServermapUpdater._check_for_done on random maps, and publish/stale-share/outage histories are run "
                   "on a real in-process grid with the property's rule as oracle."),
    "level_note": ("core (partial): the servermap *contents* (which shares the updater locates, signature validation, network) are inputs to the "
                   "model; the grid histories exercise them but do not prove them.  MODE_WRITE's boundary scan in _check_for_done is not "
                   "modelled.  Version ids are abstracted to (seqnum, order-preserving tag, k)."),
    "technique": "Coq proof over an executable ServerMap model + differential run against ServerMap/_check_for_done + grid histories with oracle",
    "design_ref": "8/C11",
    "trusted_base": ["abstraction of verinfo tuples to (seqnum, rank of the remaining fields, k) done by the driver"],
    "assumptions": ["strict increase for one writer needs each survey to locate at least one share of that writer's previous version (stated hypothesis observed_chain)"],
}
IMPORTS = ["Model.ServerMap"]


def mk_verinfo(seq, tagbyte, k):
    root = bytes([tagbyte]) * 32
    return (seq, root, b"i" * 16, 1000, 10, k, 10, b"prefix%d-%d" % (seq, tagbyte), ((b"a", 1),))


def coq_version(v, ranks):
    return "{| seq := %s; vtag := %s; vk := %s |}" % (T.N(v[0]), T.N(ranks[v[1:]]), T.N(v[5]))


def coq_map(shares, ranks):
    return T.lst(["{| srv := %s; shnum := %s; ver := %s |}" % (T.N(s), T.N(sh), coq_version(v, ranks)) for (s, sh), v in shares])


def gen_map(r):
    nver = r.choice([0, 1, 2, 2, 3, 3, 4, 5])
    vers = []
    for _ in range(nver):
        vers.append(mk_verinfo(r.choice([0, 1, 2, 3, 3, 4, 5, 6]), r.randrange(1, 5), r.choice([1, 2, 2, 3, 3, 4])))
    shares = {}
    if vers:
        for _ in range(r.randrange(0, 15)):
            shares[(r.randrange(1, 7), r.randrange(0, 6))] = r.choice(vers)
    return sorted(shares.items())


class FakeServer(object):
    def __init__(self, i):
        self.i = i

    def get_name(self):
        return b"s%d" % self.i


def run(ctx):
    ctx.correspondence("ServerMap-vs-model")
    ctx.correspondence("check_for_done-vs-model")
    ctx.correspondence("grid-histories")
    from allmydata.mutable.servermap import ServerMap, ServermapUpdater
    from allmydata.mutable.common import MODE_READ, MODE_ANYTHING, MODE_CHECK, MODE_REPAIR
    servers = {i: FakeServer(i) for i in range(0, 8)}
    terms, info = [], []
    n = ctx.n(400, 4000)
    for i in range(n):
        r = ctx.rng("map", i)
        shares = gen_map(r)
        sm = ServerMap()
        for (s, sh), v in shares:
            sm.add_new_share(servers[s], sh, v, 0.0)
        rec = sm.recoverable_versions()
        unrec = sm.unrecoverable_versions()
        best = sm.best_recoverable_version()
        hi = sm.highest_seqnum()
        newer = set(sm.unrecoverable_newer_versions().keys())
        merge = sm.needs_merge()
        allv = sorted(set(v for _, v in shares))
        ranks = {t: j for j, t in enumerate(sorted(set(v[1:] for v in allv)))}
        nontrivial = len(allv) >= 2 and len(rec) >= 1
        ctx.case(tuple(shares) if nontrivial else None, kind="versions=%d" % len(allv))
        case = {"shares": [[s, sh, v[0], v[1][:1].hex(), v[5]] for (s, sh), v in shares]}
        # ---- direct oracle: the property's rule, computed independently ----
        byver = {}
        for (s, sh), v in shares:
            byver.setdefault(v, set()).add(sh)
        want_rec = set(v for v, shs in byver.items() if len(shs) >= v[5])
        if rec != want_rec:
            ctx.oracle_fail("servermap-recoverable-set", "recoverable_versions differs from {versions with >= k distinct shares}", case=case,
                            expected=sorted(v[0] for v in want_rec), observed=sorted(v[0] for v in rec))
        if want_rec:
            top = max(v[0] for v in want_rec)
            if best is None or best not in want_rec or best[0] != top:
                ctx.oracle_fail("best-version-not-highest-recoverable", "best_recoverable_version has seqnum %r, highest recoverable seqnum is %d" % (best and best[0], top),
                                case=case, expected=top, observed=best and best[0])
        elif best is not None:
            ctx.oracle_fail("best-version-not-recoverable", "best_recoverable_version returned an unrecoverable version", case=case)
        if shares and hi + 1 <= max(v[0] for _, v in shares):
            ctx.oracle_fail("new-seqnum-not-above-seen", "highest_seqnum()+1 = %d does not exceed a located share's seqnum" % (hi + 1), case=case)
        # ---- model ----
        m = coq_map(shares, ranks)
        terms.append("(let m := %s in vers_seteq (recoverable_versions m) %s && vers_seteq (unrecoverable_versions m) %s && "
                     "optver_eqb (best_recoverable_version m) %s && (highest_seqnum m =? %s) && "
                     "vers_seteq (unrecoverable_newer_versions m) %s && Bool.eqb (needs_merge m) %s)" % (
                         m, T.lst([coq_version(v, ranks) for v in rec]), T.lst([coq_version(v, ranks) for v in unrec]),
                         T.opt(coq_version(best, ranks)) if best is not None else "None", T.N(hi),
                         T.lst([coq_version(v, ranks) for v in newer]), T.boolean(merge)))
        info.append(case)
        if i < 3:
            ctx.sample(case)
    bad = ctx.coq_check(IMPORTS, terms, tag="c11map")
    for ix in bad:
        ctx.mismatch("servermap-model-differs", "ServerMap and Model/ServerMap.v disagree", case=info[ix], correspondence="ServerMap-vs-model")
    ctx.trace(len(terms) - len(bad))

    # ---- _check_for_done on the real class with stubbed continuations ----
    terms, info = [], []
    modes = [(MODE_READ, "MODE_READ"), (MODE_ANYTHING, "MODE_ANYTHING"), (MODE_CHECK, "MODE_CHECK"), (MODE_REPAIR, "MODE_REPAIR")]
    n2 = ctx.n(300, 3000)
    for i in range(n2):
        r = ctx.rng("cfd", i)
        shares = gen_map(r)
        sm = ServerMap()
        for (s, sh), v in shares:
            sm.add_new_share(servers[s], sh, v, 0.0)
        mode, mname = modes[r.randrange(4)] if r.random() < 0.4 else modes[0]
        u = ServermapUpdater.__new__(ServermapUpdater)
        u._running = r.random() < 0.9
        u._must_query = set([1]) if r.random() < 0.1 else set()
        u._queries_outstanding = set([1]) if r.random() < 0.5 else set()
        u.extra_servers = [1] if r.random() < 0.6 else []
        u._servermap = sm
        u.mode = mode
        u._queries_completed = r.randrange(0, 8)
        u.num_servers_to_query = r.randrange(0, 8)
        u._need_privkey = False
        u.log = lambda *a, **kw: None
        u._done = lambda: "Done"
        u._send_more_queries = lambda n_: "More"
        got = u._check_for_done(None)
        got = {None: "Wait", "Done": "Done", "More": "More"}[got]
        allv = sorted(set(v for _, v in shares))
        ranks = {t: j for j, t in enumerate(sorted(set(v[1:] for v in allv)))}
        case = {"mode": mname, "running": u._running, "must_query": bool(u._must_query), "outstanding": bool(u._queries_outstanding),
                "extra": bool(u.extra_servers), "completed": u._queries_completed, "to_query": u.num_servers_to_query,
                "shares": [[s, sh, v[0], v[1][:1].hex(), v[5]] for (s, sh), v in shares]}
        ctx.case(repr(case) if got != "Wait" else None, kind="cfd:" + mname + ":" + got)
        # oracle: the property's clause for MODE_READ
        if mode == MODE_READ and u._running and not u._must_query and (u._queries_outstanding or u.extra_servers):
            newer = sm.unrecoverable_newer_versions()
            if newer and got == "Done":
                ctx.oracle_fail("mode-read-stops-with-newer-unrecoverable", "MODE_READ map update declared itself done although a newer unrecoverable "
                                "version (seq %s) is known and servers remain" % sorted(v[0] for v in newer), case=case)
        terms.append("verdict_eqb (check_for_done %s {| running := %s; must_query := %s; outstanding := %s; extra := %s; completed := %s; to_query := %s |} %s) %s" % (
            mname, T.boolean(u._running), T.boolean(bool(u._must_query)), T.boolean(bool(u._queries_outstanding)), T.boolean(bool(u.extra_servers)),
            T.N(u._queries_completed), T.N(u.num_servers_to_query), coq_map(shares, ranks), got))
        info.append(case)
    bad = ctx.coq_check(IMPORTS, terms, tag="c11cfd")
    for ix in bad:
        ctx.mismatch("check_for_done-model-differs", "ServermapUpdater._check_for_done and the model disagree", case=info[ix], correspondence="check_for_done-vs-model")
    ctx.trace(len(terms) - len(bad))

    grid_histories(ctx)


def share_version(g, sh):
    from allmydata.storage.mutable import MutableShareFile
    data = g.read_share(sh)
    off = MutableShareFile.DATA_OFFSET      # start of the share payload inside a mutable container
    (ver, seq, root) = struct.unpack(">BQ32s", data[off:off + 41])
    return seq, root


def multi_share_server_cases(ctx):
    """Grids SMALLER than N (every server holds several shares) that the read survey covers completely (S <= 2k): servers
    replaying an older version must not make the read stop before it has heard the servers holding the newest one."""
    from core import grid as G
    for i in range(ctx.n(4, 20)):
        r = ctx.rng("multishare", i)
        seed = r.getrandbits(30)
        k, N, S = [(2, 8, 4), (2, 6, 3)][i] if i < 2 else r.choice([(3, 10, 5), (2, 8, 4), (3, 9, 6), (2, 8, 4), (3, 12, 6), (2, 6, 3)])
        fmt = r.choice(["sdmf", "mdmf"])
        case = {"seed": seed, "servers": S, "k": k, "N": N, "format": fmt, "scenario": "multi-share-servers"}
        with G.Grid(num_clients=2, num_servers=S, k=k, n=N, happy=1, seed=seed, timeout=180) as g:
            node = g.run(g.create_mutable(b"version-1", version=fmt))
            snap1 = {(sh.server, sh.shnum): g.read_share(sh) for sh in g.find_shares(node.get_uri())}
            g.run(g.mutable_overwrite(node, b"version-2"))
            g.run(g.mutable_overwrite(node, b"version-3"))
            cur = {(sh.server, sh.shnum): sh for sh in g.find_shares(node.get_uri())}
            servers = sorted(set(srv for (srv, _shn) in cur))
            r.shuffle(servers)
            # keep the newest version on just enough servers to be recoverable; everything else replays version 1
            keep, have = [], set()
            for srv in servers:
                if len(have) >= k:
                    break
                keep.append(srv)
                have |= set(shn for (s_, shn) in cur if s_ == srv)
            stale = [srv for srv in servers if srv not in keep]
            for (srv, shn), sh in cur.items():
                if srv in stale and (srv, shn) in snap1:
                    g.write_share(sh, snap1[(srv, shn)])
            case["stale_servers"] = sorted(stale)
            for rd in range(4):
                out = g.run(g.mutable_read(node.get_uri(), client=rd % 2), outcome=True)
                ctx.case((seed, "multishare", rd), kind="grid-read-multi-share-servers")
                if out.status != "ok":
                    ctx.oracle_fail("read-failed-with-recoverable-version", "read failed (%s) although version 3 is recoverable from reachable shares" % out.error, case=case)
                elif out.value != b"version-3":
                    ctx.oracle_fail("read-returned-older-version", "read returned %r while version 3 is recoverable from the %d reachable servers (all of which a "
                                    "read survey with k=%d asks): servers %r replay version 1" % (out.value, S, k, sorted(stale)), case=case,
                                    expected="version-3", observed=out.value)
                else:
                    ctx.trace(1)


def newer_residue_publish_cases(ctx):
    """Every kind of publish (overwrite, modify, MDMF in-place update, SDMF update) on a grid that holds a recoverable version
    AND the residue of a newer, unrecoverable one: the new sequence number must exceed everything the survey saw."""
    from core import grid as G
    from twisted.internet import defer
    from allmydata.mutable.publish import MutableData
    kinds = ["update", "update", "overwrite", "modify"]
    for i in range(ctx.n(4, 24)):
        r = ctx.rng("residue", i)
        seed = r.getrandbits(30)
        k, N = r.choice([(2, 4), (3, 6), (2, 5)])
        fmt = "mdmf" if i % 2 == 0 else r.choice(["sdmf", "mdmf"])
        how = kinds[i % len(kinds)]
        case = {"seed": seed, "servers": N, "k": k, "N": N, "format": fmt, "scenario": "newer-unrecoverable-residue", "publish": how}
        with G.Grid(num_clients=1, num_servers=N, k=k, n=N, happy=1, seed=seed, timeout=180) as g:
            node = g.run(g.create_mutable(b"one " * 40, version=fmt))
            g.run(g.mutable_overwrite(node, b"two " * 40))
            snap2 = {(sh.server, sh.shnum): g.read_share(sh) for sh in g.find_shares(node.get_uri())}
            g.run(g.mutable_overwrite(node, b"three " * 30))
            cur = {(sh.server, sh.shnum): sh for sh in g.find_shares(node.get_uri())}
            keys = sorted(kk for kk in cur if kk in snap2)
            r.shuffle(keys)
            for kk in keys[:len(keys) - (k - 1)]:          # version 3 survives on k-1 shares only
                g.write_share(cur[kk], snap2[kk])
            pre = [(sh.server, sh.shnum) + share_version(g, sh) for sh in g.find_shares(node.get_uri())]
            premax = max(p_[2] for p_ in pre)
            if i % 2 == 1:
                # the servers that hold the newer residue answer the operation's FIRST read and fail every later one: what the
                # first survey of the operation saw must still count when the same map is surveyed again (modify and update
                # survey twice; so do the retry loops)
                flaky = sorted(set(p_[0] for p_ in pre if p_[2] == premax))
                case["residue_servers_fail_after_first_read"] = flaky
                g.set_faults([{"server": srv_, "method": "slot_readv", "nth": 1, "count": None, "action": "error"} for srv_ in flaky] +
                             [{"server": srv_, "method": "slot_testv_and_readv_and_writev", "nth": 0, "count": None, "action": "error"} for srv_ in flaky])

            @defer.inlineCallbacks
            def publish():
                if how == "overwrite":
                    yield node.overwrite(MutableData(b"four " * 30))
                elif how == "modify":
                    yield node.modify(lambda old, sm, first: (old or b"") + b"+")
                else:
                    mv = yield node.get_best_mutable_version()
                    yield mv.update(MutableData(b"UPD"), r.choice([0, 5, 17]))
            out = g.run(publish(), outcome=True)
            g.set_faults([])
            post = [(sh.server, sh.shnum) + share_version(g, sh) for sh in g.find_shares(node.get_uri())]
            newvers = set((p_[2], p_[3]) for p_ in post) - set((p_[2], p_[3]) for p_ in pre)
            ctx.case((seed, "residue", how, fmt, i % 2), kind="grid-publish-over-newer-residue:" + how + (":flaky" if i % 2 else ""))
            if out.status != "ok":
                ctx.count("residue-publish-not-ok:%s:%s" % (how, out.error))
                continue
            for (sq, _root) in sorted(newvers):
                if sq <= premax:
                    ctx.oracle_fail("publish-seqnum-not-above-survey", "%s (%s) wrote seqnum %d although reachable shares already had seqnum %d (a newer version "
                                    "that survives on %d share(s))" % (how, fmt, sq, premax, k - 1), case=case, expected="> %d" % premax, observed=sq)
            if not newvers:
                ctx.oracle_fail("publish-wrote-no-new-seqnum", "a successful %s left no share with a new version" % how, case=case)
            else:
                ctx.trace(1)


def same_servermap_publish_cases(ctx):
    """Several publishes through ONE servermap / one MutableFileVersion object (IMutableFileVersion.overwrite twice,
    node.upload(data, servermap) twice): the map is updated by each publish, so each new sequence number must exceed the
    previous one."""
    from core import grid as G
    from twisted.internet import defer
    from allmydata.mutable.publish import MutableData
    from allmydata.mutable.common import MODE_WRITE
    for i in range(ctx.n(4, 12)):
        r = ctx.rng("samemap", i)
        seed = r.getrandbits(30)
        k, N = r.choice([(2, 4), (3, 5), (1, 3)])
        fmt = "sdmf" if i % 2 == 0 else "mdmf"
        how = ["version.overwrite", "node.upload(servermap)"][(i // 2) % 2]
        case = {"seed": seed, "servers": N, "k": k, "N": N, "format": fmt, "scenario": "same-servermap-publishes", "entry": how}
        with G.Grid(num_clients=1, num_servers=N, k=k, n=N, happy=1, seed=seed, timeout=180) as g:
            node = g.run(g.create_mutable(b"zero", version=fmt))

            def seqs():
                return sorted(set(share_version(g, sh)[0] for sh in g.find_shares(node.get_uri())))

            @defer.inlineCallbacks
            def publishes():
                seen = [max(seqs())]
                if how == "version.overwrite":
                    mv = yield node.get_best_mutable_version()
                    for j in range(3):
                        yield mv.overwrite(MutableData(b"content-%d" % j))
                        seen.append(max(seqs()))
                else:
                    smap = yield node.get_servermap(MODE_WRITE)
                    for j in range(3):
                        yield node.upload(MutableData(b"content-%d" % j), smap)
                        seen.append(max(seqs()))
                defer.returnValue(seen)
            out = g.run(publishes(), outcome=True)
            ctx.case((seed, "samemap", how, fmt), kind="grid-same-servermap-publishes:" + how)
            if out.status != "ok":
                ctx.count("samemap-publish-not-ok:%s:%s" % (how, out.error))
                continue
            seen = out.value
            if any(b <= a for a, b in zip(seen, seen[1:])):
                ctx.oracle_fail("publish-seqnum-not-above-survey", "successive publishes through one servermap (%s, %s) left highest sequence numbers %r on the grid: "
                                "a publish wrote a sequence number no higher than a version already in its own map" % (how, fmt, seen), case=case,
                                expected="strictly increasing", observed=seen)
            else:
                ctx.trace(1)


def grid_histories(ctx):
    from core import grid as G
    from allmydata.mutable.publish import MutableData
    multi_share_server_cases(ctx)
    newer_residue_publish_cases(ctx)
    same_servermap_publish_cases(ctx)
    n = ctx.n(6, 60)
    for i in range(n):
        r = ctx.rng("hist", i)
        seed = r.getrandbits(30)
        k, N = r.choice([(2, 4), (1, 3), (3, 5), (2, 5), (3, 6)])
        S = r.choice([2 * k, 2 * k, max(2, 2 * k - 1), 2 * k + 1, 7])
        fmt = r.choice(["sdmf", "mdmf"])
        steps = []
        with G.Grid(num_clients=1, num_servers=S, k=k, n=N, happy=1, seed=seed, timeout=180) as g:
            node = g.run(g.create_mutable(b"content-1", version=fmt))
            contents = {}          # seqnum -> content (only while unambiguous)
            snapshots = []         # list of {(server, shnum): container bytes}
            down = set()

            def observe():
                return [(sh.server, sh.shnum) + share_version(g, sh) for sh in g.find_shares(node.get_uri())]

            def record_new(pre):
                # a new version is a new (seqnum, root hash) pair; the survey only sees reachable servers,
                # so the new seqnum must exceed the reachable shares' seqnums (it may legitimately equal
                # the seqnum of a version that survives only on servers that are down)
                post = observe()
                premax = max([s[2] for s in pre if s[0] not in down] or [0])
                newvers = set((s[2], s[3]) for s in post) - set((s[2], s[3]) for s in pre)
                return premax, set(v[0] for v in newvers), post
            pre = []
            premax, newseqs, post = record_new(pre)
            for sq in newseqs:
                contents[sq] = b"content-1"
            snapshots.append({(sh.server, sh.shnum): g.read_share(sh) for sh in g.find_shares(node.get_uri())})
            vcount = 1
            case = {"seed": seed, "servers": S, "k": k, "N": N, "format": fmt, "steps": steps}
            ambiguous = False
            for step in range(r.choice([3, 4, 5, 6])):
                act = r.choice(["overwrite", "overwrite", "stale", "down", "up"])
                if act == "overwrite" and vcount < 6:
                    vcount += 1
                    data = b"content-%d-" % vcount + b"x" * r.randrange(0, 30)
                    pre = observe()
                    out = g.run(g.mutable_overwrite(node, data), outcome=True)
                    steps.append(["overwrite", vcount, out.status])
                    premax, newseqs, post = record_new(pre)
                    if out.status == "ok":
                        if not newseqs:
                            ctx.oracle_fail("publish-wrote-no-new-seqnum", "a successful publish left no share with a new sequence number", case=case)
                        for sq in newseqs:
                            if sq <= premax:
                                ctx.oracle_fail("publish-seqnum-not-above-survey", "publish wrote seqnum %d although reachable shares already had seqnum %d" % (sq, premax),
                                                case=case, expected="> %d" % premax, observed=sq)
                            if sq in contents and contents[sq] != data:
                                ambiguous = True
                            contents[sq] = data
                        snapshots.append({(sh.server, sh.shnum): g.read_share(sh) for sh in g.find_shares(node.get_uri())})
                    else:
                        ambiguous = True    # a failed publish may have left partial shares of an unknown version
                elif act == "stale" and len(snapshots) >= 2:
                    snap = snapshots[r.randrange(0, len(snapshots) - 1)]
                    cur = {(sh.server, sh.shnum): sh for sh in g.find_shares(node.get_uri())}
                    keys = [kk for kk in snap if kk in cur]
                    r.shuffle(keys)
                    chosen = keys[:r.randrange(1, max(2, len(keys)))]
                    for kk in chosen:
                        g.write_share(cur[kk], snap[kk])
                    steps.append(["stale", sorted(chosen)])
                elif act == "down" and len(down) < S - 1:
                    s = r.randrange(S)
                    if s not in down:
                        g.break_server(s)
                        down.add(s)
                        steps.append(["down", s])
                elif act == "up" and down:
                    s = sorted(down)[r.randrange(len(down))]
                    g.unbreak_server(s)
                    down.discard(s)
                    steps.append(["up", s])
                # ---- read after every step ----
                obs = [o for o in observe() if o[0] not in down]
                byver = {}
                for (srv_, shn, sq, root) in obs:
                    byver.setdefault((sq, root), set()).add(shn)
                recov = sorted(v for v, shs in byver.items() if len(shs) >= k)
                out = g.run(g.mutable_read(node), outcome=True)
                nontrivial = len(byver) >= 2
                ctx.case((seed, step) if nontrivial else None, kind="grid-read")
                if ambiguous:
                    continue
                # MODE_READ asks k + epsilon (= 2k) servers before it may stop; only when that covers the
                # whole grid is "the versions it located" guaranteed to be "the versions reachable".
                full_view = S <= 2 * k
                if recov and not full_view:
                    if out.status == "ok" and out.value not in contents.values():
                        ctx.oracle_fail("read-returned-unpublished-bytes", "read returned bytes that were never published", case=case, observed=out.value)
                    else:
                        ctx.trace(1)
                elif recov:
                    top = recov[-1][0]
                    if [v for v in recov if v[0] == top] != [recov[-1]]:
                        continue    # two recoverable versions with the same seqnum: order is by root hash, contents not tracked
                    want = contents.get(top)
                    if out.status == "ok" and want is not None and out.value != want:
                        got_seq = [sq for sq, c in contents.items() if c == out.value]
                        ctx.oracle_fail("read-returned-older-version", "read returned the contents of seqnum %s while seqnum %d is recoverable from reachable shares" % (got_seq, top),
                                        case=case, expected=want, observed=out.value)
                    elif out.status != "ok":
                        ctx.oracle_fail("read-failed-with-recoverable-version", "read failed (%s) although seqnum %d is recoverable from reachable shares" % (out.error, top), case=case)
                    else:
                        ctx.trace(1)
                elif out.status == "ok":
                    if out.value not in contents.values():
                        ctx.oracle_fail("read-returned-unpublished-bytes", "read returned bytes that were never published", case=case, observed=out.value)
            ctx.sample(case, limit=8)
