"""C24  Read-test-write is atomic and guarded by the write enabler."""
import os

from core import term as T
from props import mutshared as M

ID = "C24"
GEN = ["hashutil", "mutconsts"]
RULE = ("case = one slot_testv_and_readv_and_writev request inside a seeded history against one storage index of a real "
        "StorageServer on a scratch directory; distinct = distinct (pre-state data of the shares, request); non-trivial = the "
        "request names at least one share and either is refused (bad enabler / failed test / oversized vector) with shares "
        "present, or applies writes to two or more shares, or mixes existing and new shares")
META = {
    "title": "Read-test-write is atomic and guarded by the write enabler",
    "level_text": ("Theorems in Coq about a byte-level model of StorageServer.slot_testv_and_readv_and_writev over a bucket of "
                   "container files (collect + write-enabler check on every share, tests on the pre-state, reads from the "
                   "pre-state, size validation, writes share by share, lease renewal): for every well-formed bucket and every "
                   "request, either no file changes at all -- exactly when an enabler mismatches, a test fails or a vector "
                   "exceeds MAX_SIZE -- or all writes are applied to all named shares and nothing else changes; reads equal the "
                   "pre-state.  The model is run against the real server on generated multi-share histories (results and all "
                   "file bytes compared) and the statement itself is evaluated on the server by an independent Python oracle."),
    "level_note": ("The finding that a later oversized write vector was refused after earlier vectors/shares had been written is "
                   "fixed in /repo (size validation before any write); the pre-fix behaviour is kept as a refuted statement "
                   "(slot_tw_unvalidated_not_atomic_refuted).  Trusted: the hand transcription of server.py/mutable.py into "
                   "Model/Slot.v and Model/MutContainer.v (tied by the correspondence runs), POSIX file semantics of "
                   "pread/pwrite, timing_safe_compare = equality.  Out of the model: negative offsets/new_length (foolscap "
                   "allows them; the code asserts), operators other than eq, I/O errors (an OSError raised by a request is judged by the "
                   "oracle: partly applied = violation), os.listdir order on error paths."),
    "technique": "Coq proof over an executable byte-level model + differential run vs the real StorageServer + direct oracle",
    "design_ref": "8/C24",
    "trusted_base": ["harness/translate/mutconsts.py (constants, header format)", "Model/Slot.v, Model/MutContainer.v, Model/Lease.v transcriptions"],
    "assumptions": ["timing_safe_compare(a, b) behaves as a == b (SHA-256d collision freedom)",
                    "regular-file semantics: short reads at EOF, holes read as zeros"],
}

WES = [bytes([0x57]) * 32, bytes([0x58]) * 32, bytes(range(32))]
NSHARES = 5
BIG = 1 << 20


def data_of(ss, si):
    """abstract state through the public API: share number -> readable data"""
    r = ss.slot_readv(si, [], [(0, BIG)])
    return {n: v[0] for n, v in r.items()}


def gen_request(r, pre, owners, maxsz, limit):
    """one request against pre-state `pre` (shnum -> data); returns the op tuple and its class"""
    k = r.random()
    nshares = r.choice([1, 1, 2, 2, 3, 4])
    names = r.sample(range(NSHARES), nshares)
    if pre and r.random() < 0.6:          # make sure existing shares are named often
        names[0] = r.choice(sorted(pre))
        names = list(dict.fromkeys(names))
    tw = {}
    p_true = 0.93 if k < 0.75 else 0.6
    for n in names:
        d = pre.get(n, b"")
        tw[n] = (M.gen_testv(r, d, p_true), M.gen_datav(r, len(d), limit), M.gen_newlen(r, len(d)))
        if n not in pre and r.random() < 0.12:
            # stale belief about a share the server does not hold, together with a delete / write of it:
            # evaluated against the empty share, must fail and protect the other shares of the request
            tw[n] = ([(r.choice([0, 0, 3]), r.choice([1, 4, 100]), b"eq", M.rb(r, r.choice([1, 4])))], tw[n][1], r.choice([0, 0, None]))
    kind = "plain"
    if pre and r.random() < 0.14:
        # delete EVERY existing share (the bucket directory goes away with the last one) and create
        # a share that does not exist yet, in one request: deletes first or create first, new share
        # number below or above the old ones; sometimes one old share is kept
        free = [n for n in range(NSHARES) if n not in pre]
        if free:
            new = r.choice([min(free), max(free), r.choice(free)])
            keep = r.choice(sorted(pre)) if (len(pre) > 1 and r.random() < 0.2) else None
            dels = [(n, ([], M.gen_datav(r, len(pre[n]), limit) if r.random() < 0.3 else [], 0)) for n in sorted(pre) if n != keep]
            r.shuffle(dels)
            create = (new, (M.gen_testv(r, b"", 0.97), M.gen_datav(r, 0, limit) or [(0, M.rb(r, 3))], r.choice([None, None, 50])))
            items = dels + [create] if r.random() < 0.6 else [create] + dels
            if r.random() < 0.3 and len(free) > 1:      # a second new share somewhere
                items.insert(r.randint(0, len(items)), (r.choice([n for n in free if n != new]), ([], [(r.randint(0, 9), M.rb(r, 2))], None)))
            tw = dict(items)
            kind = "delete-all-and-create"
    long_shares = [n for n in sorted(pre) if len(pre[n]) >= 3]
    if kind == "plain" and long_shares and r.random() < 0.16:
        # a test vector whose length and specimen length differ, on a share whose data goes on behind
        # the specimen (must FAIL: the specimen is compared with all the bytes read) or ends before
        # offset+length (the read is clipped: the clipped bytes pass, anything else fails); the same
        # request creates / deletes / overwrites other shares, which must then stay as they are
        n = r.choice(long_shares)
        d = pre[n]
        off = r.choice([0, 0, 1, len(d) // 2, max(0, len(d) - 3)])
        rest = d[off:]
        shape = r.choice(["prefix", "prefix", "prefix-one", "clipped-ok", "clipped-prefix", "exact-ok", "longer-specimen"])
        if shape == "prefix" and len(rest) >= 2:
            tvn = [(off, r.choice([len(rest), 100, 5000]), b"eq", rest[:r.randint(1, len(rest) - 1)])]
        elif shape == "prefix-one" and len(rest) >= 2:
            tvn = [(off, 2, b"eq", rest[:1])]
        elif shape == "clipped-ok":
            tvn = [(off, len(rest) + r.choice([1, 50]), b"eq", rest)]
        elif shape == "clipped-prefix" and len(rest) >= 2:
            tvn = [(off, len(rest) + 7, b"eq", rest[:-1])]
        elif shape == "longer-specimen":
            tvn = [(off, max(1, len(rest) - 1), b"eq", rest + b"\x00")]
        else:
            tvn = [(off, len(rest), b"eq", rest)]
        others = [m for m in range(NSHARES) if m != n]
        items = [(n, (tvn, M.gen_datav(r, len(d), limit) or [(0, M.rb(r, 2))], r.choice([None, None, 0, 2])))]
        for m in r.sample(others, r.choice([1, 2])):
            dm = pre.get(m, b"")
            items.append((m, ([], M.gen_datav(r, len(dm), limit) or [(0, M.rb(r, 2))], r.choice([None, None, 0]) if m in pre else None)))
        r.shuffle(items)
        tw = dict(items)
        kind = "testv-length-vs-specimen:" + shape
    if r.random() < 0.10 and names and kind == "plain":        # an oversized vector, not necessarily in the first share / first position
        n = r.choice(names)
        tv, dv, nl = tw[n]
        if maxsz > 10 ** 6:     # the real MAX_SIZE: strictly beyond it (a vector that fits would really be written)
            big = (maxsz + r.choice([0, 1, 7]), M.rb(r, r.choice([1, 2, 3])))
        else:                   # scaled down: on and around the boundary
            big = (maxsz + r.choice([0, 1, 1, 7]) - r.choice([0, 1, 3]), M.rb(r, r.choice([1, 2, 3])))
        dv = list(dv)
        dv.insert(r.randint(0, len(dv)), big)
        tw[n] = (tv, dv, nl)
        kind = "oversized"
    we = WES[0]
    if r.random() < 0.10 and kind == "plain":
        we = WES[1]
        kind = "wrong-enabler"
    secrets = (we, M.secret(r.randint(0, 3)), M.secret(10 + r.randint(0, 3)))
    rv = M.gen_readv(r, max([len(v) for v in pre.values()] + [0]), whole=BIG if False else 3000)
    return ("tw", secrets, tw, rv, r.random() < 0.6), kind


def judge(ctx, i, step, pre, pre_files, owners, op, res, post, post_files, maxsz):
    """The statement of C24 evaluated on what the server did (independent of the Coq model)."""
    _, (we, rs, cs), tw, rv, renew = op
    case = {"history": i, "step": step, "request": repr(op)[:1500], "pre": {n: pre[n].hex() for n in pre}}
    enabler_ok = all(owners[n] == we for n in pre)
    tests_ok = all(bytes((pre.get(n, b""))[o:o + ln]) == spec for n, (tv, dv, nl) in tw.items() for (o, ln, _, spec) in tv)
    fits = all(nl == 0 or M.vectors_fit(dv, maxsz) for (tv, dv, nl) in tw.values())
    want_reads = {n: [bytes(pre[n][o:o + ln]) for (o, ln) in rv] for n in pre}

    def unchanged(kind, what):
        if post_files != pre_files:
            diff = sorted(n for n in set(pre_files) | set(post_files) if pre_files.get(n) != post_files.get(n))
            ctx.oracle_fail(kind, what + ": shares %r differ after the request" % diff, case=case,
                            expected={n: pre.get(n, b"").hex() for n in diff} if False else "no file changes",
                            observed={str(n): (post.get(n).hex() if post.get(n) is not None else None) for n in diff})

    if res == ("err", "EOSError"):
        changed = sorted(n for n in set(pre_files) | set(post_files) if pre_files.get(n) != post_files.get(n))
        applied = all(post.get(n) == M.ref_apply(pre.get(n), dv, nl) for n, (tv, dv, nl) in tw.items())
        if changed and not (enabler_ok and tests_ok and fits and applied):
            ctx.oracle_fail("rtw-partial-application-on-os-error",
                            "the request raised an OSError (not a protocol answer) after part of it had been applied: shares %r changed, "
                            "data went from %r to %r" % (changed, {n: pre[n][:16] for n in pre}, {n: post[n][:16] for n in post}),
                            case=case, expected="all of the request's writes, or none", observed={str(n): (post[n].hex() if n in post else None) for n in changed})
        else:
            ctx.oracle_fail("rtw-os-error", "the request raised an OSError instead of answering", case=case, expected="(bool, reads) or a protocol error", observed="OSError")
        return "os-error"
    if res == ("err", "ENoSpace"):
        # a server may refuse a request for lack of room, but only as a whole
        changed = sorted(n for n in set(pre_files) | set(post_files) if pre_files.get(n) != post_files.get(n))
        if changed:
            ctx.oracle_fail("rtw-partial-application-on-no-space",
                            "the request was refused with NoSpace after part of it had been applied: shares %r changed, data went from %r to %r"
                            % (changed, {n: pre[n][:16] for n in pre}, {n: post[n][:16] for n in post}),
                            case=case, expected="all of the request's writes, or none",
                            observed={str(n): (post[n].hex() if n in post else None) for n in changed})
        return "refused-space"
    if not enabler_ok:
        if res != ("err", "EBadWriteEnabler"):
            ctx.oracle_fail("rtw-bad-enabler-not-rejected", "a share was created under another write enabler but the request returned %r" % (res,),
                            case=case, expected="BadWriteEnablerError", observed=repr(res)[:300])
        unchanged("rtw-bad-enabler-changed-state", "request with a wrong write enabler")
        return "refused-enabler"
    if not tests_ok:
        if res[0] != "ok" or res[1][0] is not False:
            ctx.oracle_fail("rtw-failed-test-wrong-result", "a test vector does not hold on the pre-state but the request returned %r" % (res,),
                            case=case, expected="(False, reads)", observed=repr(res)[:300])
        elif res[1][1] != want_reads:
            ctx.oracle_fail("rtw-reads-not-pre-state", "read results of a failed request differ from the pre-state data", case=case,
                            expected={n: [x.hex() for x in v] for n, v in want_reads.items()}, observed=repr(res[1][1])[:600])
        unchanged("rtw-failed-test-changed-state", "request with a failing test vector")
        return "refused-test"
    if not fits:
        if res != ("err", "EDataTooLarge"):
            ctx.oracle_fail("rtw-oversized-vector-not-rejected", "a write vector exceeds MAX_SIZE but the request returned %r" % (res,),
                            case=case, expected="DataTooLargeError", observed=repr(res)[:300])
        unchanged("rtw-partial-application-oversized-vector",
                  "a request with a write vector beyond MAX_SIZE=%d raised DataTooLargeError after writes of the same request had been applied" % maxsz)
        return "refused-size"
    # all writes must have been applied
    if res[0] != "ok" or res[1][0] is not True:
        ctx.oracle_fail("rtw-valid-request-not-applied", "enabler matches, tests hold, vectors fit, but the request returned %r" % (res,),
                        case=case, expected="(True, reads)", observed=repr(res)[:300])
        return "applied"
    if res[1][1] != want_reads:
        ctx.oracle_fail("rtw-reads-not-pre-state", "read results differ from the data before the request", case=case,
                        expected={n: [x.hex() for x in v] for n, v in want_reads.items()}, observed=repr(res[1][1])[:600])
    for n, (tv, dv, nl) in tw.items():
        want = M.ref_apply(pre.get(n), dv, nl)
        if post.get(n) != want:
            ctx.oracle_fail("rtw-writes-not-all-applied", "share %d does not hold the result of applying the request's vectors" % n, case=case,
                            expected=None if want is None else want.hex(), observed=None if post.get(n) is None else post[n].hex())
    for n in set(pre) | set(post):
        if n not in tw and pre_files.get(n) != post_files.get(n):
            ctx.oracle_fail("rtw-unnamed-share-changed", "share %d is not named by the request but its file changed" % n, case=case)
    return "applied"


def one_history(ctx, ss, clock, i, maxsz_patch):
    r = ctx.rng("hist", i)
    si = bytes([0x24, i & 0xff, (i >> 8) & 0xff]) + b"\x00" * 13
    maxsz = maxsz_patch if maxsz_patch is not None else M.real_max_size()
    limit = (maxsz_patch - 1) if maxsz_patch is not None else 1500
    owners = {}
    # some histories start with shares that exist already, some of them created by another writer / older schema
    if r.random() < 0.4:
        for n in r.sample(range(NSHARES), r.randint(1, 3)):
            we = WES[0] if r.random() < 0.8 else WES[2]
            M.create_mutable(ss, si, n, we, version=r.choice([1, 2]))
            owners[n] = we
    files0 = M.read_bucket(ss, si)
    now0 = int(clock.seconds())
    ops, results = [], []
    nops = r.randint(3, 9)
    with M.patched_max_size(maxsz_patch):
        for step in range(nops):
            pre = data_of(ss, si)
            pre_files = M.read_bucket(ss, si)
            if r.random() < 0.12:
                op = ("tick", r.randint(1, 100000))
                kind = "tick"
            elif r.random() < 0.08:
                op = ("readv", r.sample(range(NSHARES), r.randint(0, 2)), M.gen_readv(r, 50))
                kind = "readv"
            else:
                op, kind = gen_request(r, pre, owners, maxsz, limit)
            res = M.run_sop(ss, clock, si, op)
            ops.append(op)
            results.append(res)
            if op[0] != "tw":
                continue
            post = data_of(ss, si)
            post_files = M.read_bucket(ss, si)
            outcome = judge(ctx, i, step, pre, pre_files, owners, op, res, post, post_files, maxsz)
            if outcome == "os-error":
                ctx.case(None, kind=kind + ":" + outcome)
                return None
            for n in list(owners):
                if n not in post_files:
                    del owners[n]
            for n in post_files:
                owners.setdefault(n, op[1][0])
            tw = op[2]
            nontrivial = None
            applied_to = [n for n, (tv, dv, nl) in tw.items() if nl != 0]
            if (outcome.startswith("refused") and pre) or (outcome == "applied" and (len(applied_to) >= 2 or (set(tw) & set(pre) and set(tw) - set(pre)))):
                nontrivial = (tuple(sorted(pre.items())), repr(op))
            ctx.case(nontrivial, kind=kind + ":" + outcome)
            if i < 2 and step < 2:
                ctx.sample({"request": repr(op)[:400], "result": repr(res)[:200]})
    files1 = M.read_bucket(ss, si)
    term = M.srun_term(files0, now0, ops, results, files1, maxsz=maxsz_patch)
    return term, (i, files0, now0, ops, results, files1, maxsz_patch)


NOROOM = [("readonly", 0), ("patched", 0), ("patched", 100), ("patched", 467), ("patched", 468)]


def noroom_history(ctx, i):
    """Forced in every run: a server with little or no available space (read-only, or
    get_available_space patched), and requests that mix EXISTING shares (write, truncate through
    new_length, delete through new_length=0) with share numbers that do not exist yet, existing
    first and new first.  Creating a mutable container ignores the available space, so on the
    real code these requests are applied; whatever the server answers, the statement is judged:
    an error or (False, ...) leaves every share file byte-identical, True means all applied."""
    r = ctx.rng("noroom", i)
    mode, avail = NOROOM[i % len(NOROOM)]
    ss, clock = M.new_server("c24nr")

    def no_room():                                         # after the first request: the shares exist, then the room is gone
        if mode == "patched":
            ss.get_available_space = lambda avail=avail: avail
        else:
            ss.readonly_storage = True
    si = bytes([0x24, 9, i & 0xff, (i >> 8) & 0xff]) + b"\x00" * 12
    secrets = (WES[0], M.secret(1), M.secret(11))          # one renew secret: the lease is renewed, never a fifth one
    variant = (i // len(NOROOM)) % 3

    def touch(d):                                          # what happens to an existing share
        if variant == 0:
            return ([(0, 1, b"eq", d[:1])], [(r.randint(0, 3), M.rb(r, 3))], None)
        if variant == 1:
            return ([], [(0, M.rb(r, 1))], 2)               # truncate
        return ([(0, len(d), b"eq", d)], [], 0)             # delete

    script = [
        lambda pre: {0: ([], [(0, M.rb(r, 6))], None), 1: ([(0, 1, b"eq", b"")], [(2, M.rb(r, 5))], None)},
        lambda pre: dict([(0, touch(pre.get(0, b""))), (2, ([], [(0, M.rb(r, 4))], None))]),                    # existing first, new later
        lambda pre: dict([(3, ([], [(1, M.rb(r, 4))], None)), (1, touch(pre.get(1, b"")))]),                    # new first, existing later
        lambda pre: dict([(n, touch(pre[n])) for n in sorted(pre)[:2]] + [(4, ([], [(0, M.rb(r, 2))], 1))]),    # several existing, then new
        lambda pre: dict([(n, ([], [], 0)) for n in sorted(pre)] + [(r.choice([0, 5]), ([], [(0, M.rb(r, 3))], None))]),   # delete all, then create
    ]
    owners = {}
    now0 = int(clock.seconds())
    ops, results = [], []
    for step in range(len(script) + 3):
        pre = data_of(ss, si)
        pre_files = M.read_bucket(ss, si)
        if step < len(script):
            op, kind = ("tw", secrets, script[step](pre), M.gen_readv(r, 10), step % 2 == 0), "scripted"
        else:
            op, kind = gen_request(r, pre, owners, M.real_max_size(), 1500)
            op = (op[0], (op[1][0],) + secrets[1:]) + op[2:]
        res = M.run_sop(ss, clock, si, op)
        if step == 0:
            no_room()
        ops.append(op)
        results.append(res)
        post = data_of(ss, si)
        post_files = M.read_bucket(ss, si)
        outcome = judge(ctx, ("noroom", i), step, pre, pre_files, owners, op, res, post, post_files, M.real_max_size())
        for n in list(owners):
            if n not in post_files:
                del owners[n]
        for n in post_files:
            owners.setdefault(n, op[1][0])
        tw = op[2]
        mixed = bool(set(tw) & set(pre)) and bool(set(tw) - set(pre))
        ctx.case((mode, avail, tuple(sorted(pre.items())), repr(op)) if mixed else None,
                 kind="no-room(%s,%d):%s:%s" % (mode, avail, kind, outcome))
        if outcome in ("os-error", "refused-space"):
            break
    files1 = M.read_bucket(ss, si)
    term = M.srun_term({}, now0, ops, results, files1, avail=avail)
    return term, (("noroom", i), {}, now0, ops, results, files1, None)


def run(ctx):
    ctx.correspondence("slot-tw-model-vs-server")
    ss, clock = M.new_server("c24")
    terms, info = [], []
    n = ctx.n(90, 900)
    for i in range(n):
        patch = None if i % 3 else 600 + (i % 7) * 50      # a third of the histories with a scaled-down MAX_SIZE
        out = one_history(ctx, ss, clock, i, patch)
        if out is not None:
            terms.append(out[0])
            info.append(out[1])
    for i in range(ctx.n(15, 60)):
        t, inf = noroom_history(ctx, i)
        terms.append(t)
        info.append(inf)
    bad = ctx.coq_check(M.IMPORTS, terms, preamble=M.PREAMBLE, tag="c24", shard=12)
    for ix in bad:
        i, files0, now0, ops, results, files1, patch = info[ix]
        ctx.mismatch("slot-model-vs-impl", "history %r: the Coq model of slot_testv_and_readv_and_writev and the server disagree "
                     "(results or final file bytes)" % (i,),
                     case={"history": i, "max_size": patch, "ops": [repr(o)[:600] for o in ops]},
                     expected="model", observed={"results": [repr(x)[:300] for x in results]},
                     correspondence="slot-tw-model-vs-server")
    ctx.trace(len(terms) - len(bad))
    ctx.note("MAX_SIZE scaled down by patching the class attribute MutableShareFile.MAX_SIZE in a third of the histories")


def replay(ctx, rec):
    case = rec.get("case") or {}
    if "history" not in case:
        return {"note": "record has no history index"}
    i = case["history"]
    if isinstance(i, (list, tuple)) and i and i[0] == "noroom":
        t, inf = noroom_history(ctx, i[1])
        bad = ctx.coq_check(M.IMPORTS, [t], preamble=M.PREAMBLE, tag="c24r")
        return {"history": list(i), "server": NOROOM[i[1] % len(NOROOM)], "ops": [repr(o)[:600] for o in inf[3]],
                "results": [repr(x)[:300] for x in inf[4]], "model_agrees": not bad}
    ss, clock = M.new_server("c24r")
    # the clock value at the start of history i depends on the ticks of the earlier ones: re-run them silently
    sub = type(ctx)(ctx.pid, rec.get("tier", "quick"), rec.get("seed", 0))
    for j in range(i):
        one_history(sub, ss, clock, j, None if j % 3 else 600 + (j % 7) * 50)
    out = one_history(ctx, ss, clock, i, None if i % 3 else 600 + (i % 7) * 50)
    if out is None:
        return {"history": i, "note": "the history ends with an OSError raised by the server (see FAILS AGAIN)"}
    term, inf = out
    bad = ctx.coq_check(M.IMPORTS, [term], preamble=M.PREAMBLE, tag="c24r")
    out = {"history": i, "ops": [repr(o)[:600] for o in inf[3]], "results": [repr(x)[:300] for x in inf[4]],
           "model_agrees": not bad}
    if bad:
        ctx.mismatch("slot-model-vs-impl", "history %d still disagrees with the model" % i)
        out["model"] = ctx.coq_eval(M.IMPORTS, M.srun_eval_term(inf[1], inf[2], inf[3], maxsz=inf[6]), preamble=M.PREAMBLE)[-3000:]
    return out
