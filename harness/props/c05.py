"""C05  Convergent capabilities and literal files."""
import hashlib
import io
import os

from core import term as T

ID = "C05"
GEN = ["hashutil", "immconsts"]
RULE = ("cases: (a) key derivation = (plaintext size class, k, n, max_segment_size, secret, source kind, read schedule) with sizes on and "
        "around 0/55/56/57, multiples of k, max_segment_size+-1, the 64 KiB read block +-1, the 50 KiB encryption chunk +-1, up to 300 KiB; "
        "(b) chunked encryption = (size, CHUNKSIZE, piece/read schedule incl. hash_only reads); (c) grid uploads = one plaintext uploaded "
        "from Data / FileHandle / FileName / a short-reading multi-piece uploadable, twice, and with exactly one of secret, k, n, "
        "max_segment_size changed, plus random-key uploads; (d) every size 0..57 for the literal threshold, on a grid without servers; "
        "distinct = distinct inputs; non-trivial = the case reaches a key / a cap (all do unless the implementation raises)")
META = {
    "title": "Convergent capabilities and literal files",
    "level_text": ("Theorems in Coq over a model whose hash derivations are regenerated from hashutil.py on every run: the convergent key is "
                   "independent of the chunking of the hasher input and of short reads in the key read loop; the convergence tag is an "
                   "injective function of (k, n, segment size, secret); equal keys (storage indexes) for different parameters (keys) "
                   "exhibit a collision of SHA-256d truncated to 128 bits, and on any collision-free set of hash inputs a parameter change "
                   "changes key and storage index; literal iff size <= 55 (constant regenerated from upload.py); the literal cap decodes "
                   "back to the data for ALL byte strings (base32 round trip).  The executable model is run against the real uploadables "
                   "(Data, FileHandle, FileName, short-reading and multi-piece sources), EncryptAnUploadable and the real Uploader on an "
                   "in-process grid, next to an independent hashlib / AES-CTR / base32 oracle."),
    "level_note": ("Collision resistance is NOT proved: it is idealised as injectivity of truncated SHA-256d on the set of hash inputs "
                   "under consideration (an explicit hypothesis of param_change_changes_key_and_si, shown satisfiable on a concrete "
                   "set by computation); the unconditional theorems only reduce a repeated key / storage index to a collision.  "
                   "Hand-modelled (AST-pinned) code: the read loop and parameter derivation of upload.py, Uploader.upload's threshold "
                   "test, LiteralUploader; base32 and the LIT cap syntax are modelled by hand and tied by the differential run only.  "
                   "The UEB-hash field of the CHK cap, AES and the random key are outside the model: determinism of the whole cap, "
                   "AES-CTR chunking independence and freshness of random keys are checked at run time on sampled inputs.  "
                   "The Coq SHA-256 is validated against hashlib on every run, not proved."),
    "technique": "Coq proof over a model regenerated from source (hash derivations, constants, pins) + differential run vs implementation and in-process grid",
    "design_ref": "8/C05",
    "trusted_base": ["translators harness/translate/hashutil.py and immconsts.py", "Lib/SHA256.v validated against hashlib",
                     "harness/core/grid.py (in-process grid)", "hashlib / cryptography AES-CTR as reference oracles"],
    "assumptions": ["truncated SHA-256d has no collision among the hash inputs of the uploads considered (hypothesis of param_change_changes_key_and_si)",
                    "file objects handed to FileHandle return a non-empty read until the end of the file (an empty read ends the key loop)"],
}

IMPORTS = ["Lib.Hex", "Model.Convergence"]
MODEL_LIMIT = 700        # bytes of plaintext the Coq SHA-256 is asked to hash per case
HAPPY = 1

# ---------------------------------------------------------------------------------------------
# independent oracle: hashlib, own base32, cryptography's AES-CTR
# ---------------------------------------------------------------------------------------------
B32 = "abcdefghijklmnopqrstuvwxyz234567"


def o_ns(b):
    return b"%d:" % len(b) + b + b","


def o_sha256d(b):
    return hashlib.sha256(hashlib.sha256(b).digest()).digest()


def o_segsize(max_seg, size, k):
    m = min(max_seg, size)
    return -(-m // k) * k


def o_key(k, n, segsize, secret, data):
    tag = b"allmydata_immutable_content_to_key_with_added_secret_v1+" + o_ns(secret) + o_ns(b"%d,%d,%d" % (k, n, segsize))
    return o_sha256d(o_ns(tag) + data)[:16]


def o_si(key):
    return o_sha256d(o_ns(b"allmydata_immutable_key_to_storage_index_v1") + key)[:16]


def o_b32(data):
    bits = "".join("{:08b}".format(b) for b in data)
    bits += "0" * (-len(bits) % 5)
    return "".join(B32[int(bits[i:i + 5], 2)] for i in range(0, len(bits), 5)).encode()


def o_b32_decode(s):
    """None unless s is the canonical unpadded lower-case base32 of some byte string."""
    try:
        bits = "".join("{:05b}".format(B32.index(chr(c))) for c in s)
    except ValueError:
        return None
    n = len(bits) // 8
    data = bytes(int(bits[i * 8:i * 8 + 8], 2) for i in range(n))
    return data if o_b32(data) == bytes(s) else None


def o_aes_ctr(key, data):
    from cryptography.hazmat.primitives.ciphers import Cipher, algorithms, modes
    from cryptography.hazmat.backends import default_backend
    e = Cipher(algorithms.AES(key), modes.CTR(b"\x00" * 16), backend=default_backend()).encryptor()
    return e.update(data) + e.finalize()


# ---------------------------------------------------------------------------------------------
# data sources
# ---------------------------------------------------------------------------------------------
class ShortReadIO(io.BytesIO):
    """A file object whose read(n) returns at most sched[j] bytes on the j-th read
    after the last seek(0) (unlimited once the schedule is used up), never an
    empty string before the end of the file."""

    def __init__(self, data, sched):
        io.BytesIO.__init__(self, data)
        self.sched = list(sched)
        self.calls = 0
        self.reads = []

    def seek(self, pos, whence=0):
        if pos == 0 and whence == 0:
            self.calls = 0
        return io.BytesIO.seek(self, pos, whence)

    def read(self, n=-1):
        lim = self.sched[self.calls] if self.calls < len(self.sched) else None
        self.calls += 1
        if n is None or n < 0:
            n = len(self.getbuffer())
        r = io.BytesIO.read(self, n if lim is None else min(n, lim))
        self.reads.append(len(r))
        return r


_cls = {}


def chunky_class():
    """An IUploadable over a short-reading file object that honours the
    IUploadable.read contract (exactly `length` bytes unless EOF) but hands the
    bytes out as a list of several pieces of seeded sizes."""
    if "c" not in _cls:
        from twisted.internet import defer
        from allmydata.immutable import upload

        class ChunkyFileHandle(upload.FileHandle):
            def __init__(self, filehandle, convergence, rng):
                upload.FileHandle.__init__(self, filehandle, convergence)
                self._rng = rng
                self.pieces = []

            def read(self, length):
                buf = b""
                while len(buf) < length:
                    piece = self._filehandle.read(length - len(buf))
                    if not piece:
                        break
                    buf += piece
                out = []
                while buf:
                    c = self._rng.choice([1, 2, 3, 16, 100, 4096, len(buf), len(buf)])
                    out.append(buf[:c])
                    buf = buf[c:]
                self.pieces.append([len(p) for p in out])
                return defer.succeed(out or [b""])
        _cls["c"] = ChunkyFileHandle
    return _cls["c"]


def fired(d):
    """Result of an already-fired Deferred (raises its failure)."""
    from twisted.python.failure import Failure
    res = []
    d.addBoth(res.append)
    if not res:
        raise RuntimeError("Deferred did not fire synchronously")
    if isinstance(res[0], Failure):
        res[0].raiseException()
    return res[0]


def rbytes(r, n):
    return bytes(r.getrandbits(8) for _ in range(n)) if n < 4096 else r.getrandbits(8 * n).to_bytes(n, "big")


SECRET_EDGES = [b"", b",", b"0", b"1:,", b"3,10,57", b"\x00", b"\xff" * 16, b"6:secret,"]


def gen_secret(r):
    c = r.randrange(6)
    if c == 0:
        return r.choice(SECRET_EDGES)
    if c == 1:
        return rbytes(r, r.choice([1, 2, 16]))
    return rbytes(r, 32)


def gen_sched(r, size):
    """Limits for the reads of the key loop: mostly small, some around the 64 KiB block."""
    if size == 0 or r.random() < 0.1:
        return []
    n = r.randrange(1, 40)
    big = size > 70000
    out = []
    for _ in range(n):
        c = r.random()
        if big and c < 0.5:
            out.append(r.choice([65535, 65536, 65537, 70000, 1, 40000, 131072]))
        elif c < 0.8:
            out.append(r.randrange(1, 64))
        else:
            out.append(r.choice([1, 1, 2, 1000, 5000]))
    return out


def gen_params(r, small=False, grid=False):
    if grid:
        k = r.choice([1, 2, 3, 3, 4, 5, 7])
        n = r.choice([x for x in [k, k + 1, 10, 10, 12] if x >= k])
        max_seg = r.choice([64, 100, 1024, 4096, 65536, 131072, 131072])
        return k, n, max_seg
    k = r.choice([1, 2, 3, 3, 4, 7, 16, 100, 255, 256])
    n = r.choice([x for x in [k, k + 1, 10, 100, 256] if k <= x <= 256])
    max_seg = r.choice([1, 56, 100, 1024, 4096, 65536, 131072, 131072, 1048576])
    return k, n, max_seg


def gen_size(r, k, max_seg, limit=300 * 1024, small_bias=0.5):
    c = r.random()
    if c < small_bias:
        cand = [0, 1, 54, 55, 56, 57, 58, k, k + 1, 2 * k - 1, 3 * k, 100, 119, 120, 200, 255, 256, 300,
                max_seg - 1, max_seg, max_seg + 1, 2 * max_seg + 1, r.randrange(0, 600)]
        cand = [x for x in cand if 0 <= x <= MODEL_LIMIT]
        return r.choice(cand)
    cand = [max_seg - 1, max_seg, max_seg + 1, 2 * max_seg, 2 * max_seg + 1, 3 * max_seg - 1,
            51199, 51200, 51201, 65535, 65536, 65537, 102400, 131071, 131072, 131073, 196609,
            r.randrange(1000, 20000), r.randrange(min(20000, limit), limit + 1), limit]
    cand = [x for x in cand if 0 <= x <= limit]
    return r.choice(cand)


def perturb(r, which, k, n, max_seg, secret, size, max_segments=None):
    """Change exactly one of secret / k / n / max_segment_size.  Returns the new
    (k, n, max_seg, secret) and what changed, or None if `which` cannot change the
    hashed parameters for this size (max_segment_size only matters through the
    derived segment size)."""
    if which == "secret":
        s2 = secret + b"x" if r.random() < 0.5 else (bytes([secret[0] ^ 1]) + secret[1:] if secret else b"\x00")
        return k, n, max_seg, s2
    if which == "k":
        cand = [x for x in (k - 1, k + 1, 1, 2) if 1 <= x <= n and x != k]
        if not cand:
            return None
        return r.choice(cand), n, max_seg, secret
    if which == "n":
        cand = [x for x in (n - 1, n + 1, n + 2) if k <= x <= 256 and x != n]
        if not cand:
            return None
        return k, r.choice(cand), max_seg, secret
    if which == "max_seg":
        base = o_segsize(max_seg, size, k)
        cand = [m for m in (max_seg // 2, max_seg - k, max_seg + k, max_seg * 2, max(1, size // 2), 57, 64, 1000)
                if m >= 1 and o_segsize(m, size, k) != base and (max_segments is None or size // m <= max_segments)]
        if not cand:
            return None
        return k, n, r.choice(cand), secret
    raise ValueError(which)


# ---------------------------------------------------------------------------------------------
# (a) key derivation
# ---------------------------------------------------------------------------------------------
# file objects holding written but UNFLUSHED data (what a web/SFTP frontend or `tahoe put` of a
# just-written temporary file hands to FileHandle): same bytes, so same cap
BUFFERED = ("unflushed", "tempfile", "spooled-mem", "spooled-rolled")


def buffered_file(kind, data, path=None):
    import tempfile
    from core import env
    d = os.path.dirname(path) if path else env.subdir("c05buf")
    if kind == "unflushed":
        f = tempfile.NamedTemporaryFile(mode="w+b", dir=d)          # open(..., "w+b"), removed on close
    elif kind == "tempfile":
        f = tempfile.TemporaryFile(dir=d)
    elif kind == "spooled-mem":
        f = tempfile.SpooledTemporaryFile(max_size=len(data) + 100, dir=d)
    elif kind == "spooled-rolled":
        f = tempfile.SpooledTemporaryFile(max_size=max(1, len(data) // 2), dir=d)
    else:
        raise ValueError(kind)
    f.write(data)      # no flush, no seek: the position is at the end, part of the data is still in the buffer
    return f


def make_uploadable(kind, data, secret, sched, path=None, rng=None):
    from allmydata.immutable import upload
    if kind in BUFFERED:
        f = buffered_file(kind, data, path)
        u = upload.FileHandle(f, secret)
        u._verif_file = f          # closed (and removed) when the uploadable goes away
        return u
    if kind == "data":
        return upload.Data(data, secret)
    if kind == "filehandle":
        return upload.FileHandle(io.BytesIO(data), secret)
    if kind == "filename":
        with open(path, "wb") as f:
            f.write(data)
        return upload.FileName(path, secret)
    if kind == "shortread":
        return upload.FileHandle(ShortReadIO(data, sched), secret)
    if kind == "chunky":
        return chunky_class()(ShortReadIO(data, sched), secret, rng)
    raise ValueError(kind)


def uploadable_key(kind, data, secret, sched, k, n, max_seg, path=None, want_si=False):
    from allmydata.immutable import upload
    u = make_uploadable(kind, data, secret, sched, path=path)
    u.set_default_encoding_parameters({"k": k, "happy": HAPPY, "n": n, "max_segment_size": max_seg})
    try:
        params = fired(u.get_all_encoding_parameters())
        key = fired(u.get_encryption_key())
        key2 = fired(u.get_encryption_key())
        si = fired(upload.EncryptAnUploadable(u).get_storage_index()) if want_si else None
    finally:
        u.close()
    return params, key, key2, si


def key_case(ctx, i, scratch):
    """One key-derivation case; returns (model terms, descriptions)."""
    r = ctx.rng("key", i)
    k, n, max_seg = gen_params(r)
    size = gen_size(r, k, max_seg, limit=ctx.n(300, 400) * 1024)
    secret = gen_secret(r)
    data = rbytes(r, size)
    sched = gen_sched(r, size)
    case = {"part": "key", "i": i, "k": k, "n": n, "max_segment_size": max_seg, "size": size,
            "secret": secret.hex(), "sched": sched[:40], "data_sha256": hashlib.sha256(data).hexdigest()}
    segsize = o_segsize(max_seg, size, k)
    want = o_key(k, n, segsize, secret, data)
    path = os.path.join(scratch, "key-%d.bin" % i)
    got = {}
    buffered = BUFFERED if size <= 70000 else (BUFFERED[i % len(BUFFERED)],)
    for kind in ("data", "filehandle", "filename", "shortread") + tuple(buffered):
        params, key, key2, si = uploadable_key(kind, data, secret, sched, k, n, max_seg, path=path, want_si=True)
        got[kind] = (params, key, si)
        if key2 != key:
            ctx.oracle_fail("convergent-key-not-stable", "get_encryption_key() of one %s uploadable returned two different keys" % kind,
                            case=case, expected=key.hex(), observed=key2.hex())
    if os.path.exists(path):
        os.unlink(path)
    ctx.case(("key", k, n, max_seg, secret, size, tuple(sched), data[:64]), kind="key:" + size_class(size))
    base = got["data"]
    for kind in ("filehandle", "filename") + tuple(buffered):
        if got[kind][1] != base[1] or got[kind][0] != base[0]:
            ctx.oracle_fail("convergent-key-depends-on-source",
                            "%s and upload.Data give different convergent keys / encoding parameters for the same %d-byte plaintext and settings: %r vs %r" % (
                                "upload.%s" % kind if kind in ("filehandle", "filename") else "upload.FileHandle over a written but unflushed file object (%s)" % kind,
                                size, got[kind][0], base[0]),
                            case=dict(case, source=kind), expected=base[1].hex(), observed=got[kind][1].hex())
    if got["shortread"][1] != base[1]:
        ctx.oracle_fail("convergent-key-depends-on-chunking",
                        "a file object returning short reads %r... gives a different convergent key than the same bytes read in 64 KiB blocks" % (sched[:8],),
                        case=case, expected=base[1].hex(), observed=got["shortread"][1].hex())
    if base[1] != want:
        ctx.oracle_fail("convergent-key-not-function-of-params",
                        "convergent key of upload.Data is not SHA-256d(tag(secret, k=%d, n=%d, segsize=%d) ++ plaintext)[:16]" % (k, n, segsize),
                        case=case, expected=want.hex(), observed=base[1].hex())
    for kind, (params, key, si) in sorted(got.items()):
        if si != o_si(key):
            ctx.oracle_fail("storage-index-not-hash-of-key", "EncryptAnUploadable(%s).get_storage_index() is not storage_index_hash(key)" % kind,
                            case=case, expected=o_si(key).hex(), observed=si.hex())
    # exactly one parameter changed: key and storage index must change
    for which in ("secret", "k", "n", "max_seg"):
        p = perturb(ctx.rng("key-perturb", i, which), which, k, n, max_seg, secret, size)
        if p is None:
            continue
        k2, n2, m2, s2 = p
        _, key2, _, si2 = uploadable_key("data", data, s2, [], k2, n2, m2, want_si=True)
        ctx.case(("key-perturb", which, i), kind="perturb:" + which)
        if key2 == base[1] or si2 == base[2]:
            ctx.oracle_fail("param-change-same-storage-index",
                            "changing only %s (k=%d,n=%d,max_segment_size=%d -> k=%d,n=%d,max_segment_size=%d, secret %s) leaves the key / storage index unchanged"
                            % (which, k, n, max_seg, k2, n2, m2, "changed" if s2 != secret else "same"),
                            case=dict(case, changed=which, k2=k2, n2=n2, max_segment_size2=m2, secret2=s2.hex()),
                            expected="different storage index", observed=si2.hex())
    terms, info = [], []
    terms.append("(cv_upload_segsize %s %s %s =? %s)" % (T.N(max_seg), T.N(size), T.N(k), T.N(base[0][3])))
    info.append(("segsize", case, base[0][3]))
    if size <= MODEL_LIMIT:
        terms.append("list_N_eqb (uploadable_key %s %s %s %s %s %s) %s" % (
            T.N(max_seg), T.N(k), T.N(n), T.bytes_(secret), T.lst([T.N(s) for s in sched]), T.bytes_(data), T.bytes_(got["shortread"][1])))
        info.append(("key", case, got["shortread"][1].hex()))
        terms.append("list_N_eqb (chk_storage_index %s) %s" % (T.bytes_(base[1]), T.bytes_(base[2])))
        info.append(("si", case, base[2].hex()))
    if i < 3:
        ctx.sample({"part": "key", "k": k, "n": n, "max_segment_size": max_seg, "size": size, "segsize": base[0][3],
                    "secret": secret.hex(), "short_reads": sched[:10], "key": base[1].hex(), "storage_index": base[2].hex()})
    return terms, info


def size_class(size):
    if size <= 55:
        return "<=55"
    if size <= MODEL_LIMIT:
        return "56..%d" % MODEL_LIMIT
    if size < 65536:
        return "<64KiB"
    return ">=64KiB"


def run_keys(ctx, scratch):
    ctx.correspondence("convergent-key-vs-model")
    terms, info = [], []
    for i in range(ctx.n(70, 700)):
        t, inf = key_case(ctx, i, scratch)
        terms += t
        info += inf
    bad = ctx.coq_check(IMPORTS, terms, tag="c05key", shard=12)
    for ix in bad:
        what, case, observed = info[ix]
        ctx.mismatch("model-vs-impl:" + what, "Coq model and implementation disagree on the %s of an uploadable" % what,
                     case=case, observed=observed, correspondence="convergent-key-vs-model")
    ctx.trace(len(terms) - len(bad))


# ---------------------------------------------------------------------------------------------
# (b) chunked encryption
# ---------------------------------------------------------------------------------------------
def encrypt_case(ctx, i):
    from allmydata.immutable import upload
    r = ctx.rng("enc", i)
    k, n, max_seg = gen_params(r)
    size = r.choice([1, 2, 56, 57, 100, 1000, 4096, 51199, 51200, 51201, 65536, 65537, 102401, r.randrange(1, 3000), r.randrange(3000, 200000)])
    if ctx.tier == "quick" and i % 3:
        size = min(size, 20000)
    secret = gen_secret(r)
    data = rbytes(r, size)
    chunk_size = r.choice([None, None, 1, 7, 16, 1000, 4096, 51200, 60000])
    if chunk_size is not None and chunk_size < 16 and size > 5000:
        chunk_size = 1000
    sched = gen_sched(r, size)
    case = {"part": "encrypt", "i": i, "k": k, "n": n, "max_segment_size": max_seg, "size": size, "secret": secret.hex(),
            "chunk_size": chunk_size, "data_sha256": hashlib.sha256(data).hexdigest()}
    ctx.case(("enc", k, n, max_seg, secret, size, chunk_size, tuple(sched)), kind="encrypt:" + size_class(size))

    def setup(u, cs):
        u.set_default_encoding_parameters({"k": k, "happy": HAPPY, "n": n, "max_segment_size": max_seg})
        return upload.EncryptAnUploadable(u, chunk_size=cs)

    # A: the whole file in one read_encrypted call from upload.Data with a chunk size >= the file
    ea = setup(upload.Data(data, secret), max(size, 1))
    whole = b"".join(fired(ea.read_encrypted(size, False)))
    key = fired(ea.original.get_encryption_key())
    si = fired(ea.get_storage_index())
    # B: seeded read lengths (some hash_only), seeded CHUNKSIZE, multi-piece short-reading source
    ub = chunky_class()(ShortReadIO(data, sched), secret, ctx.rng("enc-pieces", i))
    eb = setup(ub, chunk_size)
    si_b = fired(eb.get_storage_index())
    pos, got, expect_ranges, reads = 0, [], [], []
    while pos < size:
        ln = min(size - pos, r.choice([1, 2, 15, 16, 17, 100, 1024, 4097, 51200, 51201, 70000, size]))
        skip = r.random() < 0.15
        out = b"".join(fired(eb.read_encrypted(ln, skip)))
        reads.append((ln, skip))
        if skip:
            if out:
                ctx.oracle_fail("hash-only-read-returns-ciphertext", "read_encrypted(%d, hash_only=True) returned %d bytes" % (ln, len(out)), case=case)
        else:
            got.append(out)
            expect_ranges.append((pos, pos + ln))
        pos += ln
    case["reads"] = [[a, int(b)] for a, b in reads[:30]]
    got = b"".join(got)
    ref = o_aes_ctr(o_key(k, n, o_segsize(max_seg, size, k), secret, data), data)
    ref_b = b"".join(ref[a:b] for a, b in expect_ranges)
    whole_b = b"".join(whole[a:b] for a, b in expect_ranges)
    key_b = fired(ub.get_encryption_key())
    if key_b != key:
        ctx.oracle_fail("convergent-key-depends-on-chunking", "the short-reading multi-piece uploadable derives a different key than upload.Data",
                        case=case, expected=key.hex(), observed=key_b.hex())
    if si != o_si(key) or si_b != o_si(key_b):
        ctx.oracle_fail("storage-index-not-hash-of-key", "EncryptAnUploadable.get_storage_index() differs from storage_index_hash(key)",
                        case=case, expected=[o_si(key).hex(), o_si(key_b).hex()], observed=[si.hex(), si_b.hex()])
    if got != whole_b:
        ctx.oracle_fail("chunked-encryption-depends-on-chunking",
                        "ciphertext read in pieces (CHUNKSIZE=%r, %d read_encrypted calls) differs from the ciphertext read in one piece" % (chunk_size, len(reads)),
                        case=case, expected=hashlib.sha256(whole_b).hexdigest(), observed=hashlib.sha256(got).hexdigest())
    if whole != ref:
        ctx.oracle_fail("ciphertext-not-aes-ctr-under-convergent-key", "ciphertext is not AES-128-CTR(convergent key, zero IV) of the plaintext",
                        case=case, expected=hashlib.sha256(ref).hexdigest(), observed=hashlib.sha256(whole).hexdigest())
    elif got != ref_b:
        ctx.oracle_fail("chunked-encryption-depends-on-chunking", "chunked ciphertext differs from AES-CTR of the plaintext",
                        case=case, expected=hashlib.sha256(ref_b).hexdigest(), observed=hashlib.sha256(got).hexdigest())
    return case


def run_encrypt(ctx):
    for i in range(ctx.n(40, 400)):
        encrypt_case(ctx, i)


# ---------------------------------------------------------------------------------------------
# (c) grid: the cap
# ---------------------------------------------------------------------------------------------
def parse_chk(cap):
    """Independent parse of URI:CHK:key:ueb:k:n:size."""
    parts = bytes(cap).split(b":")
    if len(parts) != 7 or parts[0] != b"URI" or parts[1] != b"CHK":
        return None
    key = o_b32_decode(parts[2])
    ueb = o_b32_decode(parts[3])
    if key is None or ueb is None:
        return None
    return {"key": key, "ueb": ueb, "k": int(parts[4]), "n": int(parts[5]), "size": int(parts[6])}


def grid_upload(g, kind, data, secret, sched, scratch, rng, tagname):
    path = os.path.join(scratch, "grid-%s.bin" % tagname)
    u = make_uploadable(kind, data, secret, sched, path=path, rng=rng)
    try:
        ur = g.run(g.upload_results(u))
    finally:
        if os.path.exists(path):
            os.unlink(path)
    return bytes(ur.get_uri())


def grid_case(ctx, g, i, scratch):
    from allmydata import uri
    r = ctx.rng("grid", i)
    k, n, max_seg = gen_params(r, grid=True)
    limit = 300 * 1024 if max_seg >= 4096 else 40 * max_seg
    size = max(56, gen_size(r, k, max_seg, limit=limit, small_bias=0.55))
    if ctx.tier == "quick" and i % 4:
        size = min(size, 70000)
    secret = gen_secret(r)
    data = rbytes(r, size)
    sched = gen_sched(r, size)
    case = {"part": "grid", "i": i, "k": k, "n": n, "max_segment_size": max_seg, "size": size, "secret": secret.hex(),
            "sched": sched[:40], "data_sha256": hashlib.sha256(data).hexdigest()}
    g.set_encoding(k=k, n=n, happy=HAPPY, max_segment_size=max_seg)
    caps = {}
    bkind = BUFFERED[i % len(BUFFERED)]
    for kind in ("data", "filehandle", "filename", "chunky", "data-again", bkind):
        caps[kind] = grid_upload(g, kind if kind in BUFFERED else kind.split("-")[0], data, secret, sched, scratch, ctx.rng("grid-pieces", i), "%d" % i)
    ctx.case(("grid", k, n, max_seg, secret, size, tuple(sched), data[:64]), kind="grid:" + size_class(size))
    base = caps["data"]
    if caps["data-again"] != base:
        ctx.oracle_fail("convergent-reupload-different-cap", "uploading the same bytes twice with the same convergence secret and parameters gives two caps",
                        case=case, expected=base.decode(), observed=caps["data-again"].decode())
    for kind in ("filehandle", "filename", bkind):
        if caps[kind] != base:
            ctx.oracle_fail("convergent-cap-depends-on-source", "upload of %d bytes from %s gives a different cap than from upload.Data" % (
                size, "upload.%s" % kind if kind != bkind else "upload.FileHandle over a written but unflushed file object (%s)" % kind),
                            case=dict(case, source=kind), expected=base.decode(), observed=caps[kind].decode())
    if caps["chunky"] != base:
        ctx.oracle_fail("convergent-cap-depends-on-chunking", "upload from a short-reading, multi-piece uploadable gives a different cap than from upload.Data",
                        case=case, expected=base.decode(), observed=caps["chunky"].decode())
    segsize = o_segsize(max_seg, size, k)
    want_key = o_key(k, n, segsize, secret, data)
    f = parse_chk(base)
    if f is None:
        ctx.oracle_fail("literal-threshold-wrong" if base.startswith(b"URI:LIT:") else "cap-not-chk",
                        "a %d-byte file did not get a CHK cap: %r" % (size, base[:40]), case=case, expected="URI:CHK:...", observed=base.decode())
        return [], []
    u = uri.from_string(base)
    si = u.get_storage_index()
    if (f["key"], f["k"], f["n"], f["size"]) != (want_key, k, n, size) or (u.key, u.needed_shares, u.total_shares, u.size) != (want_key, k, n, size):
        ctx.oracle_fail("convergent-cap-fields-wrong", "cap fields (key, k, n, size) are not those determined by plaintext, secret and parameters",
                        case=case, expected=[want_key.hex(), k, n, size], observed=[f["key"].hex(), f["k"], f["n"], f["size"]])
    if si != o_si(f["key"]):
        ctx.oracle_fail("storage-index-not-hash-of-key", "uri.from_string(cap).get_storage_index() is not storage_index_hash(key)",
                        case=case, expected=o_si(f["key"]).hex(), observed=si.hex())
    if not g.find_shares(si):
        ctx.oracle_fail("no-shares-under-storage-index", "no share is stored under the storage index derived from the cap", case=case, observed=si.hex())
    if i % 3 == 0:
        back = g.run(g.download(base), outcome=True)
        if back.status != "ok" or back.value != data:
            ctx.oracle_fail("convergent-cap-does-not-read-back", "the cap of a convergent upload does not download to the uploaded bytes (%s %s)" % (back.status, back.error), case=case)
    # exactly one parameter changed
    which = ("secret", "k", "n", "max_seg")[i % 4]
    p = perturb(ctx.rng("grid-perturb", i), which, k, n, max_seg, secret, size, max_segments=200)
    if p is None:
        which = "secret"
        p = perturb(ctx.rng("grid-perturb", i), which, k, n, max_seg, secret, size)
    k2, n2, m2, s2 = p
    g.set_encoding(k=k2, n=n2, happy=HAPPY, max_segment_size=m2)
    cap2 = grid_upload(g, "data", data, s2, [], scratch, None, "%d-p" % i)
    g.set_encoding(k=k, n=n, happy=HAPPY, max_segment_size=max_seg)
    ctx.case(("grid-perturb", which, i), kind="grid-perturb:" + which)
    si2 = uri.from_string(cap2).get_storage_index()
    if si2 == si:
        ctx.oracle_fail("param-change-same-storage-index",
                        "changing only %s (k=%d,n=%d,max_segment_size=%d -> k=%d,n=%d,max_segment_size=%d, secret %s) leaves the storage index unchanged"
                        % (which, k, n, max_seg, k2, n2, m2, "changed" if s2 != secret else "same"),
                        case=dict(case, changed=which, k2=k2, n2=n2, max_segment_size2=m2, secret2=s2.hex()),
                        expected="different storage index", observed=si2.hex())
    # random keys
    if i % 2 == 0:
        rc = [grid_upload(g, "data", data, None, [], scratch, None, "%d-r%d" % (i, j)) for j in range(2)]
        ctx.case(("grid-random", i), kind="grid:random-key")
        fr = [parse_chk(c) for c in rc]
        if None in fr or fr[0]["key"] == fr[1]["key"] or fr[0]["key"] == want_key or len(fr[0]["key"]) != 16:
            ctx.oracle_fail("random-key-repeated", "two uploads without a convergence secret do not get two fresh 16-byte keys",
                            case=case, observed=[c.decode() for c in rc])
        elif i % 4 == 0:
            back = g.run(g.download(rc[1]), outcome=True)
            if back.status != "ok" or back.value != data:
                ctx.oracle_fail("random-key-cap-does-not-read-back", "the cap of a random-key upload does not download to the uploaded bytes (%s %s)" % (back.status, back.error), case=case)
    terms, info = [], []
    if size <= MODEL_LIMIT // 2:
        terms.append("upload_result_is (upload_convergent_read %s %s %s %s %s %s) None %s %s %s %s" % (
            T.N(max_seg), T.N(k), T.N(n), T.bytes_(secret), T.lst([T.N(s) for s in sched]), T.bytes_(data),
            T.bytes_(f["key"]), T.N(f["k"]), T.N(f["n"]), T.N(f["size"])))
        info.append(("cap-fields", case, base.decode()))
        terms.append("list_N_eqb (convergent_storage_index %s %s %s %s %s) %s" % (
            T.N(max_seg), T.N(k), T.N(n), T.bytes_(secret), T.bytes_(data), T.bytes_(si)))
        info.append(("storage-index", case, si.hex()))
    if i < 3:
        ctx.sample({"part": "grid", "k": k, "n": n, "max_segment_size": max_seg, "size": size, "secret": secret.hex(),
                    "cap": base.decode(), "storage_index": si.hex(), "changed": which, "storage_index_after_change": si2.hex()})
    return terms, info


# ---------------------------------------------------------------------------------------------
# (d) literal files
# ---------------------------------------------------------------------------------------------
class _StandInHelper(object):
    """A connected upload helper: any contact with it is recorded and refused."""

    def __init__(self):
        self.contacts = []
        self.version = {b"http://allmydata.org/tahoe/protocols/helper/v1": {}, b"application-version": b"stand-in"}

    def callRemote(self, methname, *a, **kw):
        from twisted.internet import defer
        self.contacts.append(methname)
        return defer.fail(RuntimeError("stand-in helper was asked to %s" % methname))

    def notifyOnDisconnect(self, *a, **kw):
        return None

    def dontNotifyOnDisconnect(self, *a, **kw):
        return None


def literal_with_helper(ctx, g):
    """A literal needs no servers and no helper: with an upload helper connected, files of 0..55 bytes
    still become URI:LIT: caps embedding exactly the data, and the helper is not contacted."""
    uploader = g.client(0).getServiceNamed("uploader")
    for size in list(range(0, 57)):
        for j in range(ctx.n(1, 3)):
            r = ctx.rng("lit-helper", size, j)
            data = rbytes(r, size)
            secret = gen_secret(r) if j % 2 == 0 else None
            kind = ("data", "filehandle")[(size + j) % 2]
            case = {"part": "literal-helper", "size": size, "j": j, "data": data.hex(), "secret": secret.hex() if secret is not None else None, "source": kind}
            if size > 55:
                continue          # CHK files legitimately go to a connected helper (C44's subject)
            helper = _StandInHelper()
            old = uploader._helper
            uploader._helper = helper
            try:
                out = g.run(lambda: g.upload_results(make_uploadable(kind, data, secret, [])), outcome=True)
            finally:
                uploader._helper = old
            ctx.case(("lit-helper", data, secret, kind), kind="literal:helper-connected")
            want = b"URI:LIT:" + o_b32(data)
            cap = bytes(out.value.get_uri()) if out.status == "ok" else None
            if helper.contacts or cap != want:
                ctx.oracle_fail("literal-upload-goes-to-helper" if helper.contacts else "literal-cap-does-not-embed-data",
                                "a %d-byte upload on a client whose upload helper is connected: %s; helper contacted with %r (a literal needs no servers and no helper; "
                                "expected URI:LIT: + base32(data))" % (size, ("cap %r" % cap[:60]) if cap is not None else "%s %s" % (out.status, out.error), helper.contacts),
                                case=case, expected=want.decode(), observed=cap.decode() if cap is not None else str(out.error))


def literal_inputs(ctx, size, j):
    r = ctx.rng("lit", size, j)
    data = rbytes(r, size)
    if j == 0 and size:
        data = bytes([0xff]) * size            # all-ones: every quintet 31
    secret = gen_secret(r)
    # "shortread": upload.FileHandle over a trickling file object, so IUploadable.read() itself returns fewer
    # bytes than asked and LiteralUploader has to ask again (read_this_many_bytes); later uploads follow in the same process
    kinds = ("data", "shortread", "filehandle", "chunky", "shortread") + BUFFERED
    kind = kinds[(size + j) % len(kinds)] if j else kinds[size % len(kinds)]
    sched = gen_sched(r, size)
    if kind == "shortread" and size >= 2:
        sched = [max(1, size // 3), 1] + list(sched)
    return r, data, secret, kind, sched


def literal_upload_on_servers(ctx, g, size, j, scratch):
    """The cap the grid WITH servers gives (grids cannot be nested: the two grids are used one after the other)."""
    r, data, secret, kind, sched = literal_inputs(ctx, size, j)
    return grid_upload(g, kind, data, secret, sched, scratch, ctx.rng("lit-pieces", size, j), "lit")


def literal_case(ctx, g0, cap, size, j):
    """`cap` = what the grid with servers returned for the case; g0 = a grid without any storage server."""
    from allmydata import uri
    from allmydata.immutable.literal import LiteralFileNode
    r, data, secret, kind, sched = literal_inputs(ctx, size, j)
    case = {"part": "literal", "size": size, "j": j, "data": data.hex(), "secret": secret.hex()}
    ctx.case(("lit", data, secret, kind), kind="literal:%s" % ("<=55" if size <= 55 else ">55"))
    terms, info = [], []
    out0 = g0.run(g0.upload_results(make_uploadable(kind, data, secret, sched, rng=ctx.rng("lit-pieces", size, j))), outcome=True)
    is_lit = cap.startswith(b"URI:LIT:")
    if is_lit != (size <= 55):
        ctx.oracle_fail("literal-threshold-wrong", "a %d-byte file got %s cap (literal iff size <= 55)" % (size, "a literal" if is_lit else "a CHK"),
                        case=case, expected="URI:LIT:" if size <= 55 else "URI:CHK:", observed=cap.decode())
    if size <= 55:
        if out0.status != "ok":
            ctx.oracle_fail("literal-upload-needs-servers", "uploading %d bytes on a grid without storage servers fails: %s" % (size, out0.error), case=case)
        elif bytes(out0.value.get_uri()) != cap:
            ctx.oracle_fail("literal-cap-depends-on-grid", "literal cap differs between grids", case=case, expected=cap.decode(), observed=out0.value.get_uri().decode())
        if is_lit:
            want = b"URI:LIT:" + o_b32(data)
            embedded = o_b32_decode(cap[len(b"URI:LIT:"):])
            if cap != want or embedded != data:
                ctx.oracle_fail("literal-cap-does-not-embed-data", "the literal cap is not URI:LIT: + base32(data)", case=case, expected=want.decode(), observed=cap.decode())
            u = uri.from_string(cap)
            if not isinstance(u, uri.LiteralFileURI) or u.data != data or u.get_storage_index() is not None:
                ctx.oracle_fail("literal-cap-does-not-embed-data", "uri.from_string(cap) does not give back the uploaded bytes", case=case, observed=repr(getattr(u, "data", None)))
            # reading needs no servers: the grid g0 has none
            node = g0.node(cap)
            back = g0.run(g0.download(cap), outcome=True)
            if not isinstance(node, LiteralFileNode) or back.status != "ok" or back.value != data:
                ctx.oracle_fail("literal-read-needs-servers", "reading a literal cap on a grid without servers does not return the data (%s %s)" % (back.status, back.error), case=case)
            if size:
                off = r.randrange(size)
                ln = r.randrange(size - off + 1)
                part = g0.run(g0.download_range(cap, off, ln), outcome=True)
                if part.status != "ok" or part.value != data[off:off + ln]:
                    ctx.oracle_fail("literal-read-wrong-range", "read(offset=%d, size=%d) of a literal cap is not the slice of the data" % (off, ln), case=case)
                terms.append("opt_bytes_eqb (literal_read %s %s %s) (Some %s)" % (T.bytes_(cap), T.N(off), T.N(ln), T.bytes_(part.value if part.status == "ok" else b"")))
                info.append(("literal-read", case, cap.decode()))
            terms.append("upload_result_is (upload_convergent %s %s %s %s %s) (Some %s) [] 0 0 0" % (
                T.N(131072), T.N(3), T.N(10), T.bytes_(secret), T.bytes_(data), T.bytes_(cap)))
            info.append(("literal-cap", case, cap.decode()))
            terms.append("opt_bytes_eqb (literal_cap_data %s) (Some %s)" % (T.bytes_(cap), T.bytes_(u.data if isinstance(u, uri.LiteralFileURI) else b"?")))
            info.append(("literal-cap-data", case, cap.decode()))
    else:
        if out0.status == "ok":
            ctx.oracle_fail("literal-threshold-wrong", "a %d-byte file uploads on a grid without storage servers (cap %r)" % (size, out0.value.get_uri()[:16]), case=case)
        terms.append("match upload_convergent %s %s %s %s %s with UCHK _ => true | _ => false end" % (
            T.N(131072), T.N(3), T.N(10), T.bytes_(secret), T.bytes_(data)))
        info.append(("kind-chk", case, cap.decode()))
    if size in (0, 55, 56) and j == 0:
        ctx.sample({"part": "literal", "size": size, "cap": cap.decode()})
    return terms, info


def malformed_literal_caps(ctx):
    """LiteralFileURI.init_from_string vs the model's literal_cap_data on valid and broken cap strings."""
    from allmydata import uri
    terms, info = [], []
    for i in range(ctx.n(60, 600)):
        r = ctx.rng("litcap", i)
        data = rbytes(r, r.choice([0, 1, 2, 3, 4, 5, 6, 9, 10, 55, r.randrange(0, 56)]))
        cap = bytearray(b"URI:LIT:" + o_b32(data))
        how = r.choice(["valid", "last", "last", "truncate", "upper", "pad", "newline", "badchar", "prefix", "append"])
        if how == "last" and len(cap) > 8:
            cap[-1] = ord(r.choice(B32))
        elif how == "truncate" and len(cap) > 8:
            del cap[-1]
        elif how == "upper":
            cap = bytearray(b"URI:LIT:" + bytes(cap[8:]).upper())
        elif how == "pad":
            cap += b"=" * (-len(cap[8:]) % 8)
        elif how == "newline":
            cap += b"\n"
        elif how == "badchar" and len(cap) > 8:
            cap[r.randrange(8, len(cap))] = ord(r.choice("0189=/ A"))
        elif how == "prefix":
            cap[r.randrange(8)] ^= 0x20
        elif how == "append":
            cap += r.choice(B32).encode()
        cap = bytes(cap)
        try:
            got = uri.LiteralFileURI.init_from_string(cap).data
        except (uri.BadURIError, AssertionError):
            got = None
        ctx.case(("litcap", cap) if got is not None else None, kind="litcap:" + how)
        terms.append("opt_bytes_eqb (literal_cap_data %s) %s" % (T.bytes_(cap), T.opt(T.bytes_(got)) if got is not None else "None"))
        info.append(("literal-cap-decode", {"part": "litcap", "i": i, "cap": cap.hex(), "how": how}, None if got is None else got.hex()))
    return terms, info


def run_grid(ctx, scratch):
    from core import grid as G
    ctx.correspondence("uploader-cap-vs-model")
    ctx.correspondence("literal-cap-vs-model")
    terms, info = [], []
    lterms, linfo = [], []
    lit = [(size, j) for size in range(0, 60)
           for j in range(ctx.n(1, 6) if size not in (0, 54, 55, 56, 57) else ctx.n(3, 12))]
    caps = {}
    with G.Grid(num_servers=10, k=3, n=10, happy=HAPPY, max_segment_size=131072, seed=ctx.seed) as g:
        for i in range(ctx.n(22, 220)):
            t, inf = grid_case(ctx, g, i, scratch)
            terms += t
            info += inf
        g.set_encoding(k=3, n=10, happy=HAPPY, max_segment_size=131072)
        for size, j in lit:
            caps[(size, j)] = literal_upload_on_servers(ctx, g, size, j, scratch)
        literal_with_helper(ctx, g)
    with G.Grid(num_servers=0, k=3, n=10, happy=HAPPY, max_segment_size=131072, seed=ctx.seed) as g0:
        for size, j in lit:
            t, inf = literal_case(ctx, g0, caps[(size, j)], size, j)
            lterms += t
            linfo += inf
    t, inf = malformed_literal_caps(ctx)
    lterms += t
    linfo += inf
    bad = ctx.coq_check(IMPORTS, terms, tag="c05grid", shard=6)
    for ix in bad:
        what, case, observed = info[ix]
        ctx.mismatch("model-vs-impl:" + what, "Coq model and the real Uploader disagree on the %s" % what, case=case, observed=observed,
                     correspondence="uploader-cap-vs-model")
    ctx.trace(len(terms) - len(bad))
    bad = ctx.coq_check(IMPORTS, lterms, tag="c05lit", shard=200)
    for ix in bad:
        what, case, observed = linfo[ix]
        ctx.mismatch("model-vs-impl:" + what, "Coq model and implementation disagree on %s" % what, case=case, observed=observed,
                     correspondence="literal-cap-vs-model")
    ctx.trace(len(lterms) - len(bad))


def random_keys(ctx):
    """Uploadables without a convergence secret: a fresh key per uploadable, stable within one."""
    from allmydata.immutable import upload
    seen = set()
    for i in range(ctx.n(40, 400)):
        r = ctx.rng("rand", i)
        data = rbytes(r, r.choice([0, 1, 56, 1000]))
        kind = ("data", "filehandle")[i % 2]
        u = make_uploadable(kind, data, None, [])
        u.set_default_encoding_parameters({"k": 3, "happy": HAPPY, "n": 10, "max_segment_size": 131072})
        key = fired(u.get_encryption_key())
        again = fired(u.get_encryption_key())
        ctx.case(("rand", i), kind="random-key")
        if len(key) != 16 or key in seen:
            ctx.oracle_fail("random-key-repeated", "an uploadable without convergence secret got a key already handed to another uploadable (or not 16 bytes)",
                            case={"part": "random", "i": i}, observed=key.hex())
        if again != key:
            ctx.oracle_fail("random-key-not-stable", "get_encryption_key() of one random-key uploadable returned two different keys",
                            case={"part": "random", "i": i}, expected=key.hex(), observed=again.hex())
        seen.add(key)


def run_corpus(ctx):
    """Minimised past disagreements (corpus/C05/*.json): {"part": ..., index fields}."""
    import json
    from core import env
    d = os.path.join(env.CORPUS, "C05")
    if not os.path.isdir(d):
        return
    for name in sorted(os.listdir(d)):
        if name.endswith(".json"):
            rec = json.load(open(os.path.join(d, name)))
            replay(ctx, {"case": rec})
            ctx.count("corpus")


def run(ctx):
    from core import env
    scratch = env.subdir("c05")
    run_corpus(ctx)
    run_keys(ctx, scratch)
    run_encrypt(ctx)
    random_keys(ctx)
    run_grid(ctx, scratch)
    ctx.note("upload.FileHandle over a file object that returns short reads derives the right key, but FileHandle.read() then breaks the "
             "IUploadable.read contract and the CHK upload stops with an AssertionError (fails loudly, no wrong cap); grid cases therefore "
             "use a contract-abiding multi-piece uploadable over the short-reading file object")


def replay(ctx, record):
    """Re-run one recorded case (the case dict names the part and its index under the recorded seed/tier)."""
    from core import env
    from core import grid as G
    c = record.get("case") or {}
    part = c.get("part")
    scratch = env.subdir("c05-replay")
    terms, info = [], []
    if part == "key":
        terms, info = key_case(ctx, c["i"], scratch)
    elif part == "encrypt":
        encrypt_case(ctx, c["i"])
    elif part == "grid":
        with G.Grid(num_servers=10, k=3, n=10, happy=HAPPY, max_segment_size=131072, seed=ctx.seed) as g:
            terms, info = grid_case(ctx, g, c["i"], scratch)
    elif part == "literal":
        with G.Grid(num_servers=10, k=3, n=10, happy=HAPPY, max_segment_size=131072, seed=ctx.seed) as g:
            # the stream's history matters (state left behind by earlier uploads in the process): replay the
            # literal uploads from trickling sources that precede this case in the run
            for size0 in range(2, 56):
                _r, data0, secret0, kind0, sched0 = literal_inputs(ctx, size0, 0)
                if kind0 == "shortread" and (size0, 0) != (c["size"], c["j"]):
                    grid_upload(g, kind0, data0, secret0, sched0, scratch, None, "lit-pre")
            cap = literal_upload_on_servers(ctx, g, c["size"], c["j"], scratch)
        with G.Grid(num_servers=0, k=3, n=10, happy=HAPPY, max_segment_size=131072, seed=ctx.seed) as g0:
            terms, info = literal_case(ctx, g0, cap, c["size"], c["j"])
    elif part == "literal-helper":
        with G.Grid(num_servers=10, k=3, n=10, happy=HAPPY, max_segment_size=131072, seed=ctx.seed) as g:
            literal_with_helper(ctx, g)
    elif part == "random":
        random_keys(ctx)
    else:
        return {"note": "no single-case replay for part %r; re-run the check with the recorded seed" % part}
    bad = ctx.coq_check(IMPORTS, terms, tag="c05replay", shard=4) if terms else []
    for ix in bad:
        ctx.mismatch("model-vs-impl:" + info[ix][0], "Coq model and implementation disagree", case=info[ix][1], observed=info[ix][2])
    return {"part": part, "case": c, "model_terms": len(terms), "model_disagrees_on": [info[ix][0] for ix in bad],
            "oracle_failures": [f["kind"] for f in ctx.failures if f["source"] == "oracle"]}
