"""Shared by the C23 / C24 / C25 drivers: running the real storage code on a
scratch directory, rendering requests and container files as terms of
Model/MutContainer.v, Model/Lease.v, Model/Slot.v, and the independent Python
references (growable byte array, lease table) used by the direct oracles."""
import os
import shutil
import struct

from core import env
from core import term as T

IMPORTS = ["Lib.Hex", "Gen.MutConsts", "Model.MutContainer", "Model.Lease", "Model.Slot"]

# blake2b is a parameter of the model: each case file instantiates it with the
# finite table of the (secret, digest) pairs the implementation computed.
PREAMBLE = """
Fixpoint htab (t : list (list N * list N)) (s : list N) : list N :=
  match t with
  | [] => []
  | (k, v) :: r => if list_N_eqb k s then v else htab r s
  end.
Definition bcat (l : list (list N)) : list N := List.concat l.
"""

NODEID = bytes(range(0x40, 0x54))


def blake(s):
    from allmydata.storage.lease_schema import HashedLeaseSerializer
    return HashedLeaseSerializer._hash_secret(s)


def hexb(b):
    """bytes -> term of type list N.  Long string literals and long `++` chains are
    slow to elaborate, so: runs of >= 12 zero bytes become `zeros n`, the rest short
    `unhex` literals, joined by one `bcat [...]`."""
    b = bytes(b)
    if len(b) <= 48:
        return T.bytes_(b)
    parts = []
    i = 0
    n = len(b)
    lit = bytearray()

    def flush():
        for j in range(0, len(lit), 64):
            parts.append('unhex "%s"' % bytes(lit[j:j + 64]).hex())
        del lit[:]
    while i < n:
        if b[i] == 0:
            j = i
            while j < n and b[j] == 0:
                j += 1
            if j - i >= 12:
                flush()
                parts.append("zeros %d" % (j - i))
            else:
                lit.extend(b[i:j])
            i = j
        else:
            lit.append(b[i])
            i += 1
    flush()
    return "(bcat [%s])" % "; ".join(parts)


def htab_term(secrets):
    secrets = sorted(set(bytes(s) for s in secrets))
    return "(htab %s)" % T.lst([T.pair(T.bytes_(s), T.bytes_(blake(s))) for s in secrets])


def listing(ss, si):
    """os.listdir order of the bucket: the order in which add_lease / renew_lease walk the shares"""
    d = bucket_dir(ss, si)
    return [int(x) for x in os.listdir(d)] if os.path.isdir(d) else []


# ---------------------------------------------------------------------------
# the implementation under test
# ---------------------------------------------------------------------------
_counter = [0]


def new_server(tag, readonly=False):
    """A real StorageServer on a fresh scratch directory with a manual clock."""
    from twisted.internet.task import Clock
    from allmydata.storage.server import StorageServer
    _counter[0] += 1
    d = os.path.join(env.subdir("ss-" + tag), "n%d" % _counter[0])
    clock = Clock()
    clock.advance(1000000)
    ss = StorageServer(d, NODEID, clock=clock, readonly_storage=readonly)
    return ss, clock


def bucket_dir(ss, si):
    from allmydata.storage.common import storage_index_to_dir
    return os.path.join(ss.sharedir, storage_index_to_dir(si))


def read_bucket(ss, si):
    """share number -> file bytes, as on disk now"""
    d = bucket_dir(ss, si)
    out = {}
    if os.path.isdir(d):
        for name in os.listdir(d):
            with open(os.path.join(d, name), "rb") as f:
                out[int(name)] = f.read()
    return out


def drop_bucket(ss, si):
    shutil.rmtree(bucket_dir(ss, si), ignore_errors=True)


def mutable_schema(version):
    from allmydata.storage import mutable_schema as ms
    for s in ms.ALL_SCHEMAS:
        if s.version == version:
            return s
    raise KeyError(version)


def immutable_schema(version):
    from allmydata.storage import immutable_schema as ims
    return ims.schema_from_version(version)


def create_mutable(ss, si, shnum, write_enabler, version=2, nodeid=NODEID):
    """Create an empty mutable container of the given schema version directly
    (what _allocate_slot_share does, but with a choice of version)."""
    from allmydata.storage.mutable import MutableShareFile
    d = bucket_dir(ss, si)
    os.makedirs(d, exist_ok=True)
    fn = os.path.join(d, "%d" % shnum)
    MutableShareFile(fn, ss, schema=mutable_schema(version)).create(nodeid, write_enabler)
    return fn


def err_name(e):
    """Exception -> constructor of Model.MutContainer.err (None: not a modelled class)."""
    from allmydata.interfaces import BadWriteEnablerError, DataTooLargeError, NoSpace
    from allmydata.storage.common import UnknownContainerVersionError
    if isinstance(e, DataTooLargeError):
        return "EDataTooLarge"
    if isinstance(e, BadWriteEnablerError):
        return "EBadWriteEnabler"
    if isinstance(e, NoSpace):
        return "ENoSpace"
    if isinstance(e, UnknownContainerVersionError):
        return "EUnknownVersion"
    if isinstance(e, IndexError):
        return "EIndex"
    if isinstance(e, struct.error):
        return "EStruct"
    if isinstance(e, AssertionError):
        return "EAssert"
    if isinstance(e, OSError):
        return "EOSError"      # not an exception of the model: the drivers judge it and stop the history
    return None


def call(fn, *a, **kw):
    """-> ("ok", value) | ("err", constructor name); unmodelled exceptions propagate"""
    try:
        return ("ok", fn(*a, **kw))
    except Exception as e:  # noqa: B902
        n = err_name(e)
        if n is None:
            raise
        return ("err", n)


# ---------------------------------------------------------------------------
# rendering
# ---------------------------------------------------------------------------
def t_datav(dv):
    return T.lst([T.pair(T.N(o), hexb(d)) for o, d in dv])


def t_testv(tv):
    return T.lst([T.pair(T.N(o), T.N(n), T.bytes_(s)) for (o, n, op, s) in tv])


def t_readv(rv):
    return T.lst([T.pair(T.N(o), T.N(n)) for o, n in rv])


def t_newlen(nl):
    return T.opt(None if nl is None else T.N(nl))


def t_tw(tw):
    """tw: dict shnum -> (testv, datav, new_length), in insertion order"""
    return T.lst(["(mkTW %s %s %s %s)" % (T.N(n), t_testv(tv), t_datav(dv), t_newlen(nl)) for n, (tv, dv, nl) in tw.items()])


def t_bucket(files):
    return T.lst([T.pair(T.N(n), hexb(files[n])) for n in sorted(files)])


def t_share(b):
    return T.opt(None if b is None else hexb(b))


def t_reads(rd):
    return T.lst([T.pair(T.N(n), T.lst([hexb(x) for x in rd[n]])) for n in sorted(rd)])


def t_res(r, render):
    return "(Ok %s)" % render(r[1]) if r[0] == "ok" else "(Err %s)" % r[1]


def t_opt_err(r):
    return "None" if r[0] == "ok" else "(Some %s)" % r[1]


def t_server(maxsz=None, avail=2 ** 40, nodeid=NODEID):
    return "(mkServer %s %s %s)" % ("MAX_SIZE" if maxsz is None else T.N(maxsz), T.bytes_(nodeid), T.N(avail))


def t_sop(op):
    k = op[0]
    if k == "tw":
        _, (we, rs, cs), tw, rv, renew = op
        return "(STW %s %s %s %s %s %s)" % (T.bytes_(we), T.bytes_(rs), T.bytes_(cs), t_tw(tw), t_readv(rv), T.boolean(renew))
    if k == "readv":
        return "(SReadv %s %s)" % (T.lst([T.N(n) for n in op[1]]), t_readv(op[2]))
    if k == "add":
        return "(SAddLease %s %s %s)" % (T.bytes_(op[1]), T.bytes_(op[2]), T.lst([T.N(n) for n in op[3]]))
    if k == "renew":
        return "(SRenew %s %s)" % (T.bytes_(op[1]), T.lst([T.N(n) for n in op[2]]))
    if k == "alloc":
        return "(SAlloc %s %s %s %s)" % (T.N(op[5]), T.bytes_(op[1]), T.bytes_(op[2]), T.lst([T.N(n) for n in op[4]]))
    if k == "tick":
        return "(STick %s)" % T.N(op[1])
    raise ValueError(k)


def t_sobs(op, r):
    k = op[0]
    if k == "tw":
        return "(OTW %s)" % t_res(r, lambda v: T.pair(T.boolean(v[0]), t_reads(v[1])))
    if k == "readv":
        return "(OReadv %s)" % t_res(r, t_reads)
    if k in ("add", "renew", "alloc"):
        return "(OLease %s)" % t_opt_err(r)
    return "OTick"


def with_order(ss, si, op):
    """add / renew operations carry the directory listing observed just before the call"""
    if op[0] == "add" and len(op) == 3:
        return op + (listing(ss, si),)
    if op[0] == "renew" and len(op) == 2:
        return op + (listing(ss, si),)
    if op[0] == "alloc" and len(op) == 4:      # ("alloc", rs, cs, sharenums) -> + listing, owner_num
        return op + (listing(ss, si), 0)
    return op


def run_sop(ss, clock, si, op):
    """Execute one history operation on the real server."""
    k = op[0]
    if k == "tw":
        _, secrets, tw, rv, renew = op
        return call(ss.slot_testv_and_readv_and_writev, si, secrets, dict(tw), list(rv), renew_leases=renew)
    if k == "readv":
        return call(ss.slot_readv, si, list(op[1]), list(op[2]))
    if k == "add":
        return call(ss.add_lease, si, op[1], op[2])
    if k == "renew":
        return call(ss.renew_lease, si, op[1])
    if k == "alloc":
        def alloc():
            got, writers = ss.allocate_buckets(si, op[1], op[2], set(op[3]), 10, owner_num=op[5])
            for bw in writers.values():      # shares the server does not hold yet: not part of this model
                bw.abort()
            return sorted(got)
        return call(alloc)
    if k == "tick":
        clock.advance(op[1])
        return ("ok", None)
    raise ValueError(k)


def secrets_of(ops):
    out = set()
    for op in ops:
        if op[0] == "tw":
            out.update(op[1][1:])
        elif op[0] in ("add", "alloc"):
            out.update(op[1:3])
        elif op[0] == "renew":
            out.add(op[1])
    return out


def srun_term(files0, now0, ops, results, files1, maxsz=None, avail=2 ** 40, extra_secrets=()):
    """Closed bool term: running `ops` in the model from the bucket `files0` at time
    `now0` gives the observations `results` and ends in the bucket `files1`."""
    h = htab_term(secrets_of(ops) | set(extra_secrets))
    obs = T.lst([t_sobs(op, r) for op, r in zip(ops, results)])
    return ("(let '((b, _), xs) := srun %s %s (%s, %s) %s in bucket_eqb b %s && list_eqb sobs_eqb xs %s)"
            % (h, t_server(maxsz, avail), t_bucket(files0), T.N(now0), T.lst([t_sop(o) for o in ops]), t_bucket(files1), obs))


def srun_eval_term(files0, now0, ops, maxsz=None, avail=2 ** 40, extra_secrets=()):
    h = htab_term(secrets_of(ops) | set(extra_secrets))
    return "srun %s %s (%s, %s) %s" % (h, t_server(maxsz, avail), t_bucket(files0), T.N(now0), T.lst([t_sop(o) for o in ops]))


# ---------------------------------------------------------------------------
# independent references for the oracles
# ---------------------------------------------------------------------------
class RefArray(object):
    """Growable byte array: the statement of C23 in Python, nothing else."""

    def __init__(self, data=b""):
        self.d = bytearray(data)

    def read(self, off, n):
        return bytes(self.d[off:off + n])

    def write(self, off, data):
        if off > len(self.d):
            self.d.extend(b"\x00" * (off - len(self.d)))
        self.d[off:off + len(data)] = data

    def truncate(self, n):
        if n < len(self.d):
            del self.d[n:]


def parse_mutable_leases(raw, version):
    """Independent reading of the lease area of a mutable container file:
    [(slot, owner, expiry, renew field, cancel field, nodeid)] for non-empty slots."""
    (dl, elo) = struct.unpack(">QQ", raw[84:100])
    (nx,) = struct.unpack(">L", raw[elo:elo + 4])
    out = []
    for i in range(4 + nx):
        off = 100 + 92 * i if i < 4 else elo + 4 + 92 * (i - 4)
        rec = raw[off:off + 92]
        owner, exp, rn, cn, nid = struct.unpack(">LL32s32s20s", rec)
        if owner != 0:
            out.append((i, owner, exp, rn, cn, nid))
    return out


def parse_immutable_leases(raw):
    (ver, _, n) = struct.unpack(">LLL", raw[:12])
    lo = len(raw) - 72 * n
    out = []
    for i in range(n):
        owner, rn, cn, exp = struct.unpack(">L32s32sL", raw[lo + 72 * i: lo + 72 * (i + 1)])
        out.append((i, owner, exp, rn, cn, None))
    return out


# ---------------------------------------------------------------------------
# generators shared by the three drivers
# ---------------------------------------------------------------------------
def rb(r, n):
    return bytes(r.getrandbits(8) for _ in range(n))


def secret(k):
    """32-byte secret number k (distinct k, distinct secrets; no zero bytes so that a
    search for the cleartext in a container file is meaningful)"""
    return bytes(((k * 37 + i * 11) % 251) + 1 for i in range(32))


def pick_offset(r, cur_len, limit):
    """boundary-centred offsets: around 0, the current end of data, and past the end"""
    c = r.random()
    if c < 0.35:
        base = cur_len
    elif c < 0.55:
        base = 0
    elif c < 0.75:
        base = r.randint(0, max(cur_len, 1))
    else:
        base = r.choice([cur_len + r.randint(1, 40), cur_len + r.randint(100, 600), r.randint(0, limit)])
    off = base + r.choice([-2, -1, 0, 0, 0, 1, 2, 5])
    return max(0, min(off, limit))


def gen_datav(r, cur_len, limit, maxlen=12):
    n = r.choice([0, 1, 1, 1, 2, 2, 3])
    return [(pick_offset(r, cur_len, limit), rb(r, r.choice([0, 1, 1, 2, 3, 5, maxlen]))) for _ in range(n)]


def gen_newlen(r, cur_len):
    c = r.random()
    if c < 0.62:
        return None
    if c < 0.70:
        return 0
    if c < 0.88:
        return max(0, cur_len + r.choice([-30, -3, -1, 0, 1]))
    return r.choice([1, 2, 7, cur_len // 2, cur_len + 50, 5000])


def gen_testv(r, ref_data, p_true=0.75):
    """test vector that passes with probability about p_true against `ref_data`.  The statement
    compares the specimen with the bytes actually read, data[offset:offset+length], as a whole:
    lengths and specimens are generated independently of each other -- length beyond the end of
    the data (the read is clipped), specimen shorter than the read (a proper prefix must FAIL),
    specimen longer than the read, specimen of the asked length where the data is shorter."""
    n = r.choice([0, 0, 1, 1, 2])
    out = []
    for _ in range(n):
        off = pick_offset(r, len(ref_data), len(ref_data) + 20)
        ln = r.choice([0, 1, 2, 4, 8, 8, 16, 100])
        read = bytes(ref_data[off:off + ln])
        spec = read
        if r.random() > p_true:
            c = r.random()
            if c < 0.40 and len(read) >= 2:
                spec = read[:r.choice([1, 1, len(read) // 2, len(read) - 1]) or 1]          # proper prefix of what is there
            elif c < 0.55 and len(read) >= 2:
                spec = read[1:]                                                            # proper suffix
            elif c < 0.75:
                spec = read + (b"\x01" if r.random() < 0.5 else bytes(r.choice([1, ln or 1])))  # longer than the read (padded to the asked length)
            elif read:
                k = r.randrange(len(read))
                spec = read[:k] + bytes([read[k] ^ 1]) + read[k + 1:]                      # one byte differs, anywhere
            else:
                spec = b"\x00"
        out.append((off, ln, b"eq", spec))
    return out


def gen_readv(r, cur_len, whole=4000):
    out = [(0, whole)]
    for _ in range(r.choice([0, 1, 2])):
        out.append((pick_offset(r, cur_len, cur_len + 50), r.choice([0, 1, 3, 10, 100])))
    return out


def ref_apply(data, dv, nl):
    """the statement's effect of one share's write vectors + new_length on its data
    (data None = no share); returns the new data or None when deleted"""
    if nl == 0:
        return None
    a = RefArray(data or b"")
    for off, d in dv:
        a.write(off, d)
    if nl is not None:
        a.truncate(nl)
    return bytes(a.d)


def vectors_fit(dv, maxsz):
    return all(off + len(d) <= maxsz for off, d in dv)


class patched_max_size(object):
    """MutableShareFile.MAX_SIZE is a class attribute consulted through `self`/the class:
    scaling it down lets the boundary off+len == MAX_SIZE be exercised on real files."""

    def __init__(self, value):
        self.value = value

    def __enter__(self):
        from allmydata.storage.mutable import MutableShareFile
        self.cls = MutableShareFile
        self.old = MutableShareFile.MAX_SIZE
        if self.value is not None:
            MutableShareFile.MAX_SIZE = self.value
        return self

    def __exit__(self, *a):
        self.cls.MAX_SIZE = self.old


def real_max_size():
    from allmydata.storage.mutable import MutableShareFile
    return MutableShareFile.MAX_SIZE


def lease_view(leases):
    """canonical view of get_leases() results through the public interface"""
    return [(l.owner_num, int(l.get_expiration_time()), l.present_renew_secret(), l.present_cancel_secret(),
             l.nodeid) for l in leases]


def mutable_leases(fn):
    """lease table of a mutable share; an unreadable lease area is reported as such, not raised"""
    from allmydata.storage.mutable import MutableShareFile
    try:
        return lease_view(MutableShareFile(fn).get_leases())
    except Exception as e:  # noqa: B902
        return [("unreadable", 0, "%s: %s" % (type(e).__name__, e), "", None)]


def immutable_leases(fn):
    from allmydata.storage.immutable import ShareFile
    try:
        return lease_view(ShareFile(fn).get_leases())
    except Exception as e:  # noqa: B902
        return [("unreadable", 0, "%s: %s" % (type(e).__name__, e), "", None)]


def renew_key(version, s):
    """what present_renew_secret() shows for a lease stored under secret s (independent of nacl)"""
    import hashlib
    from allmydata.util import base32
    if version == 1:
        return str(base32.b2a(s), "utf-8")
    return "hash:" + str(base32.b2a(hashlib.blake2b(s, digest_size=32).digest()), "utf-8")
