"""C14  Mutable check and repair preserve the newest content."""
import struct

from core import term as T
from props.c11 import FakeServer, coq_map, coq_version, gen_map, share_version

ID = "C14"
GEN = ["mutpins"]
RULE = ("servermap cases as for C11 (1-5 versions, ties, k 1..4, expected share count N 3..6); non-trivial = a recoverable version present; "
        "grid cases: files with shares deleted, replaced by older versions, or corrupted (verify), checked with/without verify and "
        "repaired with/without force")
META = {
    "title": "Mutable check and repair preserve the newest content",
    "level_text": ("Theorems in Coq over the ServerMap model: the checker reports healthy exactly when one version is present at all, it is "
                   "recoverable and N distinct shares of it were located; the repairer without force never proceeds with a newer unrecoverable "
                   "version or two recoverable versions of equal seqnum; when it republishes it republishes the best recoverable version; the "
                   "republished version becomes the best recoverable one.  Compared with the real MutableChecker._make_checker_results and "
                   "Repairer._got_full_servermap on random maps, and exercised on a real grid with an oracle computed from the shares on disk."),
    "level_note": ("core (partial): which shares the map update locates, signature/hash validation (verify=True marks bad shares in the map) and the "
                   "republish itself are exercised on the grid, not proved; contents preservation of the republish rests on download_version/upload "
                   "(C09, C10).  Version ids abstracted as in C11."),
    "technique": "Coq proof over the ServerMap model + differential run vs checker/repairer decision functions + grid check/repair histories",
    "design_ref": "8/C14",
    "trusted_base": ["abstraction of verinfo tuples done by the driver"],
    "assumptions": [],
}
IMPORTS = ["Model.ServerMap", "Model.MutCheck"]


class Mon(object):
    def raise_if_cancelled(self):
        pass


def nof_term(allv, ranks):
    """nOf as a Coq function of the version's tag (N is part of the version id)."""
    arms = " ".join("| %s => %s" % (T.N(ranks[v[1:]]), T.N(v[6])) for v in allv)
    return "(fun v : version => match vtag v with %s | _ => 0%%N end)" % arms


def run(ctx):
    ctx.correspondence("checker-health-rule-vs-model")
    ctx.correspondence("repairer-decision-vs-model")
    ctx.correspondence("grid-check-repair")
    from twisted.internet import defer
    from allmydata import uri
    from allmydata.mutable.servermap import ServerMap
    from allmydata.mutable.checker import MutableChecker
    from allmydata.mutable.repairer import Repairer, MustForceRepairError, RepairRequiresWritecapError
    cap = uri.WriteableSSKFileURI(b"k" * 16, b"f" * 32)

    from zope.interface import implementer
    from allmydata.interfaces import IDisplayableServer

    @implementer(IDisplayableServer)
    class Srv(FakeServer):
        def get_serverid(self):
            return b"id%d" % self.i

        def get_nickname(self):
            return "s%d" % self.i

        def get_longname(self):
            return "server%d" % self.i

    servers = {i: Srv(i) for i in range(0, 8)}

    class Node(object):
        def __init__(self, wk):
            self.wk = wk
            self.calls = []

        def get_uri(self):
            return cap.to_string()

        def get_storage_index(self):
            return cap.get_storage_index()

        def get_writekey(self):
            return self.wk

        def download_version(self, smap, version, fetch_privkey=False):
            self.calls.append(("download", version))
            return defer.succeed(b"contents")

        def upload(self, data, smap):
            self.calls.append(("upload", data.read(100)))
            return defer.succeed(None)

    terms, info = [], []
    rterms, rinfo = [], []
    n = ctx.n(400, 4000)
    for i in range(n):
        r = ctx.rng("map", i)
        shares = gen_map(r)
        # vary N per version (field 6 of verinfo)
        remap = {}
        for _, v in shares:
            if v not in remap:
                remap[v] = v[:6] + (r.choice([3, 4, 5, 6]),) + v[7:]
        shares = [(key, remap[v]) for key, v in shares]
        sm = ServerMap()
        for (s, sh), v in shares:
            sm.add_new_share(servers[s], sh, v, 0.0)
            sm.mark_server_reachable(servers[s])
        allv = sorted(set(v for _, v in shares))
        ranks = {t: j for j, t in enumerate(sorted(set(v[1:] for v in allv)))}
        case = {"shares": [[s, sh, v[0], v[1][:1].hex(), v[5], v[6]] for (s, sh), v in shares]}
        # ---- checker ----
        ch = MutableChecker.__new__(MutableChecker)
        ch._monitor = Mon()
        ch.bad_shares = []
        ch._node = Node(b"w" * 16)
        ch._storage_index = cap.get_storage_index()
        cr = ch._make_checker_results(sm)
        healthy = cr.is_healthy()
        byver = {}
        for (s, sh), v in shares:
            byver.setdefault(v, set()).add(sh)
        want = (len(byver) == 1 and all(len(shs) >= v[5] and len(shs) >= v[6] for v, shs in byver.items()))
        ctx.case(tuple(shares) if any(len(shs) >= v[5] for v, shs in byver.items()) else None, kind="health:%s" % healthy)
        if healthy != want:
            ctx.oracle_fail("mutable-health-rule", "checker says healthy=%s; rule (single version, recoverable, N distinct shares, no others) gives %s" % (healthy, want),
                            case=case, expected=want, observed=healthy)
        if cr.is_recoverable() != any(len(shs) >= v[5] for v, shs in byver.items()):
            ctx.oracle_fail("mutable-recoverable-rule", "checker recoverable=%s differs from 'some version has k distinct shares'" % cr.is_recoverable(), case=case)
        terms.append("(let m := %s in Bool.eqb (healthy %s m) %s && Bool.eqb (check_recoverable m) %s)" % (
            coq_map(shares, ranks), nof_term(allv, ranks), T.boolean(healthy), T.boolean(cr.is_recoverable())))
        info.append(case)
        # ---- repairer decision ----
        force = r.random() < 0.4
        wk = None if r.random() < 0.15 else b"w" * 16
        rp = Repairer.__new__(Repairer)
        rp.node = Node(wk)
        res = []
        try:
            d = rp._got_full_servermap(sm, force)
            d.addCallback(res.append)
            if not res:
                outcome = "pending"
            elif res[0].get_successful():
                dl = [c for c in rp.node.calls if c[0] == "download"]
                outcome = ("Republish", dl[0][1]) if dl and any(c[0] == "upload" for c in rp.node.calls) else "successful-without-republish"
            else:
                outcome = "Unsuccessful"
        except MustForceRepairError:
            outcome = "MustForce"
        except RepairRequiresWritecapError:
            outcome = "RequiresWritecap"
        except TypeError as e:          # the decision function no longer has the shape the model was written for
            outcome = "uncallable: %s" % e
        case2 = dict(case, force=force, writekey=wk is not None)
        newer = sm.unrecoverable_newer_versions()
        merge = sm.needs_merge()
        ctx.case(repr(case2) if isinstance(outcome, tuple) else None, kind="repair:%s" % (outcome[0] if isinstance(outcome, tuple) else outcome))
        if not force and isinstance(outcome, tuple) and (newer or merge):
            ctx.oracle_fail("repair-without-force-proceeded", "repair without force republished although %s" % ("a newer unrecoverable version exists" if newer else "two recoverable versions share a seqnum"),
                            case=case2)
        if isinstance(outcome, tuple):
            best = sm.best_recoverable_version()
            if outcome[1] != best:
                ctx.oracle_fail("repair-republished-other-version", "repair republished seqnum %d, best recoverable is seqnum %d" % (outcome[1][0], best[0]), case=case2)
            oc = "(Republish %s)" % coq_version(outcome[1], ranks)
        elif outcome in ("Unsuccessful", "MustForce", "RequiresWritecap"):
            oc = outcome
        else:
            ctx.mismatch("repairer-unexpected-outcome", "Repairer._got_full_servermap gave %r" % (outcome,), case=case2, correspondence="repairer-decision-vs-model")
            continue
        rterms.append("outcome_eqb (repair_decision %s %s %s) %s" % (coq_map(shares, ranks), T.boolean(force), T.boolean(wk is not None), oc))
        rinfo.append(case2)
        if i < 3:
            ctx.sample(case2)
    bad = ctx.coq_check(IMPORTS, terms, tag="c14h")
    for ix in bad:
        ctx.mismatch("health-model-differs", "checker health rule and Model/MutCheck.v disagree", case=info[ix], correspondence="checker-health-rule-vs-model")
    bad2 = ctx.coq_check(IMPORTS, rterms, tag="c14r")
    for ix in bad2:
        ctx.mismatch("repair-decision-model-differs", "repairer decision and Model/MutCheck.v disagree", case=rinfo[ix], correspondence="repairer-decision-vs-model")
    ctx.trace(len(terms) + len(rterms) - len(bad) - len(bad2))
    grid_cases(ctx)


def grid_cases(ctx):
    from core import grid as G
    from allmydata.monitor import Monitor
    from allmydata.mutable.repairer import MustForceRepairError
    from allmydata.storage.mutable import MutableShareFile
    OFF = MutableShareFile.DATA_OFFSET
    n = ctx.n(16, 80)
    for i in range(n):
        r = ctx.rng("grid", i)
        seed = r.getrandbits(30)
        k, N = r.choice([(2, 4), (2, 5), (3, 5), (1, 3)])
        S = r.choice([N, N + 1, N + 2])
        fmt = r.choice(["sdmf", "sdmf", "mdmf"])
        verify = r.random() < 0.5
        scenario = r.choice(["intact", "delete", "delete", "stale", "newer-unrecoverable", "newer-unrecoverable", "corrupt", "far-stale", "far-stale",
                             "competing", "competing", "far-newer-unrecoverable"])
        # the refusal rules are exercised in every run, through both entry points
        FORCED = [("newer-unrecoverable", "check_and_repair"), ("competing", "check_and_repair"), ("competing", "repair"), ("newer-unrecoverable", "repair"),
                  ("late-newer-unrecoverable", "repair"), ("late-competing", "repair"), ("far-newer-unrecoverable", "repair"),
                  ("far-newer-unrecoverable", "check_and_repair")]
        forced_via = None
        if i < len(FORCED):
            scenario, forced_via = FORCED[i]
        if scenario.endswith("competing") and N < 2 * k:
            k, N = r.choice([(2, 4), (2, 5), (1, 3), (3, 6)])
            S = r.choice([N, N + 1])
        if scenario == "far-newer-unrecoverable":
            # many more servers than shares: the residue of a newer version sits far down the permuted server list, behind a
            # run of servers that hold nothing -- a survey that gives up after a few empty servers never sees it
            k, N, S = 3, 10, 20
        if scenario == "far-stale":
            # the newest version survives only on the servers a 2k-server read survey reaches last
            k, N = r.choice([(3, 10), (2, 8), (3, 9)])
            S = N
        if scenario == "corrupt" and (fmt != "sdmf" or not verify):
            scenario = "delete"
        case = {"seed": seed, "k": k, "N": N, "servers": S, "format": fmt, "verify": verify, "scenario": scenario}
        # strict issue-order delivery for far-stale: with answers delivered one at a time in random order the
        # read survey keeps widening and reaches the far servers anyway
        fifo = "global" if scenario == "far-stale" else r.choice(["server", "server", "global"])
        case["fifo"] = fifo
        with G.Grid(num_clients=1, num_servers=S, k=k, n=N, happy=1, seed=seed, timeout=240, fifo=fifo) as g:
            node = g.run(g.create_mutable(b"version-one", version=fmt))
            snap1 = {(sh.server, sh.shnum): g.read_share(sh) for sh in g.find_shares(node.get_uri())}
            newest = b"version-one"
            corrupted = set()
            content_by_ver = {share_version(g, g.find_shares(node.get_uri())[0]): b"version-one"}
            state = {"newest": b"version-one"}

            def damage(sc):
                if sc == "delete":
                    shs = g.find_shares(node.get_uri())
                    r.shuffle(shs)
                    for sh in shs[:r.randrange(1, len(shs))]:
                        g.delete_share(sh)
                elif sc in ("stale", "newer-unrecoverable", "far-stale"):
                    g.run(g.mutable_overwrite(node, b"version-two!"))
                    state["newest"] = b"version-two!"
                    cur = {(sh.server, sh.shnum): sh for sh in g.find_shares(node.get_uri())}
                    content_by_ver[share_version(g, next(iter(cur.values())))] = b"version-two!"
                    keys = sorted(kk for kk in snap1 if kk in cur)
                    r.shuffle(keys)
                    if sc == "far-stale":
                        order = g.storage_broker_order(node.get_uri())
                        near = set(order[:2 * k])                  # what MODE_READ asks before it may stop
                        chosen = [kk for kk in keys if kk[0] in near]
                        if len(keys) - len(chosen) < k:            # keep the newest version recoverable
                            chosen = chosen[:len(keys) - k]
                    elif sc == "stale":
                        chosen = keys[:r.randrange(1, len(keys))]
                    else:
                        chosen = keys[:len(keys) - (k - 1)] if k > 1 else keys[:len(keys) - 1]   # leave k-1 (>=1) shares of v2... at least one
                        if len(chosen) == len(keys):
                            chosen = keys[:-1]
                    for kk in chosen:
                        g.write_share(cur[kk], snap1[kk])
                elif sc == "far-newer-unrecoverable":
                    import os as _os
                    from allmydata.storage.server import storage_index_to_dir
                    g.run(g.mutable_overwrite(node, b"version-two!"))
                    cur = {(sh.server, sh.shnum): sh for sh in g.find_shares(node.get_uri())}
                    content_by_ver[share_version(g, next(iter(cur.values())))] = b"version-two!"
                    order = g.storage_broker_order(node.get_uri())
                    empty_far = [srv for srv in order[14:18] if srv not in set(kk[0] for kk in cur)]
                    keys = sorted(kk for kk in cur if kk in snap1)
                    moved = keys[:min(k - 1, len(empty_far))]
                    si_dir = storage_index_to_dir(g._si(node.get_uri()))
                    for (kk, srv) in zip(moved, empty_far):
                        d_ = _os.path.join(g.server(srv).sharedir, si_dir)
                        _os.makedirs(d_, exist_ok=True)
                        with open(_os.path.join(d_, "%d" % kk[1]), "wb") as f_:       # version 2's share, far away
                            f_.write(g.read_share(cur[kk]))
                    for kk in keys:                                                   # everything near is version 1 again
                        g.write_share(cur[kk], snap1[kk])
                    state["newest"] = b"version-two!"
                elif sc == "competing":
                    # two different versions with the SAME sequence number, both recoverable: publish 2A, roll every share back
                    # to version 1, publish 2B, then put 2A back on some of the shares
                    g.run(g.mutable_overwrite(node, b"version-twoA"))
                    curA = {(sh.server, sh.shnum): sh for sh in g.find_shares(node.get_uri())}
                    snapA = {kk: g.read_share(sh) for kk, sh in curA.items()}
                    content_by_ver[share_version(g, next(iter(curA.values())))] = b"version-twoA"
                    for kk, sh in curA.items():
                        if kk in snap1:
                            g.write_share(sh, snap1[kk])
                        else:
                            g.delete_share(sh)
                    g.run(g.mutable_overwrite(node, b"version-twoB"))
                    cur = {(sh.server, sh.shnum): sh for sh in g.find_shares(node.get_uri())}
                    content_by_ver[share_version(g, next(iter(cur.values())))] = b"version-twoB"
                    state["newest"] = None
                    keys = sorted(kk for kk in cur if kk in snapA)
                    r.shuffle(keys)
                    nA = r.randrange(k, max(k + 1, len(keys) - k + 1))
                    for kk in keys[:nA]:
                        g.write_share(cur[kk], snapA[kk])
                elif sc == "corrupt":
                    shs = g.find_shares(node.get_uri())
                    sh = shs[r.randrange(len(shs))]
                    data = g.read_share(sh)
                    # SDMF offsets table follows the 59-byte signed prefix: >LLLLQQ ; 4th entry = share_data
                    offs = struct.unpack(">LLLLQQ", data[OFF + 59:OFF + 59 + 32])
                    pos = OFF + offs[3]
                    g.write_share(sh, data[:pos] + bytes([data[pos] ^ 1]) + data[pos + 1:])
                    corrupted.add((sh.server, sh.shnum))


            late = scenario.startswith("late-")
            damage("intact" if late else scenario)
            newest = state["newest"]

            def disk_state(skip_corrupted=True):
                byver = {}
                for sh in g.find_shares(node.get_uri()):
                    if skip_corrupted and (sh.server, sh.shnum) in corrupted:
                        continue
                    byver.setdefault(share_version(g, sh), set()).add(sh.shnum)
                return byver
            byver = disk_state()
            recov = sorted(v for v, shs in byver.items() if len(shs) >= k)
            want_healthy = (len(byver) == 1 and len(recov) == 1 and len(byver[recov[0]]) >= N and not corrupted)
            out = g.run(node.check(Monitor(), verify=verify), outcome=True)
            ctx.case((seed, scenario), kind="grid-check:" + scenario)
            if out.status != "ok":
                ctx.oracle_fail("mutable-check-failed", "check raised %s" % out.error, case=case)
                continue
            cr = out.value
            if cr.is_healthy() != want_healthy:
                ctx.oracle_fail("grid-health-differs", "check (verify=%s) says healthy=%s; shares on disk give %s (%r)" % (
                    verify, cr.is_healthy(), want_healthy, {str(v[0]): sorted(s) for v, s in byver.items()}), case=case, expected=want_healthy, observed=cr.is_healthy())
            if late:
                # the grid changes BETWEEN the check and the repair that is handed its results: the refusal rules are about the
                # grid as the repairer finds it, not as the checker saw it
                damage(scenario[len("late-"):])
                newest = state["newest"]
                byver = disk_state()
                recov = sorted(v for v, shs in byver.items() if len(shs) >= k)
            # ---- repair ----
            force = r.random() < 0.4 and forced_via is None
            case["force"] = force
            top_rec = recov[-1] if recov else None
            newer_unrec = [v for v, shs in byver.items() if len(shs) < k and (top_rec is None or v[0] > top_rec[0])]
            before = {(sh.server, sh.shnum): g.read_share(sh) for sh in g.find_shares(node.get_uri())}
            # entry point: the repairer directly, or the check-and-repair operation (which must not force)
            via = "repair" if force else (forced_via or r.choice(["repair", "check_and_repair"]))
            case["via"] = via
            if via == "repair":
                rep = g.run(node.repair(cr, force=force), outcome=True)
                succeeded = rep.status == "ok" and rep.value.get_successful()
            else:
                rep = g.run(node.check_and_repair(Monitor(), verify=verify), outcome=True)
                succeeded = rep.status == "ok" and rep.value.get_repair_attempted() and rep.value.get_repair_successful()
            ctx.case((seed, scenario, via, force), kind="grid-%s:%s" % (via, scenario))
            if top_rec is None:
                continue
            needs_merge = len([v for v in recov if v[0] == top_rec[0]]) > 1
            if (newer_unrec or needs_merge) and not force:
                after = {(sh.server, sh.shnum): g.read_share(sh) for sh in g.find_shares(node.get_uri())}
                if succeeded and newer_unrec:
                    ctx.oracle_fail("grid-repair-discarded-newer", "%s without force succeeded although an unrecoverable newer version (seq %s) exists" % (via, [v[0] for v in newer_unrec]), case=case)
                elif succeeded:
                    ctx.oracle_fail("grid-repair-merged-competing", "%s without force succeeded although two recoverable versions share seqnum %d" % (via, top_rec[0]), case=case)
                elif after != before:
                    ctx.oracle_fail("grid-refused-repair-changed-shares", "%s refused (needs force) but shares on disk changed" % via, case=case)
                else:
                    ctx.trace(1)
                continue
            if not succeeded:
                # the property constrains what a *successful* repair leaves behind; a repair that gives up
                # (e.g. its MODE_READ re-survey with k=1 does not locate the newest version) is not a violation
                ctx.count("grid-repair-not-successful:%s" % (rep.error or rep.status))
                continue
            rd = g.run(g.mutable_read(node), outcome=True)
            best_content = content_by_ver.get(top_rec)
            if rd.status != "ok" or rd.value != best_content:
                ctx.oracle_fail("grid-repair-changed-contents", "after repair the file reads %r, best version before repair was %r" % (rd.value, best_content), case=case,
                                expected=best_content, observed=rd.value)
                continue
            post = disk_state(skip_corrupted=False)      # a successful repair has replaced the corrupted share
            top = max(post)
            if len(post[top]) < N:
                ctx.oracle_fail("grid-repair-not-N-shares", "after a successful repair the newest version has %d distinct shares, N=%d" % (len(post[top]), N), case=case)
            else:
                ctx.trace(1)
            ctx.sample(case, limit=8)
