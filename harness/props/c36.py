"""C36  Erasure coding recovers from any k blocks.

Implementation side: the REAL allmydata.codec.CRSEncoder/CRSDecoder (real zfec), driven both
directly and through the real callers
  immutable: Encoder._got_all_encoding_parameters / _encode_segment / _gather_data  and
             DownloadNode._calculate_sizes / _decode_blocks
  mutable:   Publish.setup_encoding_parameters / _encode_segment  and
             Retrieve._setup_encoding_parameters / _decode_blocks
called as unbound methods on small stub objects that carry only the attributes those methods read
(the methods themselves are unmodified).  encode/decode are async (async_to_deferred +
defer_to_thread): allmydata.util.cputhreadpool._DISABLED is set while a case runs so they complete
synchronously, and restored afterwards.

Model side: coq/Model/Codec.v evaluated by coqc (vm_compute)."""
import itertools
import json
import os
import types

from core import env
from core import term as T

ID = "C36"
GEN = ["immconsts"]
RULE = ("cases: (pipeline, k, n, file/segment bytes, ordered list of k distinct share numbers); pipeline = immutable "
        "(Encoder/DownloadNode, a full segment and a tail segment per file), mutable (Publish/Retrieve, SDMF and small-segment "
        "MDMF) or codec (CRSEncoder/CRSDecoder directly).  Exhaustive: every k-subset for all 1<=k<=n<=5 (quick) / <=7 (thorough), "
        "each in ascending, descending and seeded shuffled order (thorough: every order for k<=4), block sizes 1..5 bytes, tail "
        "lengths on and off multiples of k.  Seeded: n in 6..64 and n in {128,255,256} with k in {1,2,n-1,n}.  distinct = distinct "
        "(pipeline,k,n,ids,bytes); non-trivial = decode reached and returned bytes.  End to end (pipeline = grid): real uploads on the "
        "in-process grid, 3-of-256, 2-of-255 and 3-of-10 in every run (thorough adds 1/2/255/256-of-256, 7-of-255, 16-of-64, 5-of-129), "
        "then for a few k-subsets (k highest, k lowest, spread, seeded) only those shares are left on the servers and a fresh node "
        "downloads.  CRSEncoder.encode(desired_share_ids = seeded subsets in seeded order) against the full encode, decoded twice "
        "with the same list objects.  Repair: a file > 1 MiB uploaded with max segment size 128 KiB (thorough: also 2 MiB and others), all but k shares "
        "deleted, real repairer, then downloads from k-subsets of remade-only / original-only / mixed shares.  Plus codec parameter and splitting/padding/"
        "trimming cases compared with the Coq model (data_size 0..3k+2 and around multiples of k, k in {1,2,3,7,16,100,255,256}).")
META = {
    "title": "Erasure coding recovers from any k blocks",
    "level_text": ("Theorem in Coq, for ALL 1<=k<=n, all segments of length >= 1 (full segments and the padded tail) and all ordered "
                   "lists of k distinct share numbers: the modelled Encoder._encode_segment/_gather_data/CRSEncoder.encode followed "
                   "by DownloadNode._decode_blocks/CRSDecoder.decode returns exactly the segment, no assertion fires, n blocks of "
                   "the block size come out; same for the mutable Publish/Retrieve slicing; plus the size arithmetic "
                   "(share_sizes_agree, padded_tail_multiple, tail/full block sizes).  The theorem is over an abstract MDS "
                   "primitive; the real zfec is exercised through codec.py and the real callers on every k-subset for n<=7 and "
                   "seeded subsets up to n=256."),
    "level_note": ("zfec is third-party C code and is NOT modelled: 'zfec.Encoder(k,n)/Decoder(k,n) is an MDS code with n blocks of the "
                   "input piece length' is a hypothesis of the theorem (enc_length_at, enc_block_len_at, mds_at), shown satisfiable "
                   "in Coq by two concrete codes and VALIDATED, not proved, against the real zfec by the exhaustive/seeded runs. "
                   "codec.py, _gather_data and _decode_blocks are hand-modelled and pinned by AST fingerprint; the model's "
                   "splitting/padding/trimming and size arithmetic are compared with the real functions on every run."),
    "technique": "Coq proof over an abstract MDS primitive (all k, n, segments, subsets) + exhaustive/seeded differential run of the real codec and callers",
    "design_ref": "8/C36",
    "trusted_base": ["translator harness/translate/immconsts.py (AST pins of codec.py, Encoder._gather_data, DownloadNode._decode_blocks)",
                     "zfec (third party): MDS property validated by test, not proved"],
    "assumptions": ["zfec.Encoder(k,n).encode returns n blocks of the piece length and zfec.Decoder(k,n).decode recovers the k pieces from any "
                    "k distinct blocks in any order (hypotheses enc_length_at/enc_block_len_at/mds_at of wrapper_roundtrip_any_k), "
                    "validated exhaustively for n<=7 and by seeded subsets for n<=256",
                    "read_encrypted returns exactly the requested bytes unless it hits EOF (stated in Encoder._gather_data)"],
}

IMPORTS = ["Lib.Hex", "Model.Codec"]
# case terms use no string literals; with string_scope open every definition elaborates ~3x slower
PREAMBLE = "Local Close Scope string_scope."


# ---------------------------------------------------------------------------------------------
# running the async codec synchronously
class _Sync(object):
    def __enter__(self):
        import allmydata.util.cputhreadpool as tp
        self.tp = tp
        self.old = tp._DISABLED
        tp._DISABLED = True
        return self

    def __exit__(self, *a):
        self.tp._DISABLED = self.old


def _res(d):
    """Result of an already-fired Deferred (raises the failure's exception)."""
    from twisted.python.failure import Failure
    out = []
    d.addBoth(out.append)
    if not out:
        raise RuntimeError("Deferred did not fire synchronously")
    if isinstance(out[0], Failure):
        out[0].raiseException()
    return out[0]


def div_ceil(a, b):
    return -(-a // b)


def by_shareid(shares, ids, n):
    """The encoder returns (blocks, share numbers): index the blocks by share number."""
    ids = [int(i) for i in ids]
    if sorted(ids) != list(range(n)) or len(shares) != n:
        # not one block per share number: let the shape check report it
        return [bytes(s) for s in shares]
    out = [None] * n
    for s, i in zip(shares, ids):
        out[i] = bytes(s)
    return out


# ---------------------------------------------------------------------------------------------
# immutable pipeline: the real Encoder and DownloadNode methods
class _Uploadable(object):
    """read_encrypted like a local file: exactly `size` bytes unless EOF."""

    def __init__(self, data):
        self.data = data
        self.pos = 0

    def read_encrypted(self, size, hash_only):
        from twisted.internet import defer
        d = self.data[self.pos:self.pos + size]
        self.pos += len(d)
        return defer.succeed([d])


class _FixedRead(object):
    """A misbehaving uploadable: returns its bytes whatever size was asked for."""

    def __init__(self, data):
        self.data = data

    def read_encrypted(self, size, hash_only):
        from twisted.internet import defer
        return defer.succeed([self.data])


def make_encoder(k, n, segsize, data, file_size=None):
    from allmydata.immutable.encode import Encoder
    from allmydata.util import hashutil
    e = Encoder()
    e.file_size = len(data) if file_size is None else file_size
    e._got_all_encoding_parameters((k, 1, n, segsize))
    e._uploadable = _Uploadable(data)
    e._crypttext_hasher = hashutil.crypttext_hasher()
    e._crypttext_hashes = []
    e._times = {"cumulative_encoding": 0.0}
    return e


def imm_encode(k, n, segsize, data):
    """-> list over segments of (is_tail, segment bytes, [n blocks])."""
    e = make_encoder(k, n, segsize, data)
    out = []
    for segnum in range(e.num_segments):
        is_tail = segnum == e.num_segments - 1
        shares, ids = _res(e._encode_segment(segnum, is_tail))
        out.append((is_tail, data[segnum * segsize:(segnum + 1) * segsize], by_shareid(shares, ids, n)))
    return out


class _Status(object):
    def __getattr__(self, name):
        return lambda *a, **kw: None


def make_download_node(k, n, segsize, file_size):
    from allmydata.immutable.downloader.node import DownloadNode
    from allmydata.codec import CRSDecoder
    vc = types.SimpleNamespace(size=file_size, needed_shares=k, total_shares=n)
    stub = types.SimpleNamespace(_verifycap=vc)
    sizes = DownloadNode._calculate_sizes(stub, segsize)
    c = CRSDecoder()
    c.set_params(segsize, k, n)      # DownloadNode._parse_and_store_UEB
    stub.segment_size = segsize
    stub._codec = c
    stub._download_status = _Status()
    for key, v in sizes.items():
        setattr(stub, key, v)
    return stub, sizes


def imm_decode(stub, segnum, picked):
    from allmydata.immutable.downloader.node import DownloadNode
    blocks = {}
    for i, b in picked:
        blocks[i] = b
    segment, _t = _res(DownloadNode._decode_blocks(stub, segnum, blocks))
    return bytes(segment)


# ---------------------------------------------------------------------------------------------
# codec level: CRSEncoder / CRSDecoder directly; the caller's padding replicated (3 lines)
def codec_encode(k, n, seg):
    from allmydata.codec import CRSEncoder
    from allmydata.util import mathutil
    padded = mathutil.next_multiple(len(seg), k)
    c = CRSEncoder()
    c.set_params(padded, k, n)
    ps = c.get_block_size()
    data = seg + b"\x00" * (k * ps - len(seg))
    pieces = [data[i:i + ps] for i in range(0, len(data), ps)]
    shares, ids = _res(c.encode(pieces))
    return padded, pieces, by_shareid(shares, ids, n), list(ids)


def codec_decode(k, n, padded, picked):
    from allmydata.codec import CRSDecoder
    c = CRSDecoder()
    c.set_params(padded, k, n)
    return [bytes(b) for b in _res(c.decode([b for _i, b in picked], [i for i, _b in picked]))]


# ---------------------------------------------------------------------------------------------
# mutable pipeline: the real Publish and Retrieve methods
class _Reader(object):
    def __init__(self, data):
        self.data = data
        self.pos = 0

    def get_size(self):
        return len(self.data)

    def read(self, n):
        d = self.data[self.pos:self.pos + n]
        self.pos += len(d)
        return [d]


READKEY = bytes(range(16))


def mut_encode(k, n, data, mdmf_segsize=None):
    """-> (segsize, [(segment plaintext, [n blocks], salt)])"""
    from allmydata.mutable import publish
    from allmydata.interfaces import SDMF_VERSION, MDMF_VERSION
    stub = types.SimpleNamespace(_version=MDMF_VERSION if mdmf_segsize else SDMF_VERSION, datalength=len(data),
                                 required_shares=k, total_shares=n, data=_Reader(data), log=lambda *a, **kw: None,
                                 _status=_Status(), readkey=READKEY)
    old = publish.DEFAULT_MUTABLE_MAX_SEGMENT_SIZE
    if mdmf_segsize:
        publish.DEFAULT_MUTABLE_MAX_SEGMENT_SIZE = mdmf_segsize
    try:
        publish.Publish.setup_encoding_parameters(stub)
    finally:
        publish.DEFAULT_MUTABLE_MAX_SEGMENT_SIZE = old
    out = []
    pos = 0
    for segnum in range(stub.num_segments):
        (shares, ids), salt = _res(publish.Publish._encode_segment(stub, segnum))
        size = stub.tail_segment_size if segnum + 1 == stub.num_segments else stub.segment_size
        out.append((data[pos:pos + size], by_shareid(shares, ids, n), salt))
        pos += size
    return stub.segment_size, out


def make_retrieve(k, n, segsize, datalength):
    from allmydata.mutable import retrieve
    stub = types.SimpleNamespace(verinfo=(1, b"r" * 32, b"", segsize, datalength, k, n, b"prefix", ()),
                                 _offset=0, _read_length=datalength, _data_length=datalength,
                                 log=lambda *a, **kw: None, _status=_Status(), _set_current_status=lambda *a: None)
    retrieve.Retrieve._setup_encoding_parameters(stub)
    return stub


def mut_decode(stub, segnum, picked, salt):
    from allmydata.mutable import retrieve
    from allmydata.crypto import aes
    from allmydata.util import hashutil
    blocks_and_salts = {}
    for i, b in picked:
        blocks_and_salts[i] = (b, salt)
    segment, salt2 = _res(retrieve.Retrieve._decode_blocks(stub, [blocks_and_salts], segnum))
    key = hashutil.ssk_readkey_data_hash(salt2, READKEY)
    return aes.decrypt_data(aes.create_decryptor(key), bytes(segment))


# ---------------------------------------------------------------------------------------------
# one oracle case (also the replay entry point)
def run_case(ctx, case, cache=None):
    """Encode with the real pipeline, pick the blocks `ids` (in that order), decode with the real
    pipeline, compare with the original bytes.  Returns the observation; reports oracle failures."""
    pipeline = case["pipeline"]
    k, n = case["k"], case["n"]
    ids = list(case["ids"])
    data = bytes.fromhex(case["data"])
    obs = {"segments": []}
    key = (pipeline, k, n, case.get("segsize"), case["data"])
    with _Sync():
        try:
            if cache is not None and cache.get("key") == key:
                enc = cache["enc"]
            else:
                if pipeline == "immutable":
                    enc = ("immutable", imm_encode(k, n, case["segsize"], data), make_download_node(k, n, case["segsize"], len(data))[0])
                elif pipeline == "mutable":
                    segsize, segs = mut_encode(k, n, data, case.get("segsize"))
                    enc = ("mutable", segs, make_retrieve(k, n, segsize, len(data)))
                else:
                    padded, pieces, blocks, _ids = codec_encode(k, n, data)
                    enc = ("codec", [(padded, pieces, blocks)], None)
                if cache is not None:
                    cache["key"] = key
                    cache["enc"] = enc
        except Exception as e:  # the real encoder rejects a valid segment
            ctx.oracle_fail("erasure-encode-raises", "%s encode of %d bytes with k=%d n=%d raised %s: %s" % (pipeline, len(data), k, n, type(e).__name__, str(e)[:200]),
                            case=case, expected="n blocks", observed=type(e).__name__)
            obs["encode_raised"] = type(e).__name__
            return obs
        _kind, segs, dec = enc
        for segnum, seginfo in enumerate(segs):
            if pipeline == "codec":
                padded, pieces, blocks = seginfo
                want = data
            elif pipeline == "immutable":
                _is_tail, want, blocks = seginfo
            else:
                want, blocks, salt = seginfo
            bs = div_ceil(len(want), k)
            if len(blocks) != n or any(len(b) != bs for b in blocks):
                ctx.oracle_fail("erasure-block-shape", "%s k=%d n=%d segment of %d bytes: expected %d blocks of %d bytes, got lengths %r" % (
                    pipeline, k, n, len(want), n, bs, [len(b) for b in blocks][:12]), case=case, expected=[n, bs], observed=[len(b) for b in blocks][:300])
                obs["segments"].append({"segnum": segnum, "block_lengths": [len(b) for b in blocks][:300]})
                continue
            picked = [(i, blocks[i]) for i in ids]
            try:
                if pipeline == "codec":
                    bufs = codec_decode(k, n, padded, picked)
                    if bufs != pieces:
                        ctx.oracle_fail("erasure-decode-wrong-bytes", "CRSDecoder.decode(k=%d,n=%d) from blocks %r does not return the %d input pieces" % (k, n, ids, k),
                                        case=case, expected=[p.hex() for p in pieces], observed=[b.hex() for b in bufs])
                    got = b"".join(bufs)[:len(data)]
                elif pipeline == "immutable":
                    got = imm_decode(dec, segnum, picked)
                else:
                    got = mut_decode(dec, segnum, picked, salt)
            except Exception as e:
                ctx.oracle_fail("erasure-decode-raises", "%s decode (k=%d n=%d, segment %d of %d bytes) from blocks %r raised %s: %s" % (
                    pipeline, k, n, segnum, len(want), ids, type(e).__name__, str(e)[:200]), case=case, expected=want.hex(), observed=type(e).__name__)
                obs["segments"].append({"segnum": segnum, "decode_raised": type(e).__name__})
                continue
            obs["segments"].append({"segnum": segnum, "decoded": got.hex(), "ok": got == want})
            if got != want:
                ctx.oracle_fail("erasure-decode-wrong-bytes", "%s k=%d n=%d: blocks %r of segment %d (%d bytes) decode to %s, the segment is %s" % (
                    pipeline, k, n, ids, segnum, len(want), got.hex()[:120], want.hex()[:120]), case=case, expected=want.hex(), observed=got.hex())
    return obs


# ---------------------------------------------------------------------------------------------
# end to end: real Uploader / real downloader on the in-process grid, top of the range included
def grid_subsets(r, k, n, count):
    subs = [list(range(n - k, n)), list(range(k)), sorted(set((j * (n - 1)) // max(1, k - 1) for j in range(k)))]
    while len(subs) < count:
        subs.append(sorted(r.sample(range(n), k)))
    out = []
    for x in subs:
        if len(x) == k and x not in out:
            out.append(x)
    return out[:count]


def grid_file(ctx, k, n, size, max_seg, seed, subsets, servers=10):
    """Upload one k-of-n file through the real client, then for every subset leave
    exactly those k shares on the servers and download with a fresh node."""
    import random
    from core import grid as G
    data = random.Random(size * 7919 + k * 131 + n).randbytes(size)
    base = {"pipeline": "grid", "k": k, "n": n, "size": size, "max_segment_size": max_seg, "seed": seed, "servers": servers}
    results = []
    with G.Grid(num_servers=servers, k=k, n=n, happy=1, max_segment_size=max_seg, seed=seed, timeout=120) as g:
        out = g.run(lambda: g.upload(data, convergence=b"C36"), outcome=True)
        ctx.case(("grid-up", k, n, size, max_seg), kind="grid-upload")
        if out.status != "ok":
            ctx.oracle_fail("erasure-grid-upload-fails", "%d-of-%d upload of %d bytes fails: %s %s" % (k, n, size, out.status, out.error),
                            case=dict(base, subset=None), observed=str(out.failure)[-500:] if out.failure else out.hung_info)
            return [("upload", out.status, out.error)]
        cap = out.value
        shares = g.find_shares(cap)
        present = sorted(set(sh.shnum for sh in shares))
        if present != list(range(n)):
            ctx.oracle_fail("erasure-grid-shares-missing", "%d-of-%d upload placed shares %r" % (k, n, present), case=dict(base, subset=None))
        saved = {sh: g.read_share(sh) for sh in shares}
        for sub in subsets:
            for sh, raw in saved.items():
                if sh.shnum in sub:
                    g.write_share(sh, raw)
                elif os.path.exists(sh.path):
                    g.delete_share(sh)
            case = dict(base, subset=list(sub))
            ctx.case(("grid-dl", k, n, size, max_seg, tuple(sub)), kind="grid-download-n%d" % n if n >= 255 else "grid-download")
            o2 = g.run(lambda: g.download(cap), outcome=True)
            if o2.status != "ok":
                ctx.oracle_fail("erasure-grid-download-fails", "%d-of-%d file of %d bytes (segments of %d), only shares %r left on the servers: download %s %s" % (
                    k, n, size, max_seg, list(sub), o2.status, o2.error), case=case, observed=str(o2.failure)[-500:] if o2.failure else o2.hung_info)
            elif o2.value != data:
                ctx.oracle_fail("erasure-decode-wrong-bytes", "%d-of-%d file of %d bytes, shares %r: downloaded bytes differ from the uploaded ones" % (k, n, size, list(sub)),
                                case=case, expected=data[:64].hex(), observed=o2.value[:64].hex())
            results.append((list(sub), o2.status, o2.error))
    return results


def oracle_grid(ctx):
    """Whole pipeline incl. share files, UEB parsing and the downloader's own
    parameter handling; N = 255 and N = 256 (top of the property's range) in every run."""
    plan = [(3, 256, 112, 36, 4), (2, 255, 75, 26, 3), (3, 10, 112, 36, 3)]
    if ctx.tier == "thorough" or ctx.search:
        plan += [(1, 256, 60, 7, 3), (256, 256, 600, 256, 1), (255, 256, 800, 255, 3), (2, 256, 57, 1000, 3),
                 (7, 255, 200, 49, 3), (16, 64, 300, 64, 4), (5, 129, 90, 20, 3)]
    for i, (k, n, size, max_seg, count) in enumerate(plan):
        r = ctx.rng("grid", i)
        grid_file(ctx, k, n, size, max_seg, r.getrandbits(20), grid_subsets(r, k, n, count))


# ---------------------------------------------------------------------------------------------
# ICodecEncoder.encode(inshares, desired_share_ids=...) and repeated ICodecDecoder.decode calls
def desired_case(ctx, case):
    """encode() restricted to `desired` (any order, no repeats): every returned (block, id) pair is the
    block the full encode() gives for that id; k of them decode to the pieces; decoding twice with the
    same list objects gives the same answer and leaves the caller's lists alone."""
    from allmydata.codec import CRSEncoder, CRSDecoder
    k, n, desired = case["k"], case["n"], list(case["desired"])
    data = bytes.fromhex(case["data"])
    ps = len(data) // k
    pieces = [data[i * ps:(i + 1) * ps] for i in range(k)]
    old = cputhreadpool_disable()
    try:
        c = CRSEncoder()
        c.set_params(len(data), k, n)
        full, full_ids = _res(c.encode(list(pieces)))
        ref = dict(zip(full_ids, [bytes(b) for b in full]))
        got, got_ids = _res(c.encode(list(pieces), list(desired)))
        got = [bytes(b) for b in got]
        obs = {"ids": list(got_ids), "blocks": [b.hex() for b in got]}
        if list(got_ids) != desired or len(got) != len(desired) or any(ref[i] != b for i, b in zip(got_ids, got)):
            bad = [i for i, b in zip(got_ids, got) if ref.get(i) != b]
            ctx.oracle_fail("codec-desired-share-ids-mislabelled",
                            "CRSEncoder(k=%d,n=%d).encode(pieces, desired_share_ids=%r) returns ids %r; the blocks labelled %r are not the blocks the full encode() gives for those ids"
                            % (k, n, desired, list(got_ids), bad), case=case, expected=[ref[i].hex() for i in desired if i in ref], observed=obs["blocks"])
        if len(desired) >= k:
            pick = case.get("pick") or list(range(k))
            blocks = [got[j] for j in pick]
            ids = [got_ids[j] for j in pick]
            d = CRSDecoder()
            d.set_params(len(data), k, n)
            b0, i0 = list(blocks), list(ids)
            r1 = [bytes(x) for x in _res(d.decode(blocks, ids))]
            r2 = [bytes(x) for x in _res(d.decode(blocks, ids))]
            obs["decoded"] = [x.hex() for x in r1]
            if r1 != pieces:
                ctx.oracle_fail("erasure-decode-wrong-bytes", "codec k=%d n=%d: the blocks encode(desired_share_ids=%r) labels %r decode to %r, the pieces are %r"
                                % (k, n, desired, ids, [x.hex() for x in r1], [x.hex() for x in pieces]), case=case,
                                expected=[x.hex() for x in pieces], observed=[x.hex() for x in r1])
            elif r2 != r1 or blocks != b0 or ids != i0:
                ctx.oracle_fail("codec-decode-mutates-arguments",
                                "CRSDecoder(k=%d,n=%d).decode(blocks, ids=%r) called twice with the same list objects: second result %r, first %r; caller's lists changed: %s"
                                % (k, n, i0, [x.hex() for x in r2], [x.hex() for x in r1], blocks != b0 or ids != i0), case=case,
                                expected=[x.hex() for x in r1], observed=[x.hex() for x in r2])
    except Exception as e:
        ctx.oracle_fail("codec-desired-share-ids-raises", "encode/decode with desired_share_ids=%r (k=%d,n=%d) raised %s: %s" % (desired, k, n, type(e).__name__, e), case=case)
        obs = {"error": type(e).__name__}
    finally:
        cputhreadpool_restore(old)
    return obs


def cputhreadpool_disable():
    from allmydata.util import cputhreadpool
    old = cputhreadpool._DISABLED
    cputhreadpool._DISABLED = True
    return old


def cputhreadpool_restore(old):
    from allmydata.util import cputhreadpool
    cputhreadpool._DISABLED = old


def oracle_desired(ctx):
    m = ctx.n(300, 3000)
    for i in range(m):
        r = ctx.rng("desired", i)
        n = r.choice([2, 3, 3, 4, 5, 7, 10, 16, 64, 255, 256]) if i % 4 else r.randrange(1, 17)
        k = max(1, min(n, r.choice([1, 2, 3, n - 1, n, r.randrange(1, n + 1)])))
        ps = r.choice([1, 2, 3, 8])
        data = rbytes(r, k * ps)
        cnt = r.choice([1, k, k, k + 1, n, r.randrange(1, n + 1)])
        cnt = max(1, min(n, cnt))
        desired = r.sample(range(n), cnt)                      # random order, no repeats
        if i % 5 == 0 and cnt >= 2:
            desired.sort(reverse=True)                           # a check id before a primary id whenever both occur
        case = {"pipeline": "codec-desired", "k": k, "n": n, "data": data.hex(), "desired": desired}
        if cnt >= k:
            case["pick"] = r.sample(range(cnt), k)
        desired_case(ctx, case)
        ctx.case(("desired", k, n, tuple(desired), data), kind="codec-desired-ids")


def repair_file(ctx, k, n, size, max_seg, seed, keep, subsets=None, servers=None):
    """Upload a multi-segment file with a NON-default maximum segment size, delete all shares but `keep`,
    let the real repairer remake the others, then download from k-subsets made of remade shares only,
    original shares only, and a mixture: the shares a successful repair produced are shares of the file."""
    import random
    from core import grid as G
    from allmydata.monitor import Monitor
    servers = servers or n
    data = random.Random(size * 31 + k * 7 + n).randbytes(size)
    base = {"pipeline": "repair", "k": k, "n": n, "size": size, "max_segment_size": max_seg, "seed": seed, "keep": sorted(keep), "servers": servers}
    results = []
    with G.Grid(num_servers=servers, k=k, n=n, happy=1, max_segment_size=max_seg, seed=seed, timeout=180) as g:
        out = g.run(lambda: g.upload(data, convergence=b"C36r"), outcome=True)
        ctx.case(("repair-up", k, n, size, max_seg), kind="repair-upload")
        if out.status != "ok":
            ctx.oracle_fail("erasure-grid-upload-fails", "%d-of-%d upload of %d bytes fails: %s %s" % (k, n, size, out.status, out.error), case=dict(base, subset=None))
            return [("upload", out.status, out.error)]
        cap = out.value
        for sh in g.find_shares(cap):
            if sh.shnum not in keep:
                g.delete_share(sh)
        rep = g.run(lambda: g.node(cap).check_and_repair(Monitor(), verify=False), outcome=True)
        shares = g.find_shares(cap)
        present = sorted(set(sh.shnum for sh in shares))
        ok = rep.status == "ok" and rep.value.get_repair_attempted() and rep.value.get_repair_successful() and present == list(range(n))
        ctx.case(("repair", k, n, size, max_seg, tuple(sorted(keep))) if ok else None, kind="repair-done" if ok else "repair-not-successful")
        if not ok:
            # a repair that does not claim success promises nothing about new shares (C45's subject)
            ctx.count("repair-not-successful")
            return [("repair", rep.status, rep.error, present)]
        remade = [i for i in range(n) if i not in keep]
        if subsets is None:
            r = random.Random(seed)
            subsets = []
            if len(remade) >= k:
                subsets.append(sorted(r.sample(remade, k)))
            subsets.append(sorted(r.sample(sorted(keep), k)))
            if k >= 2 and remade:
                subsets.append(sorted([r.choice(remade)] + r.sample(sorted(keep), k - 1)))
                subsets.append(sorted(r.sample(remade, min(k - 1, len(remade))) + r.sample(sorted(keep), k - min(k - 1, len(remade)))))
            elif remade:
                subsets.append([r.choice(remade)])
        saved = {sh: g.read_share(sh) for sh in shares}
        seen = []
        for sub in subsets:
            if sub in seen:
                continue
            seen.append(sub)
            for sh, raw in saved.items():
                if sh.shnum in sub:
                    g.write_share(sh, raw)
                elif os.path.exists(sh.path):
                    g.delete_share(sh)
            case = dict(base, subset=list(sub))
            ctx.case(("repair-dl", k, n, size, max_seg, tuple(sorted(keep)), tuple(sub)), kind="repair-download")
            o2 = g.run(lambda: g.download(cap), outcome=True)
            which = ["remade" if i in remade else "original" for i in sub]
            if o2.status != "ok":
                ctx.oracle_fail("erasure-repaired-shares-do-not-decode",
                                "%d-of-%d file of %d bytes (max segment %d), repaired from shares %r (repair reported success, %d shares present): with only shares %r (%s) "
                                "left on the servers the download fails: %s %s" % (k, n, size, max_seg, sorted(keep), n, list(sub), "/".join(which), o2.status, o2.error),
                                case=case, observed=str(o2.failure)[-500:] if o2.failure else o2.hung_info)
            elif o2.value != data:
                ctx.oracle_fail("erasure-decode-wrong-bytes", "%d-of-%d repaired file, shares %r (%s): downloaded bytes differ" % (k, n, list(sub), "/".join(which)), case=case)
            results.append((list(sub), o2.status, o2.error))
    return results


def oracle_repair(ctx):
    """Files larger than the downloader's default maximum segment size (1 MiB) uploaded with another maximum."""
    plan = [(2, 4, 1048576 + 37, 131072, [0, 3])]
    if ctx.tier == "thorough" or ctx.search:
        plan += [(3, 5, 1048576 + 5, 2 * 1048576, [1, 2, 4]), (1, 3, 1048576 + 1, 131072, [2]), (3, 10, 1300000, 131072, [0, 4, 9]),
                 (2, 4, 300000, 4096 * 2, [1, 2])]
    for i, (k, n, size, max_seg, keep) in enumerate(plan):
        repair_file(ctx, k, n, size, max_seg, ctx.rng("repair", i).getrandbits(20), set(keep))


def replay(ctx, record):
    case = record.get("case") or {}
    if case.get("pipeline") == "repair":
        return repair_file(ctx, case["k"], case["n"], case["size"], case["max_segment_size"], case["seed"], set(case["keep"]),
                           subsets=[case["subset"]] if case.get("subset") else None, servers=case.get("servers"))
    if case.get("pipeline") == "codec-desired":
        return desired_case(ctx, case)
    if case.get("pipeline") == "grid":
        subs = [case["subset"]] if case.get("subset") else []
        return grid_file(ctx, case["k"], case["n"], case["size"], case["max_segment_size"], case["seed"], subs, case.get("servers", 10))
    if "pipeline" in case:
        return run_case(ctx, case)
    if "sizes" in case:
        return real_sizes(*case["sizes"])
    return {"note": "record carries no single-case input"}


# ---------------------------------------------------------------------------------------------
def orders(ctx, tag, subset, all_perms):
    subset = list(subset)
    if all_perms and len(subset) <= 4:
        return [list(p) for p in itertools.permutations(subset)]
    out = [subset, subset[::-1]]
    r = ctx.rng("order", tag)
    for _ in range(2 if not all_perms else 6):
        s = subset[:]
        r.shuffle(s)
        out.append(s)
    uniq = []
    for o in out:
        if o not in uniq:
            uniq.append(o)
    return uniq


def rbytes(r, n):
    return bytes(r.getrandbits(8) for _ in range(n))


def file_variants(ctx, k, n, thorough):
    """(segsize, file length) pairs: one full segment followed by a tail of 1..segsize bytes."""
    out = []
    bsizes = [1, 2, 3, 5] if thorough else [1, 3]
    for b in bsizes:
        segsize = k * b
        if thorough and segsize <= 12:
            tails = list(range(1, segsize + 1))
        else:
            tails = sorted({1, max(1, k - 1), k, min(segsize, k + 1), max(1, segsize - k + 1), max(1, segsize - 1), segsize, max(1, (segsize // 2) | 1 if segsize > 1 else 1)})
        tails = [t for t in tails if 1 <= t <= segsize]
        for t in tails:
            out.append((segsize, segsize + t))
    return out


def oracle_exhaustive(ctx):
    thorough = ctx.tier == "thorough" or ctx.search
    nmax = 7 if thorough else 5
    count = 0
    for n in range(1, nmax + 1):
        for k in range(1, n + 1):
            variants = file_variants(ctx, k, n, thorough)
            for vi, (segsize, flen) in enumerate(variants):
                data = rbytes(ctx.rng("exh-data", k, n, vi), flen)
                # make sure zero bytes and 0xff occur next to the padding boundary
                if vi % 3 == 1:
                    data = data[:-1] + b"\x00"
                elif vi % 3 == 2:
                    data = data[:-1] + b"\xff"
                cache = {}
                pipelines = ["immutable"]
                if segsize // k in (1, 3):
                    pipelines.append("mutable")
                for pipeline in pipelines:
                    cache = {}
                    # mutable: MDMF with a small maximum segment size (full segment + tail), or SDMF (the
                    # whole file is one segment of arbitrary length: the codec gets the unpadded size)
                    case_segsize = None if (pipeline == "mutable" and vi % 2) else segsize
                    for subset in itertools.combinations(range(n), k):
                        for ids in orders(ctx, (k, n, vi, subset), subset, thorough):
                            case = {"pipeline": pipeline, "k": k, "n": n, "segsize": case_segsize, "ids": ids, "data": data.hex()}
                            obs = run_case(ctx, case, cache)
                            ok = bool(obs["segments"]) and all(s.get("ok") for s in obs["segments"])
                            ctx.case((pipeline, k, n, tuple(ids), data) if ok else None, kind="exhaustive-" + pipeline)
                            count += 1
                            if count in (7, 400, 2000):
                                ctx.sample({"case": case, "observed": obs})
    ctx.note("exhaustive k-subsets for all 1<=k<=n<=%d: %d (file, ordered subset) cases through the real callers" % (nmax, count))


def seeded_subset(r, k, n):
    ids = r.sample(range(n), k)
    mode = r.randrange(4)
    if mode == 0:
        ids.sort()
    elif mode == 1:
        ids.sort(reverse=True)
    elif mode == 2 and k < n:
        # only check blocks (no primary block at all) when possible
        sec = list(range(k, n))
        if len(sec) >= k:
            ids = r.sample(sec, k)
    return ids


def oracle_seeded(ctx):
    thorough = ctx.tier == "thorough" or ctx.search
    n_mid = ctx.n(260, 3000)
    for i in range(n_mid):
        r = ctx.rng("seeded", i)
        if i < 40 or not thorough and i % 3 == 0:
            n = r.choice([6, 7])
        else:
            n = r.choice([8, 9, 10, 15, 16, 17, 31, 32, 33, 63, 64]) if r.random() < 0.6 else r.randrange(6, 65)
        k = r.choice([1, 2, n - 1, n]) if r.random() < 0.35 else r.randrange(1, n + 1)
        k = max(1, min(k, n))
        b = r.choice([1, 1, 2, 3, 4, 8, 33])
        segsize = k * b
        pipeline = ["immutable", "immutable", "mutable", "codec"][i % 4]
        if pipeline == "codec":
            # a single (tail) segment: length a multiple of k or not
            flen = r.choice([segsize, max(1, segsize - r.randrange(k)), max(1, segsize - k + 1), r.randrange(1, segsize + 1)])
        elif pipeline == "mutable" and i % 8 == 2:
            flen = r.randrange(1, segsize + 1)          # SDMF: one segment, codec gets the unpadded size
            segsize = None
        else:
            flen = segsize + r.choice([segsize, 1, max(1, segsize - 1), r.randrange(1, segsize + 1)])
        data = rbytes(r, flen)
        ids = seeded_subset(r, k, n)
        case = {"pipeline": pipeline, "k": k, "n": n, "segsize": segsize, "ids": ids, "data": data.hex()}
        obs = run_case(ctx, case)
        ok = bool(obs["segments"]) and all(s.get("ok") for s in obs["segments"])
        ctx.case((pipeline, k, n, tuple(ids), data) if ok else None, kind="seeded-" + pipeline)
        if i == 5:
            ctx.sample({"case": case, "observed": obs})
    # large n
    per = ctx.n(3, 12)
    for n in (128, 255, 256):
        for k in (1, 2, n - 1, n):
            for j in range(per):
                r = ctx.rng("large", n, k, j)
                b = r.choice([1, 2, 3])
                segsize = k * b
                pipeline = ["immutable", "codec", "mutable"][j % 3]
                if pipeline == "codec":
                    flen = max(1, segsize - r.randrange(k))
                else:
                    flen = segsize + max(1, segsize - r.randrange(k))
                data = rbytes(r, flen)
                ids = seeded_subset(r, k, n)
                case = {"pipeline": pipeline, "k": k, "n": n, "segsize": segsize, "ids": ids, "data": data.hex()}
                obs = run_case(ctx, case)
                ok = bool(obs["segments"]) and all(s.get("ok") for s in obs["segments"])
                ctx.case((pipeline, k, n, tuple(ids), data) if ok else None, kind="large-n-" + pipeline)


def oracle_corpus(ctx):
    d = os.path.join(env.CORPUS, ID)
    if not os.path.isdir(d):
        return
    for fn in sorted(os.listdir(d)):
        if not fn.endswith(".json"):
            continue
        for case in json.load(open(os.path.join(d, fn))):
            obs = run_case(ctx, case)
            ok = bool(obs["segments"]) and all(s.get("ok") for s in obs["segments"])
            ctx.case((case["pipeline"], case["k"], case["n"], tuple(case["ids"]), case["data"]) if ok else None, kind="corpus")


# ---------------------------------------------------------------------------------------------
# correspondence 1: codec parameters and the callers' size arithmetic vs the model
def real_sizes(data_size, k, n):
    from allmydata.codec import CRSEncoder, CRSDecoder
    e = CRSEncoder()
    e.set_params(data_size, k, n)
    d = CRSDecoder()
    d.set_params(data_size, k, n)
    return {"enc_share_size": e.share_size, "enc_block_size": e.get_block_size(), "enc_last_share_padding": e.last_share_padding,
            "dec_share_size": d.share_size, "dec_num_chunks": d.num_chunks, "dec_chunk_size": d.chunk_size}


def corr_params(ctx, all_terms, on_bad):
    name = "codec-params-vs-model"
    ctx.correspondence(name)
    thorough = ctx.tier == "thorough" or ctx.search
    cases = []
    for k in (1, 2, 3, 7, 16, 100, 255, 256):
        sizes = set()
        if k <= 16 or thorough:
            sizes.update(range(0, 3 * k + 3))
        else:
            for m in (0, 1, 2, 3):
                sizes.update(x for x in (m * k - 1, m * k, m * k + 1, m * k + 2) if x >= 0)
            r = ctx.rng("params", k)
            sizes.update(r.randrange(0, 3 * k + 3) for _ in range(12))
        for m in (10, 1000, 131072 // k, 2 ** 32 // k, 2 ** 40):
            sizes.update((m * k - 1, m * k, m * k + 1))
        ns = sorted({k, min(256, k + 1), 256})
        for j, ds in enumerate(sorted(sizes)):
            cases.append((ds, k, ns[j % len(ns)]))
    terms = []
    for (ds, k, n) in cases:
        s = real_sizes(ds, k, n)
        ctx.case(("params", ds, k, n), kind="codec-params")
        # the property's own arithmetic, independent of the model: k blocks of share_size cover data_size with < k spare
        if not (s["enc_share_size"] * k >= ds and (s["enc_share_size"] - 1) * k < ds + (1 if ds == 0 else 0)) or s["enc_share_size"] != s["dec_share_size"] \
                or s["enc_block_size"] != s["enc_share_size"]:
            ctx.oracle_fail("codec-share-size-wrong", "set_params(data_size=%d, k=%d, n=%d): encoder share_size %d, decoder share_size %d; "
                            "k blocks must cover data_size with fewer than k spare bytes" % (ds, k, n, s["enc_share_size"], s["dec_share_size"]),
                            case={"sizes": [ds, k, n]}, expected=div_ceil(ds, k), observed=s)
        terms.append("(crs_enc_share_size %s %s =? %s) && (crs_enc_last_share_padding %s %s =? %s) && (crs_dec_share_size %s %s =? %s) "
                     "&& (crs_dec_num_chunks %s %s =? %s) && Bool.eqb (crs_enc_params_ok %s %s) true" % (
                         T.N(ds), T.N(k), T.N(s["enc_share_size"]), T.N(ds), T.N(k), T.N(s["enc_last_share_padding"]),
                         T.N(ds), T.N(k), T.N(s["dec_share_size"]), T.N(ds), T.N(k), T.N(s["dec_num_chunks"]), T.N(k), T.N(n)))
    # CRSEncoder.set_params rejects k > n
    from allmydata.codec import CRSEncoder
    guard = [(2, 1), (3, 2), (256, 255), (1, 1), (7, 7)]
    for (k, n) in guard:
        try:
            CRSEncoder().set_params(10, k, n)
            ok = True
        except AssertionError:
            ok = False
        except Exception:
            ok = None
        ctx.case(("guard", k, n), kind="codec-params-guard")
        cases.append((10, k, n))
        terms.append("Bool.eqb (crs_enc_params_ok %s %s) %s" % (T.N(k), T.N(n), T.boolean(bool(ok))))

    # callers: Encoder._got_all_encoding_parameters and DownloadNode._calculate_sizes
    ncall = ctx.n(100, 1200)
    for i in range(ncall):
        r = ctx.rng("caller-sizes", i)
        k = r.choice([1, 2, 3, 3, 7, 16, 100, 255, 256])
        n = r.choice([x for x in (k, k + 1, 10, 256) if k <= x <= 256])
        b = r.choice([1, 2, 3, 10, 43691, 131072 // k or 1])
        segsize = k * b
        fs = r.choice([1, segsize - 1 or 1, segsize, segsize + 1, 2 * segsize, 2 * segsize + k - 1, 3 * segsize - 1, r.randrange(1, 4 * segsize + 1)])
        with _Sync():
            e = make_encoder(k, n, segsize, b"", file_size=fs)
            _stub, sizes = make_download_node(k, n, segsize, fs)
        tail_params = e._tail_codec.get_params()
        ctx.case(("caller", fs, segsize, k), kind="caller-sizes")
        cases.append((fs, segsize, k))
        terms.append("(padded_tail_size %s %s %s =? %s) && (tail_size %s %s =? %s) && (padded_tail_size %s %s %s =? %s) && (dl_block_size %s %s =? %s) "
                     "&& (dl_tail_block_size %s %s %s =? %s) && (num_segments %s %s =? %s) && (num_segments %s %s =? %s) && (crs_enc_share_size %s %s =? %s)" % (
                         T.N(fs), T.N(segsize), T.N(k), T.N(tail_params[0]),
                         T.N(fs), T.N(segsize), T.N(sizes["tail_segment_size"]),
                         T.N(fs), T.N(segsize), T.N(k), T.N(sizes["tail_segment_padded"]),
                         T.N(segsize), T.N(k), T.N(sizes["block_size"]),
                         T.N(fs), T.N(segsize), T.N(k), T.N(sizes["tail_block_size"]),
                         T.N(fs), T.N(segsize), T.N(sizes["num_segments"]),
                         T.N(fs), T.N(segsize), T.N(e.num_segments),
                         T.N(tail_params[0]), T.N(k), T.N(e._tail_codec.get_block_size())))
        if sizes["tail_block_size"] != e._tail_codec.get_block_size() or sizes["block_size"] != e._codec.get_block_size():
            ctx.oracle_fail("uploader-downloader-block-size-differ", "file_size=%d segsize=%d k=%d: uploader tail block %d / block %d, downloader expects %d / %d" % (
                fs, segsize, k, e._tail_codec.get_block_size(), e._codec.get_block_size(), sizes["tail_block_size"], sizes["block_size"]),
                case={"file_size": fs, "segsize": segsize, "k": k, "n": n}, expected=e._tail_codec.get_block_size(), observed=sizes)
    for t, c in zip(terms, cases):
        all_terms.append(t)
        on_bad.append(("codec-sizes-model-vs-impl", "Coq size arithmetic and the real set_params/_calculate_sizes differ for %r" % (c,),
                       {"sizes": list(c)}, name))


# ---------------------------------------------------------------------------------------------
# correspondence 2: splitting / padding / joining / trimming on concrete data
def coq_pieces(pieces):
    return T.lst([T.bytes_(p) for p in pieces])


def corr_wrapper(ctx, all_terms, on_bad):
    name = "segment-wrapper-vs-model"
    ctx.correspondence(name)
    from allmydata.immutable.encode import Encoder
    from allmydata.util import hashutil
    terms = []
    info = []
    nc = ctx.n(60, 500)
    for i in range(nc):
        r = ctx.rng("wrap", i)
        k = r.choice([1, 1, 2, 2, 3, 3, 4, 5, 7, 10, 16])
        n = r.choice([x for x in (k, k + 1, k + 2, 10, 20) if x >= k])
        b = r.choice([1, 1, 2, 3, 5, 8]) if k <= 5 else r.choice([1, 2, 3])
        segsize = k * b
        is_tail = (i % 3 != 0)
        L = r.choice([1, max(1, segsize - 1), segsize, max(1, segsize - k + 1), r.randrange(1, segsize + 1)]) if is_tail else segsize
        seg = rbytes(r, L)
        if i % 5 == 0:
            seg = seg[:-1] + b"\x00"
        with _Sync():
            # (a) the pieces _gather_data hands to the codec
            e = make_encoder(k, n, segsize, seg)
            codec = e._tail_codec if is_tail else e._codec
            ps = codec.get_block_size()
            pieces = [bytes(p) for p in _res(Encoder._gather_data(e, k, ps, hashutil.crypttext_segment_hasher(), allow_short=is_tail))]
            ctx.case(("gather", k, is_tail, seg), kind="wrapper-gather")
            terms.append("opt_pieces_eqb (gather_data %s %s %s %s) (Some %s)" % (T.N(k), T.N(ps), T.boolean(is_tail), T.bytes_(seg), coq_pieces(pieces)))
            info.append(("gather_data", k, n, is_tail, seg))
            # (b) the whole encode side, the primitive instantiated with what the real zfec returned
            e1 = make_encoder(k, n, segsize, seg)
            shares, _ids = _res(e1._encode_segment(0, is_tail))
            blocks = by_shareid(shares, _ids, n)
            ctx.case(("encode", k, n, is_tail, seg), kind="wrapper-encode")
            terms.append("opt_pieces_eqb (encode_segment (fun _ _ ps => if pieces_eqb ps %s then %s else []) %s %s %s %s) (Some %s)" % (
                coq_pieces(pieces), coq_pieces(blocks), T.N(k), T.N(n), T.boolean(is_tail), T.bytes_(seg), coq_pieces(blocks)))
            info.append(("encode_segment", k, n, is_tail, seg))
            # (c) the decode side: the model's block-size check / precondition / join / length check / trim
            ids = r.sample(range(n), k)
            picked = [(j, blocks[j]) for j in ids]
            stub, sizes = make_download_node(k, n, segsize, len(seg))
            bufs = codec_decode(k, n, sizes["tail_segment_padded"], picked)
            got = imm_decode(stub, 0, picked)
            ctx.case(("decode", k, n, tuple(ids), seg), kind="wrapper-decode")
            # _decode_blocks treats the only segment as the tail (segnum == num_segments-1)
            terms.append("opt_bytes_eqb (decode_segment (fun _ _ _ => %s) %s %s true %s %s) (Some %s)" % (
                coq_pieces(bufs), T.N(k), T.N(n), T.N(len(seg)), T.lst([T.pair(T.N(j), T.bytes_(bb)) for j, bb in picked]), T.bytes_(got)))
            info.append(("decode_segment", k, n, ids, seg))
            # (d) malformed: a block of the wrong length, or the wrong number of blocks: both sides must reject
            mode = i % 4
            if mode == 0 and k >= 1:
                bad_picked = [(j, (bb + b"\x00") if idx == r.randrange(k) or idx == 0 else bb) for idx, (j, bb) in enumerate(picked)]
            elif mode == 1 and k >= 2:
                bad_picked = picked[:-1]
            elif mode == 2 and n > k:
                extra = [j for j in range(n) if j not in ids][0]
                bad_picked = picked + [(extra, blocks[extra])]
            else:
                bad_picked = None
            if bad_picked is not None:
                try:
                    out = imm_decode(stub, 0, bad_picked)
                    rejected = False
                except AssertionError:
                    rejected = True
                    out = None
                except Exception as ex:
                    # not stopped by an assert/precondition of the wrappers: it reached zfec
                    ctx.mismatch("wrapper-model-vs-impl:decode-malformed-reaches-zfec",
                                 "blocks %r (k=%d n=%d) are rejected by the model's preconditions but the real _decode_blocks/CRSDecoder.decode "
                                 "passed them to zfec (%s)" % ([j for j, _b in bad_picked], k, n, type(ex).__name__),
                                 case={"k": k, "n": n, "ids": [j for j, _b in bad_picked], "data": seg.hex()}, expected="AssertionError",
                                 observed=type(ex).__name__, correspondence=name)
                    continue
                ctx.case(None, kind="wrapper-decode-malformed")
                # whatever zfec would do with it is outside the model: the model must reject before calling dec
                terms.append("opt_bytes_eqb (decode_segment (fun _ _ _ => [[99]]) %s %s true %s %s) %s" % (
                    T.N(k), T.N(n), T.N(len(seg)), T.lst([T.pair(T.N(j), T.bytes_(bb)) for j, bb in bad_picked]),
                    "None" if rejected else "(Some %s)" % T.bytes_(out)))
                info.append(("decode_segment-malformed", k, n, [j for j, _b in bad_picked], seg))
            # (e) _gather_data preconditions: short read without allow_short, over-long read
            if i % 6 == 1:
                for (short, allow) in ((True, False), (False, True), (False, False)):
                    rd = seg[:-1] if short else seg + b"\x01" * (k * ps - len(seg) + 1)
                    e2 = make_encoder(k, n, segsize, rd)
                    e2._uploadable = _FixedRead(rd)
                    try:
                        out = [bytes(p) for p in _res(Encoder._gather_data(e2, k, ps, hashutil.crypttext_segment_hasher(), allow_short=allow))]
                        want = "(Some %s)" % coq_pieces(out)
                    except AssertionError:
                        want = "None"
                    if short and not rd:
                        continue
                    ctx.case(None, kind="wrapper-gather-malformed")
                    terms.append("opt_pieces_eqb (gather_data %s %s %s %s) %s" % (T.N(k), T.N(ps), T.boolean(allow), T.bytes_(rd), want))
                    info.append(("gather_data-malformed", k, n, allow, rd))
            # (f) k = 1: zfec is replication; the whole model instantiated with enc_repl/dec_repl
            if k == 1:
                j = ids[0]
                terms.append("opt_pieces_eqb (encode_segment enc_repl 1 %s %s %s) (Some %s)" % (T.N(n), T.boolean(is_tail), T.bytes_(seg), coq_pieces(blocks)))
                info.append(("encode_segment-repl", k, n, is_tail, seg))
                terms.append("opt_bytes_eqb (match encode_segment enc_repl 1 %s %s %s with Some bl => decode_segment dec_repl 1 %s true %s (pick [%s] bl) | None => None end) (Some %s)" % (
                    T.N(n), T.boolean(is_tail), T.bytes_(seg), T.N(n), T.N(len(seg)), T.N(j), T.bytes_(got)))
                info.append(("roundtrip-repl", k, n, [j], seg))
                ctx.case(("repl", n, j, seg), kind="wrapper-k1-end-to-end")
            # (g) mutable slicing: Publish._encode_segment's pieces (recovered as the primary blocks 0..k-1)
            if i % 2 == 0:
                _ss, msegs = mut_encode(k, n, seg)     # SDMF, one segment: the codec gets the unpadded size
                plain, mblocks, salt = msegs[0]
                from allmydata.crypto import aes
                key = hashutil.ssk_readkey_data_hash(salt, READKEY)
                crypt = aes.encrypt_data(aes.create_encryptor(key), seg)
                ctx.case(("mutable-pieces", k, seg), kind="wrapper-mutable-pieces")
                terms.append("pieces_eqb (mutable_pieces %s (crs_enc_share_size %s %s) %s) %s" % (
                    T.N(k), T.N(len(seg)), T.N(k), T.bytes_(crypt), coq_pieces(mblocks[:k])))
                info.append(("mutable_pieces", k, n, None, crypt))
    for t, what in zip(terms, info):
        all_terms.append(t)
        on_bad.append(("wrapper-model-vs-impl:" + what[0],
                       "Coq %s and the real caller differ (k=%d n=%d %r, %d bytes)" % (what[0], what[1], what[2], what[3], len(what[4])),
                       {"fn": what[0], "k": what[1], "n": what[2], "arg": repr(what[3]), "data": what[4].hex()}, name))


def run(ctx):
    oracle_corpus(ctx)
    oracle_exhaustive(ctx)
    oracle_grid(ctx)
    oracle_repair(ctx)
    oracle_desired(ctx)
    oracle_seeded(ctx)
    # both correspondences are evaluated by one round of coqc shards
    terms, on_bad = [], []
    corr_params(ctx, terms, on_bad)
    corr_wrapper(ctx, terms, on_bad)
    bad = ctx.coq_check(IMPORTS, terms, preamble=PREAMBLE, tag="c36model", shard=250)
    for ix in bad:
        kind, what, case, name = on_bad[ix]
        ctx.mismatch(kind, what, case=case, correspondence=name)
    ctx.trace(len(terms) - len(bad))
